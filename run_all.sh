#!/bin/bash
# runs every listed check (default: all props) at the given tier, sequentially, full machine; prints one summary line each
tier=${TIER:-quick}
ids="$@"; [ -z "$ids" ] && ids=$(ls props | grep -o '^C[0-9]*' | sort -u)
for c in $ids; do
  s=$(date +%s)
  out=$(./check $c --tier $tier 2>&1); rc=$?
  e=$(( $(date +%s) - s ))
  echo "$c rc=$rc ${e}s :: $(echo "$out" | grep -c '^VIOLATION') violations, $(echo "$out" | grep -c '^KNOWN-FINDING') known :: $(echo "$out" | grep "^$c tier" | cut -c1-200)"
  echo "$out" | grep "failing case" | head -3 | cut -c1-260
done
