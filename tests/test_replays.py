"""Plain pytest replays of the committed violation artefacts (no explorer, no process pool):
    cd /verif && PYTHONPATH=/repo/src:/verif JAX_PLATFORMS=cpu /venv/bin/python -m pytest -q tests/test_replays.py
Each replays/keep_*.json holds one minimal failing case of a listed known finding; the test re-executes exactly that case
against the working tree and asserts that the same failure signature (and nothing else) is produced."""
import glob
import importlib
import json
import os
import re

import pytest

HERE = os.path.dirname(os.path.dirname(os.path.abspath(__file__)))
FILES = sorted(glob.glob(os.path.join(HERE, "replays", "keep_*.json")))


@pytest.mark.parametrize("path", FILES, ids=[os.path.basename(f) for f in FILES])
def test_replay(path):
    from mc import guard

    guard.import_fdtdx()
    rp = json.load(open(path))
    mod = importlib.import_module(f"props.{rp['property']}")
    res = mod.run_case(rp["case"])
    fails = res.get("failures") or ([] if res["ok"] else [dict(sig=res.get("sig"))])
    known = [e for e in json.load(open(os.path.join(HERE, "known_findings.json")))["findings"] if e["property"] == rp["property"]]
    sigs = [f["sig"] for f in fails]
    status = rp.get("expect", "known")
    if status == "known":
        assert sigs, "the known finding no longer reproduces: move its entry to status=fixed"
        for s in sigs:
            assert any(e["status"] == "known" and re.fullmatch(e["sig_regex"], s) for e in known), f"unlisted failure {s}"
    else:  # a fixed finding must stay fixed
        assert not sigs, sigs
