#!/usr/bin/env python3
"""Regenerates MANIFEST.json from props/*.py metadata (MANIFEST_ENTRY dicts) + NOT_APPLICABLE list; validates."""
import importlib.util, json, os, sys, ast

HERE = os.path.dirname(os.path.abspath(__file__))


def meta_of(path):
    """Read ID, LEVEL, MANIFEST (dict literal) from a props module without importing jax."""
    src = open(path).read()
    tree = ast.parse(src)
    out = {}
    for node in tree.body:
        if isinstance(node, ast.Assign) and len(node.targets) == 1 and isinstance(node.targets[0], ast.Name):
            name = node.targets[0].id
            if name in ("ID", "LEVEL", "MANIFEST", "ASSUMPTIONS"):
                try:
                    out[name] = ast.literal_eval(node.value)
                except Exception:
                    pass
    return out


def main():
    props = sorted(f for f in os.listdir(os.path.join(HERE, "props")) if f.startswith("C") and f.endswith(".py"))
    checks = []
    claimed = set()
    registered = set(json.load(open(os.path.join(HERE, "registered.json"))))
    for f in props:
        m = meta_of(os.path.join(HERE, "props", f))
        if "MANIFEST" not in m or m.get("ID") not in registered:
            continue
        pid = m["ID"]
        mm = m["MANIFEST"]
        claimed.add(pid)
        checks.append(
            {
                "property_id": pid,
                "quick_cmd": f"./check {pid} --tier quick",
                "thorough_cmd": f"./check {pid} --tier thorough",
                "evidence_file": f"/verif/evidence/{pid}.json",
                "replay_cmd_template": f"./check {pid} --replay {{path}}",
                "engine": mm.get("engine", "mc"),
                "level_claimed": {"category": m["LEVEL"], "text": mm["text"], "design_ref": mm.get("design_ref", f"DESIGN.md section 2, {pid}")},
                "level_note": mm["note"],
                "technique": mm["technique"],
            }
        )
    na_path = os.path.join(HERE, "not_applicable.json")
    na = json.load(open(na_path)) if os.path.exists(na_path) else {}
    all_ids = [json.loads(l)["id"] for l in open(os.path.join(HERE, "properties.jsonl"))]
    not_app = []
    for pid in all_ids:
        if pid in claimed:
            continue
        not_app.append({"property_id": pid, "reason": na.get(pid, "check not built yet in this session (machinery described in DESIGN.md); not claimed")})
    man = {
        "version": 1,
        "setup_cmd": "true",
        "hooks": {
            "guard": "FDTDX_VERIF",
            "enable": "no instrumentation hooks are needed: ./check imports /repo/src directly (PYTHONPATH) and asserts fdtdx.__file__ is under it; FDTDX_VERIF=1 is exported but unused",
            "baseline_off_cmd": "cd /repo && /venv/bin/python -m pytest -ra -q -p no:cacheprovider --timeout=900 --continue-on-collection-errors",
            "source_commits": [],
            "add_only": True,
        },
        "engines": [
            {"name": "E1-linsys", "path": "mc/linsys.py", "kind_free_text": "affine-system tabulation: the real step function evaluated on every basis state (exhaustive transition table), identities checked on the table, conformance replays through the JIT driver"},
            {"name": "E2-enum", "path": "mc/runner.py", "kind_free_text": "bounded exhaustive enumeration of inputs/configurations against independent reference models"},
            {"name": "E3-bfs", "path": "mc/bfs.py", "kind_free_text": "explicit-state BFS over operation histories / orderings on real objects with canonical state digests"},
        ],
        "checks": checks,
        "not_applicable": not_app,
        "notes": "All checks run /venv/bin/python with PYTHONPATH=/repo/src (the pinned pytest suite imports a stale site-packages copy of fdtdx and therefore cannot observe /repo/src at all). Known genuine defects are listed in known_findings.json.",
    }
    schema = json.load(open(os.path.join(HERE, "schemas", "MANIFEST.schema.json")))
    try:
        import jsonschema

        jsonschema.validate(man, schema)
    except ImportError:
        pass
    json.dump(man, open(os.path.join(HERE, "MANIFEST.json"), "w"), indent=1)
    print(f"MANIFEST.json: {len(checks)} checks, {len(not_app)} not claimed")


if __name__ == "__main__":
    main()
