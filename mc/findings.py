"""known_findings.json reader. Never written at run time.

Entries: {"id", "property", "status": "known"|"fixed", "sig_regex", "what", ...}.
Only status == "known" suppresses, and only failures whose signature matches sig_regex (fullmatch);
a "fixed" entry suppresses nothing."""
import json
import os
import re

HERE = os.path.dirname(os.path.dirname(os.path.abspath(__file__)))
PATH = os.path.join(HERE, "known_findings.json")


def load(pid):
    if not os.path.exists(PATH):
        return []
    with open(PATH) as fh:
        data = json.load(fh)
    return [e for e in data.get("findings", []) if e.get("property") == pid and e.get("status") == "known"]


def match(known, sig):
    for e in known:
        if re.fullmatch(e["sig_regex"], sig):
            return e
    return None
