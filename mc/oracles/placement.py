"""Constraint-system alphabet, builder and *independent* oracle for C26 / C27 (object placement).

A system is a JSON-able dict
    {"vol": [nx,ny,nz], "grid": "uniform"|"rect_distinct"|"rect_seed", "sp": float, "seed": int,
     "objects": [{"name","gshape":[..|None]*3,"rshape":[..]*3,"rpos":[..]*3}, ...],       (volume is implicit, name "v")
     "constraints": [ {"k":"pos"|"size"|"ext"|"gc"|"rc", ...}, ... ]}
`build(system)` turns it into real fdtdx objects / constraints / a config whose grid is already resolved (exactly what
place_objects hands to resolve_object_constraints).  `judge(system, slices)` re-evaluates every requirement of the
property statement on the final slices with numpy only; it never calls fdtdx.

Oracle rules (written from the property statement and the docstrings of object.py / grid.py):
  * every object inside the volume with positive size; the volume is (0,N) on every axis
  * partial_grid_shape: exact cell count
  * physical lengths (partial_real_shape, SizeConstraint): uniform grid -> nearest edge counted from the lower domain edge
    (|n*d - L| <= d/2 inside the axis; a length beyond the axis snaps to N - the documented behaviour of coord_to_index);
    non-uniform -> documented rule of _real_length_to_grid_size/length_to_cell_count: cells counted from the lower domain
    edge, exact edge hit -> that edge, else upper snapping, clamped to the axis length
  * anchors (PositionConstraint, partial_real_position): realised anchor within half a cell of the requested one
    ("nearest-edge snapping"); half of the largest cell on non-uniform axes (conservative).  partial_real_position is not
    one of the five constraint kinds of the statement: it is judged only when it is the sole positional information of an
    object with an own (static) size; otherwise a mismatch is reported as "obs:" (counted, not a violation)
  * SizeExtensionConstraint / RealCoordinateConstraint: the side index is *a* nearest edge of the requested coordinate
  * GridCoordinateConstraint: exact
  * an axis on which an object has no own size/position and no constraint spans the volume
"""
import itertools
import math

import numpy as np

PHI = 0.6180339887498949
REL = 1e-6  # tie slack relative to a cell width


# ------------------------------------------------------------------------------------------------ geometry of my grids
def axis_edges(kind, n, sp, seed, axis):
    """The edge coordinates *I* give to fdtdx (float64)."""
    if kind == "uniform":
        lower = 0.0 - n * sp / 2.0
        return lower + sp * np.arange(n + 1)
    if kind == "rect_distinct":
        k = np.arange(n) + 3 * axis
        w = sp * (0.7 + 0.9 * np.mod(0.211 + k * PHI, 1.0))
    elif kind == "rect_seed":
        import zlib

        rng = np.random.default_rng((int(seed) * 1000003 + zlib.crc32(f"pl-edges{axis}".encode())) % (2**32))
        w = sp * rng.uniform(0.6, 1.7, size=n)
    else:
        raise ValueError(kind)
    e = np.concatenate([[0.0], np.cumsum(w)])
    return e - 0.5 * e[-1]


def system_edges(system):
    return [axis_edges(system["grid"], system["vol"][a], system["sp"], system.get("seed", 0), a) for a in range(3)]


# ------------------------------------------------------------------------------------------------ alphabet
def _seedfrac(seed, k):
    return float(np.mod(0.137 + (seed * 7 + k + 1) * PHI, 1.0))


def alphabet(ax, n, sp, seed, with_c=False):
    """Constraint / own-position alphabet acting on primary axis `ax` (secondary (ax+1)%3) of a volume with n cells there.

    Entries are small dicts; kind "own" sets an attribute of the object itself (partial_real_position)."""
    ax2 = (ax + 1) % 3
    A = []

    def pos(obj, other, own, oth, m=0.0, gm=0, axes=None):
        axes = [ax] if axes is None else axes
        k = len(axes)
        A.append(dict(k="pos", obj=obj, other=other, axes=axes, own=[own] * k, oth=[oth] * k, margins=[m] * k, gmargins=[gm] * k))

    def size(obj, other, p=1.0, off=0.0, goff=0, other_axes=None):
        A.append(dict(k="size", obj=obj, other=other, axes=[ax], other_axes=[ax] if other_axes is None else other_axes, props=[p], offsets=[off], goffsets=[goff]))

    def ext(obj, other, d, op=None, off=0.0, goff=0):
        A.append(dict(k="ext", obj=obj, other=other, axis=ax, dir=d, op=op, offset=off, goffset=goff))

    def gc(obj, sides, coords, axes=None):
        A.append(dict(k="gc", obj=obj, axes=[ax] if axes is None else axes, sides=sides, coords=coords))

    def rc(obj, side, c):
        A.append(dict(k="rc", obj=obj, axes=[ax], sides=[side], coords=[c]))

    def own(obj, x, axes=None):
        axes = [ax] if axes is None else axes
        A.append(dict(k="own", obj=obj, axes=axes, rpos=[x] * len(axes)))

    # --- positions
    for o in (-1, 0, 1):
        for t in (-1, 0, 1):
            pos("a", "v", o, t)
    pos("a", "v", -1, -1, gm=1)
    pos("a", "v", 1, 1, gm=-1)
    pos("a", "v", -1, -1, m=1.3 * sp)
    pos("a", "v", 0, 0, m=-0.5 * sp)
    pos("a", "v", -1, -1, gm=5)
    pos("a", "v", -1, -1, m=1.0 * sp, gm=1)  # metric and index margin on the same axis add up
    pos("b", "a", -1, 1, m=0.7 * sp, gm=1)
    pos("a", "v", 0, 0, axes=[ax, ax2])
    pos("b", "a", -1, 1)
    pos("b", "a", 1, -1)
    pos("b", "a", 0, 0)
    pos("b", "a", -1, 1, gm=1)
    pos("b", "v", 0, 0)
    pos("b", "v", -1, -1)
    pos("a", "b", 1, -1)
    pos("a", "b", 0, 0)
    pos("a", "v", -1, -1, m=(0.2 + 2.6 * _seedfrac(seed, 0)) * sp)
    # --- sizes
    size("a", "v", 1.0)
    size("a", "v", 0.5)
    size("a", "v", 0.5, other_axes=[ax2])
    size("a", "v", 1.0, off=-2.0 * sp)
    size("a", "v", 1.0, goff=-2)
    size("a", "v", 1.0 / 3.0)
    size("a", "v", 1.0, off=1.0 * sp)
    size("b", "a", 1.0)
    size("b", "a", 0.5)
    size("b", "v", 0.5)
    size("a", "b", 1.0)
    size("a", "v", 0.2 + 0.7 * _seedfrac(seed, 1))
    # --- extensions
    ext("a", None, "+")
    ext("a", None, "-")
    ext("a", "b", "+")
    ext("a", "b", "-")
    ext("b", "a", "+")
    ext("b", "a", "-")
    ext("a", "b", "+", op=0.0)
    ext("a", "b", "+", off=1.3 * sp)
    ext("a", "b", "+", goff=1)
    ext("b", None, "+")
    ext("b", None, "-")
    ext("a", "v", "+", op=1.0)
    # --- grid coordinates
    gc("a", ["-"], [1])
    gc("a", ["-"], [0])
    gc("a", ["+"], [5])
    gc("a", ["+"], [n])
    gc("a", ["-"], [4])
    gc("b", ["-"], [2])
    gc("b", ["+"], [4])
    gc("a", ["-"], [-1])
    gc("a", ["+"], [n + 1])
    gc("a", ["-", "+"], [1, 3], axes=[ax, ax2])
    # --- real coordinates (physical coordinates; the domain is centred on 0)
    rc("a", "-", -1.2 * sp)
    rc("a", "+", 0.7 * sp)
    rc("a", "-", 0.0)
    rc("a", "+", 10.0 * sp)
    rc("b", "-", -2.0 * sp)
    rc("b", "+", 1.5 * sp)
    rc("a", "-", -0.5 * sp)
    rc("a", "-", (-2.0 + 3.0 * _seedfrac(seed, 2)) * sp)
    # --- own real positions (centre of the object relative to the centre of the volume)
    own("a", 0.6 * sp)
    own("a", 10.0 * sp)
    own("b", -1.0 * sp)
    own("a", 0.0, axes=[ax, ax2])
    if with_c:
        pos("c", "b", -1, 1)
        pos("c", "a", 0, 0)
        pos("c", "v", 1, 1)
        pos("b", "c", 1, -1)
        size("c", "b", 1.0)
        size("c", "a", 0.5)
        ext("c", "b", "-")
        ext("a", "c", "+")
        gc("c", ["-"], [3])
        rc("c", "+", 2.0 * sp)
    return A


def templates(ax, sp, with_c=False):
    """Object templates: (own grid size | own real size | nothing) on the primary axis."""

    def obj(name, g=None, r=None):
        gs, rs = [None] * 3, [None] * 3
        gs[ax], rs[ax] = g, r
        return dict(name=name, gshape=gs, rshape=rs, rpos=[None] * 3)

    a_t = [obj("a"), obj("a", g=2), obj("a", r=2.5 * sp)]
    b_t = [obj("b"), obj("b", g=3)]
    out = [[a, b] for a in a_t for b in b_t]
    if with_c:
        out = [o + [c] for o in out for c in (obj("c"), obj("c", g=1))]
    return out


def make_system(vol, grid, sp, seed, objs, items):
    """Apply 'own' entries to the object dicts, return the system (or None if two 'own' entries collide)."""
    objs = [dict(o, rpos=list(o["rpos"])) for o in objs]
    cons = []
    for it in items:
        if it["k"] == "own":
            o = next(o for o in objs if o["name"] == it["obj"])
            for a, x in zip(it["axes"], it["rpos"]):
                if o["rpos"][a] is not None:
                    return None
                o["rpos"][a] = x
        else:
            cons.append(it)
    return dict(vol=list(vol), grid=grid, sp=sp, seed=seed, objects=objs, constraints=cons)


def multisets(n_alpha, first, kmax):
    """All index multisets of size 1..kmax whose smallest element is `first` (first=None -> the empty multiset)."""
    if first is None:
        return [()]
    out = [(first,)]
    for k in range(2, kmax + 1):
        for rest in itertools.combinations_with_replacement(range(first, n_alpha), k - 1):
            out.append((first, *rest))
    return out


# ------------------------------------------------------------------------------------------------ builder (fdtdx)
_CFG_CACHE = {}
_FDTDX = []


def _fdtdx():
    if not _FDTDX:
        from mc import guard

        _FDTDX.append(guard.import_fdtdx())
    return _FDTDX[0]


def build(system):
    fdtdx = _fdtdx()
    import jax.numpy as jnp
    from fdtdx.fdtd.initialization import _resolve_grid_from_volume
    from fdtdx.objects.object import (
        GridCoordinateConstraint,
        PositionConstraint,
        RealCoordinateConstraint,
        SizeConstraint,
        SizeExtensionConstraint,
    )

    vol = tuple(system["vol"])
    sp = system["sp"]
    volume = fdtdx.SimulationVolume(name="v", partial_grid_shape=vol)
    key = (vol, system["grid"], sp, system.get("seed", 0))
    if key not in _CFG_CACHE:
        if system["grid"] == "uniform":
            grid = fdtdx.UniformGrid(spacing=sp)
        else:
            es = system_edges(system)
            grid = fdtdx.RectilinearGrid.custom(jnp.asarray(es[0]), jnp.asarray(es[1]), jnp.asarray(es[2]))
        cfg = fdtdx.SimulationConfig(time=1e-15, grid=grid, backend="cpu", dtype=jnp.float64)
        _CFG_CACHE[key] = (cfg, _resolve_grid_from_volume([volume], cfg))
    cfg_raw, cfg = _CFG_CACHE[key]
    mat = fdtdx.Material(permittivity=2.0)
    objs = [volume]
    for o in system["objects"]:
        kw = {}
        if any(x is not None for x in o["gshape"]):
            kw["partial_grid_shape"] = tuple(o["gshape"])
        if any(x is not None for x in o["rshape"]):
            kw["partial_real_shape"] = tuple(o["rshape"])
        if any(x is not None for x in o["rpos"]):
            kw["partial_real_position"] = tuple(o["rpos"])
        objs.append(fdtdx.UniformMaterialObject(name=o["name"], material=mat, **kw))
    cons = []
    for c in system["constraints"]:
        k = c["k"]
        if k == "pos":
            cons.append(
                PositionConstraint(
                    object=c["obj"], other_object=c["other"], axes=tuple(c["axes"]), object_positions=tuple(float(x) for x in c["own"]),
                    other_object_positions=tuple(float(x) for x in c["oth"]), margins=tuple(c["margins"]), grid_margins=tuple(c["gmargins"]),
                )
            )
        elif k == "size":
            cons.append(
                SizeConstraint(
                    object=c["obj"], other_object=c["other"], axes=tuple(c["axes"]), other_axes=tuple(c["other_axes"]),
                    proportions=tuple(c["props"]), offsets=tuple(c["offsets"]), grid_offsets=tuple(c["goffsets"]),
                )
            )
        elif k == "ext":
            op = c["op"]
            if op is None:
                op = -1 if c["dir"] == "+" else 1
            cons.append(
                SizeExtensionConstraint(
                    object=c["obj"], other_object=c["other"], axis=c["axis"], direction=c["dir"], other_position=float(op),
                    offset=c["offset"], grid_offset=c["goffset"],
                )
            )
        elif k == "gc":
            cons.append(GridCoordinateConstraint(object=c["obj"], axes=tuple(c["axes"]), sides=tuple(c["sides"]), coordinates=tuple(c["coords"])))
        elif k == "rc":
            cons.append(RealCoordinateConstraint(object=c["obj"], axes=tuple(c["axes"]), sides=tuple(c["sides"]), coordinates=tuple(c["coords"])))
        else:
            raise ValueError(k)
    return objs, cons, cfg, cfg_raw


def resolve(objs, cons, cfg):
    """Run the real resolver; returns (success, slices-as-nested-lists, errors)."""
    from fdtdx.fdtd.initialization import resolve_object_constraints

    try:
        sl, err = resolve_object_constraints(objects=objs, constraints=cons, config=cfg)
    except Exception as e:  # documented hard errors (duplicate names, unknown names, ...)
        return False, None, {"_raise": f"{type(e).__name__}: {e}"[:300]}
    bad = {k: str(v)[:200] for k, v in err.items() if v}
    ok = not bad
    if ok:
        for name, s in sl.items():
            if any(x is None for ax in s for x in ax):
                ok = False
                bad[name] = "unresolved bound without an error message"
    return ok, {k: [list(ax) for ax in v] for k, v in sl.items()}, bad


# ------------------------------------------------------------------------------------------------ oracle (numpy only)
def _count_ok(n, L, e, uniform, sp):
    """Is cell count n an admissible discretisation of physical length L on an axis with edges e?"""
    N = len(e) - 1
    if L < 0:
        return False
    if uniform:
        # nearest existing edge counted from the lower domain edge (so a length beyond the axis snaps to N, as documented
        # for coord_to_index/length_to_cell_count); inside the axis this is |n*d - L| <= d/2
        return _nearest_edge_ok(n, e[0] + L, e)
    minw = float(np.min(np.diff(e)))
    tol = 1e-6 * minw
    c = e[0] + L
    hits = [k for k in range(N + 1) if abs(e[k] - c) < 2 * tol]
    if n in hits:
        return True
    up = int(np.searchsorted(e, c - tol, side="left"))
    return n == min(up, N)


def _nearest_edge_ok(idx, t, e):
    if idx < 0 or idx >= len(e):
        return False
    d = np.abs(e - t)
    return d[idx] <= float(np.min(d)) + REL * float(np.min(np.diff(e)))


def _anchor(e, lo, hi, p):
    return e[lo] + 0.5 * (p + 1.0) * (e[hi] - e[lo])


def judge(system, slices):
    """Failures [{sig, detail}] of the property on the final slices of a *successful* placement."""
    E = system_edges(system)
    sp = system["sp"]
    uniform = system["grid"] == "uniform"
    vol = system["vol"]
    fails = []

    def bad(sig, **detail):
        fails.append(dict(sig=sig, detail=detail))

    names = ["v"] + [o["name"] for o in system["objects"]]
    for nm in names:
        if nm not in slices:
            bad("missing-object-in-result", obj=nm)
            return fails
    for a in range(3):
        if list(slices["v"][a]) != [0, vol[a]]:
            bad("volume-slice-wrong", axis=a, got=slices["v"][a])
    ok_geom = True
    for nm in names:
        for a in range(3):
            lo, hi = slices[nm][a]
            if not (isinstance(lo, int) and isinstance(hi, int)) or lo < 0 or hi > vol[a] or hi <= lo:
                bad("outside-volume-or-empty", obj=nm, axis=a, got=[lo, hi], vol=vol[a])
                ok_geom = False
    if not ok_geom:
        return fails

    def half(a):
        return 0.5 * (sp if uniform else float(np.max(np.diff(E[a])))) * (1 + REL)

    def clamp_class(a, lo, hi, own, target):
        n = hi - lo
        if (lo == 0 and target < own) or (hi == vol[a] and target > own):
            return "unsatisfiable-inside-grid:silently-clamped"
        return "anchor-mismatch"

    touched = {nm: [False] * 3 for nm in names}
    for o in system["objects"]:
        nm = o["name"]
        for a in range(3):
            lo, hi = slices[nm][a]
            if o["gshape"][a] is not None:
                touched[nm][a] = True
                if hi - lo != o["gshape"][a]:
                    bad("own-grid-shape", obj=nm, axis=a, got=hi - lo, want=o["gshape"][a])
            if o["rshape"][a] is not None:
                touched[nm][a] = True
                if not _count_ok(hi - lo, o["rshape"][a], E[a], uniform, sp):
                    bad("own-real-shape", obj=nm, axis=a, got=hi - lo, length_cells=o["rshape"][a] / sp)
            if o["rpos"][a] is not None:
                touched[nm][a] = True
                c = 0.5 * (E[a][lo] + E[a][hi])
                t = o["rpos"][a] + 0.5 * (E[a][0] + E[a][-1])
                if abs(c - t) > half(a):
                    # judged only when the centre is the sole positional information and the object has an own static size
                    # (then only the interval search of bounds_for_center decides); otherwise an observation
                    sized = o["gshape"][a] is not None or o["rshape"][a] is not None
                    positioned = any(
                        c2["obj"] == nm and ((c2["k"] in ("pos", "gc", "rc") and a in c2["axes"]) or (c2["k"] == "ext" and c2["axis"] == a))
                        for c2 in system["constraints"]
                    )
                    if sized and not positioned:
                        bad("real-position:" + clamp_class(a, lo, hi, c, t), obj=nm, axis=a, got=[lo, hi], centre_err_cells=(c - t) / sp)
                    else:
                        bad("obs:real-position-not-honoured", obj=nm, axis=a)
    for ci, c in enumerate(system["constraints"]):
        k = c["k"]
        nm = c["obj"]
        if k == "pos":
            for j, a in enumerate(c["axes"]):
                touched[nm][a] = True
                lo, hi = slices[nm][a]
                olo, ohi = slices[c["other"]][a]
                t = _anchor(E[a], olo, ohi, c["oth"][j]) + c["margins"][j] + c["gmargins"][j] * sp
                own = _anchor(E[a], lo, hi, c["own"][j])
                if abs(own - t) > half(a):
                    bad("position:" + clamp_class(a, lo, hi, own, t), constraint=ci, obj=nm, axis=a, got=[lo, hi], other=[olo, ohi], anchor_err_cells=(own - t) / sp)
        elif k == "size":
            for j, a in enumerate(c["axes"]):
                touched[nm][a] = True
                lo, hi = slices[nm][a]
                oa = c["other_axes"][j]
                olo, ohi = slices[c["other"]][oa]
                L = (E[oa][ohi] - E[oa][olo]) * c["props"][j] + c["offsets"][j] + c["goffsets"][j] * sp
                if not _count_ok(hi - lo, L, E[a], uniform, sp):
                    bad("size:count-mismatch", constraint=ci, obj=nm, axis=a, got=hi - lo, length_cells=L / sp)
        elif k == "ext":
            a = c["axis"]
            touched[nm][a] = True
            side = 0 if c["dir"] == "-" else 1
            got = slices[nm][a][side]
            if c["other"] is None:
                want = 0 if side == 0 else vol[a]
                if got != want:
                    bad("extension-to-volume", constraint=ci, obj=nm, axis=a, got=got, want=want)
            else:
                olo, ohi = slices[c["other"]][a]
                op = c["op"] if c["op"] is not None else (-1 if c["dir"] == "+" else 1)
                t = _anchor(E[a], olo, ohi, op) + c["offset"] + c["goffset"] * sp
                if not _nearest_edge_ok(got, t, E[a]):
                    bad("extension-to-object", constraint=ci, obj=nm, axis=a, got=got, target_cells_from_lower=(t - E[a][0]) / sp)
        elif k == "gc":
            for j, a in enumerate(c["axes"]):
                touched[nm][a] = True
                side = 0 if c["sides"][j] == "-" else 1
                if slices[nm][a][side] != c["coords"][j]:
                    bad("grid-coordinate", constraint=ci, obj=nm, axis=a, got=slices[nm][a][side], want=c["coords"][j])
        elif k == "rc":
            for j, a in enumerate(c["axes"]):
                touched[nm][a] = True
                side = 0 if c["sides"][j] == "-" else 1
                if not _nearest_edge_ok(slices[nm][a][side], c["coords"][j], E[a]):
                    bad("real-coordinate", constraint=ci, obj=nm, axis=a, got=slices[nm][a][side], coord_cells_from_lower=(c["coords"][j] - E[a][0]) / sp)
    for o in system["objects"]:
        nm = o["name"]
        for a in range(3):
            if not touched[nm][a] and list(slices[nm][a]) != [0, vol[a]]:
                bad("unconstrained-axis-does-not-span-volume", obj=nm, axis=a, got=slices[nm][a])
    return fails


def binds(system, slices):
    """Non-trivial: some object ended up strictly smaller than the volume on some axis (a constraint/size bound it)."""
    return any(list(slices[o["name"]][a]) != [0, system["vol"][a]] for o in system["objects"] for a in range(3))


def describe(system):
    """Compact, replayable description for failure details."""
    return dict(vol=system["vol"], grid=system["grid"], objects=system["objects"], constraints=system["constraints"])


def chain_systems(ax, vol, grid, sp, seed):
    """Dependency chains two objects deep (v <- a <- b <- c), listed out of dependency order by the schedule enumeration:
    a solver that mis-tracks per-sweep progress resolves them for some orders only."""

    def pos(obj, other, own, oth, m=0.0, gm=0):
        return dict(k="pos", obj=obj, other=other, axes=[ax], own=[own], oth=[oth], margins=[m], gmargins=[gm])

    def size(obj, other, p=1.0):
        return dict(k="size", obj=obj, other=other, axes=[ax], other_axes=[ax], props=[p], offsets=[0.0], goffsets=[0])

    T = templates(ax, sp, with_c=True)
    out = []
    out.append(make_system(vol, grid, sp, seed, T[7], [pos("a", "v", -1, -1), pos("b", "a", -1, 1), pos("c", "b", -1, 1)]))
    out.append(make_system(vol, grid, sp, seed, T[7], [pos("a", "v", 0, 0), pos("b", "a", 1, -1), pos("c", "b", 0, 0)]))
    out.append(make_system(vol, grid, sp, seed, T[5], [pos("a", "v", -1, -1), size("b", "a", 1.0), pos("b", "a", -1, 1), pos("c", "b", -1, 1)]))
    out.append(make_system(vol, grid, sp, seed, T[7], [pos("c", "v", 1, 1), pos("b", "c", 1, -1), pos("a", "b", 1, -1)]))
    return [s for s in out if s is not None]
