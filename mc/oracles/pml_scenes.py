"""Scene menus and threshold oracles for the two whole-run threshold properties C12 (absorbing layers absorb) and
C13 (plane sources radiate one way). Boring on purpose: JSON-able scene specs for `mc.scenes.build` plus numpy
arithmetic on detector records. Nothing from the code under test is imported here (the parent process enumerates
cases with this module); the numbers a spec needs (time step, pulse timing) are re-derived from the documented
formulas: dt = courant_factor * dx / (c sqrt(3)), Gaussian envelope exp(-(t-t0)^2/(2 sigma_t^2)) with
sigma_t = 1/(2 pi spectral_width_Hz), t0 = 6 sigma_t, carrier cos(omega0 t + phase).
"""
import math

import numpy as np

C0 = 299792458.0
COURANT = 0.99
KINDS = ("min_x", "max_x", "min_y", "max_y", "min_z", "max_z")


def time_step(dx):
    return COURANT * dx / (C0 * math.sqrt(3.0))


# ------------------------------------------------------------------------------------------------ C12
N12 = 16  # interior cells per axis
DX12 = 50e-9
RES12 = 20  # cells per carrier wavelength
LAM12 = RES12 * DX12
T12 = 300  # steps: envelope peak at ~100, pulse over at ~200 (12 sigma_t), <= 48 steps to cross the interior diagonal
BW12 = 1.0 / 3.0  # spectral width / carrier frequency
REF_MARGIN = 24
REF_PML = 16
LO, MID, HI = 3, 8, N12 - 4  # dipole coordinates: >= 3 cells from every layer


def pulse12():
    """Zero-net-charge pulse: carrier odd about the envelope peak, so that the time integral of the current is zero."""
    f0 = C0 / LAM12
    sw = f0 * BW12
    sig_t = 1.0 / (2.0 * math.pi * sw)
    t0 = 6.0 * sig_t
    phase = math.pi / 2.0 - 2.0 * math.pi * f0 * t0
    prof = dict(kind="gauss", spectral_width={"frequency": sw}, center_wave={"wavelength": LAM12, "phase_shift": phase})
    return prof, sig_t, t0


def pulse12_net_current():
    """|sum_t s(t)| / sum_t |s(t)| of the sampled pulse over the run window (independent re-evaluation of the documented
    profile formula): the relative net charge a dipole driven by it leaves behind."""
    prof, sig_t, t0 = pulse12()
    dt = time_step(DX12)
    t = np.arange(T12) * dt
    f0 = C0 / LAM12
    s = np.exp(-((t - t0) ** 2) / (2 * sig_t**2)) * np.cos(2 * np.pi * f0 * t + prof["center_wave"]["phase_shift"])
    return float(abs(s.sum()) / np.abs(s).sum())


def c12_spec(case, thickness, margin):
    """Scene with `thickness` PML cells on all six faces and `margin` extra vacuum cells between the 16^3 interior and
    the layers. Source and probes are pinned by explicit grid coordinates relative to the interior origin."""
    o = thickness + margin
    S = N12 + 2 * o
    prof, _, _ = pulse12()
    if case["kind"] == "dipole":
        p = case["pos"]
        src = dict(kind="dipole", box=[[o + p[a], o + p[a] + 1] for a in range(3)], polarization=case["pol"], wave={"wavelength": LAM12}, profile=prof)
        if case.get("az") or case.get("el"):
            src["azimuth_angle"] = float(case.get("az", 0.0))
            src["elevation_angle"] = float(case.get("el", 0.0))
    else:
        ax = case["axis"]
        at = LO if case["dir"] == "+" else HI  # three interior cells behind the injection plane
        box = [[0, S] if case["extent"] == "full" else [o, o + N12] for _ in range(3)]
        box[ax] = [o + at, o + at + 1]
        h, v = (ax + 1) % 3, (ax + 2) % 3
        e = [0.0, 0.0, 0.0]
        e[h] = math.cos(math.radians(case["ang"]))
        e[v] = math.sin(math.radians(case["ang"]))
        e = [0.0 if abs(x) < 1e-15 else x for x in e]
        # amplitude must not depend on the cross-section (the two domains have different ones)
        src = dict(kind="plane", box=box, direction=case["dir"], fixed_E_polarization_vector=e, wave={"wavelength": LAM12}, profile=prof, normalize_by_energy=False)
    ib = [[o, o + N12] for _ in range(3)]
    dets = [
        dict(kind="energy", name="en", box=ib, reduce_volume=True),
        dict(kind="field", name="fld", box=ib, exact_interpolation=False),  # raw Yee samples of interior cells only
    ]
    spec = dict(shape=[S] * 3, spacing=DX12, faces={k: "pml" for k in KINDS}, pml=thickness, steps=T12, courant=COURANT, sources=[src], detectors=dets)
    if case.get("kappa_end") and margin == 0:
        # coordinate-stretched (kappa-graded) layers for the layered run; the reference keeps the default layers
        spec["pml_args"] = dict(kappa_start=1.0, kappa_end=float(case["kappa_end"]))
    return spec


def rel_energy_difference(rec, ref):
    """sum_t,cells (|dE|^2+|dH|^2) / sum_t,cells (|E_ref|^2+|H_ref|^2); fdtdx stores H in units of E (energy density
    0.5(eps E^2 + mu H^2) with relative eps, mu), so in vacuum this is the relative energy of the difference field."""
    rec = np.asarray(rec, dtype=np.float64)
    ref = np.asarray(ref, dtype=np.float64)
    den = float(np.sum(ref * ref))
    return float(np.sum((rec - ref) ** 2)) / den if den > 0 else float("inf"), den


def rel_energy_difference_excluding(rec, ref, centre, r=1):
    """Same, leaving out the (2r+1)^3 cells around the dipole cell (the singular near field dominates the plain sum)."""
    rec = np.asarray(rec, dtype=np.float64)
    ref = np.asarray(ref, dtype=np.float64)
    m = np.ones(ref.shape[2:], dtype=bool)
    sl = tuple(slice(max(0, c - r), c + r + 1) for c in centre)
    m[sl] = False
    d = (rec - ref)[:, :, m]
    den = float(np.sum(ref[:, :, m] ** 2))
    return float(np.sum(d * d)) / den if den > 0 else float("inf")


# ------------------------------------------------------------------------------------------------ C13
LAM13 = 1.0e-6
GAP13 = 4  # flux planes 4 cells either side of the injection plane
CLEAR13 = 3  # cells between a flux plane and the layer (source is 3 + 1 + 4 >= 3 cells from the layer)
CW_PERIODS = 14  # 4 ramp-up periods (documented default) + settle; flux averaged over the last CW_AVG periods
CW_AVG = 4
PULSE_BW = 1.0 / 6.0


def c13_geometry(case):
    n = math.sqrt(case.get("eps", 1.0))
    dx = LAM13 / (n * case["res"])  # `res` cells per wavelength *in the medium* (>= 15 also per vacuum wavelength)
    dt = time_step(dx)
    period_steps = LAM13 / C0 / dt
    return n, dx, dt, period_steps


def c13_spec(case):
    n, dx, dt, P = c13_geometry(case)
    ax, d = case["axis"], case["dir"]
    pml = case["pml"]
    lo = pml + CLEAR13
    s = lo + GAP13
    hi = s + GAP13
    L = hi + 1 + CLEAR13 + pml
    back, front = (lo, hi) if d == "+" else (hi, lo)
    h, v = (ax + 1) % 3, (ax + 2) % 3
    e = [0.0, 0.0, 0.0]
    e[h] = math.cos(math.radians(case["ang"]))
    e[v] = math.sin(math.radians(case["ang"]))
    e = [0.0 if abs(x) < 1e-15 else x for x in e]
    if case["kind"] == "uniform":
        nt, t0 = 2, 0
        shape = [nt, nt, nt]
        faces = {}
        for a, nm in enumerate("xyz"):
            faces[f"min_{nm}"] = faces[f"max_{nm}"] = "pml" if a == ax else "periodic"
    else:
        rc = case["rad"] * case["res"]
        nt = int(math.ceil(case["tmul"] * rc))
        nt += nt % 2
        t0 = pml
        shape = [nt + 2 * pml] * 3
        faces = {k: "pml" for k in KINDS}
    shape[ax] = L

    def plane(i):
        b = [[t0, t0 + nt] for _ in range(3)]
        b[ax] = [i, i + 1]
        return b

    if case["prof"] == "cw":
        prof = dict(kind="cw")
        T = int(round(CW_PERIODS * P))
    else:
        f0 = C0 / LAM13
        sw = f0 * PULSE_BW
        sig_t = 1.0 / (2.0 * math.pi * sw)
        prof = dict(kind="gauss", spectral_width={"frequency": sw}, center_wave={"wavelength": LAM13})
        T = int(round(12.0 * sig_t / dt + 6.0 * P))
    src = dict(box=plane(s), direction=d, fixed_E_polarization_vector=e, wave={"wavelength": LAM13}, profile=prof)
    if case["kind"] == "uniform":
        src["kind"] = "plane"
    else:
        src["kind"] = "gauss"
        src["radius"] = case["rad"] * LAM13 / n
    opp = "-" if d == "+" else "+"
    dets = [
        dict(kind="poynting", name="front", box=plane(front), direction=d),  # positive = power leaving forward
        dict(kind="poynting", name="back", box=plane(back), direction=opp),  # positive = power leaving backward
    ]
    spec = dict(shape=shape, spacing=dx, faces=faces, pml=pml, steps=T, courant=COURANT, sources=[src], detectors=dets)
    if case.get("eps", 1.0) != 1.0:
        spec["vol_material"] = {"permittivity": case["eps"]}
    return spec, P


def c13_powers(front, back, prof, P):
    """(forward power, backward power, settled?) from the two flux records.
    CW: time average over the last CW_AVG periods; settled = the average over the CW_AVG periods before agrees to 2 %.
    Pulse: time-integrated flux; settled = the last forward sample is below 1e-9 of the largest one."""
    front = np.asarray(front, dtype=np.float64)
    back = np.asarray(back, dtype=np.float64)
    if prof == "cw":
        w = int(round(CW_AVG * P))
        pf, pb = float(front[-w:].mean()), float(back[-w:].mean())
        prev = float(front[-2 * w : -w].mean())
        settled = abs(prev - pf) <= 0.02 * abs(pf)
        return pf, pb, settled, dict(window_steps=w, forward_prev_window=prev)
    pf, pb = float(front.sum()), float(back.sum())
    m = float(np.max(np.abs(front)))
    settled = m > 0 and abs(float(front[-1])) <= 1e-9 * m
    return pf, pb, settled, dict(forward_last_over_max=(abs(float(front[-1])) / m if m > 0 else None))
