"""Subprocess body of the C42 check: builds one scene under the XLA host-device emulation given by XLA_FLAGS, runs the
public run_fdtd and writes an .npz (observable state + placement facts) to stdout. Usage:
    python -m mc.oracles.c42_worker '<json scene description>'
"""
import io
import json
import sys


def extra_objects(desc):
    import fdtdx

    out = []
    for i, o in enumerate(desc.get("objects", [])):
        box = o["box"]
        shape = tuple(int(b[1] - b[0]) for b in box)
        mat = {k: (tuple(v) if isinstance(v, list) else v) for k, v in o["material"].items()}
        obj = fdtdx.UniformMaterialObject(name=f"obj{i}", partial_grid_shape=shape, material=fdtdx.Material(**mat))
        cons = [obj.set_grid_coordinates(axes=(0, 1, 2), sides=("-", "-", "-"), coordinates=tuple(int(b[0]) for b in box))]
        out.append((obj, cons))
    return out


def layout(x):
    s = getattr(x, "sharding", None)
    n = len(s.device_set) if s is not None else 0
    spec = str(getattr(s, "spec", None))
    shard_shapes = sorted({tuple(sh.data.shape) for sh in x.addressable_shards}) if hasattr(x, "addressable_shards") else []
    return dict(devices=n, spec=spec, shard_shapes=[list(t) for t in shard_shapes])


def main():
    desc = json.loads(sys.argv[1])
    from mc import guard

    guard.import_fdtdx()
    import jax
    import numpy as np

    import fdtdx
    from mc import scenes
    from mc.oracles import drivers as D

    spec = dict(desc["spec"])
    spec["_extra_objects"] = extra_objects(desc)
    sc = scenes.build(spec)
    info = dict(device_count=len(jax.devices("cpu")), before={}, after={})
    a0 = sc.arrays
    info["before"]["E"] = layout(a0.fields.E)
    info["before"]["inv_permittivities"] = layout(a0.inv_permittivities)
    if a0.recording_state is not None:
        k = sorted(a0.recording_state.data)[0]
        info["before"]["recording"] = layout(a0.recording_state.data[k])
    t, arrs = fdtdx.run_fdtd(sc.arrays, sc.objects, sc.config, jax.random.PRNGKey(0), show_progress=False)
    info["after"]["E"] = layout(arrs.fields.E)
    info["final_step"] = int(t)
    snap = D.snapshot(arrs, with_materials=True)
    buf = io.BytesIO()
    np.savez(buf, __info__=np.frombuffer(json.dumps(info).encode(), dtype=np.uint8), **{k.replace("/", "|"): v for k, v in snap.items()})
    sys.stdout.buffer.write(buf.getvalue())
    sys.stdout.buffer.flush()


if __name__ == "__main__":
    main()
