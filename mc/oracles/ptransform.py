"""Helpers shared by the parameter-transform checks C19–C25.

* `make(...)`: initialise a real `ParameterTransformation` the way `Device.place_on_grid` does
  (`init_module` then `init_type`) — the narrowest real entry point; afterwards the transform is driven through
  its public `__call__({"params": arr}, **kwargs)`.
* boring numpy/scipy reference models (6-connectivity labelling, binary bit tables) written from the property
  statements; nothing here imports the code under test except `make`/`materials`.
"""
import numpy as np


# ------------------------------------------------------------------------------------------ real entry point
def config():
    import fdtdx

    return fdtdx.SimulationConfig(time=1e-15, grid=fdtdx.UniformGrid(spacing=50e-9), backend="cpu")


def materials(perms, names=None):
    """perms: list of scalars (isotropic) or 3-lists (diagonal); insertion order is kept (the code sorts itself)."""
    from fdtdx.materials import Material

    out = {}
    for i, p in enumerate(perms):
        name = names[i] if names else f"m{i}"
        out[name] = Material(permittivity=float(p) if np.ndim(p) == 0 else tuple(float(v) for v in p))
    return out


def make(transform, mats, shape, voxel=(50e-9, 50e-9, 50e-9), in_type="CONTINUOUS"):
    """Device.place_on_grid does exactly these two calls for every transform of its chain."""
    from fdtdx.typing import ParameterType

    shape = tuple(int(s) for s in shape)
    t = transform.init_module(
        config=config(),
        materials=mats,
        matrix_voxel_grid_shape=shape,
        single_voxel_size=tuple(float(v) for v in voxel),
        output_shape={"params": shape},
    )
    t = t.init_type({"params": getattr(ParameterType, in_type)})
    return t


# ------------------------------------------------------------------------------------------ enumeration helpers
def all_binary(ncells, lo=0, hi=None):
    """(hi-lo, ncells) uint8 table: row r = bits of lo+r (cell j = bit j)."""
    hi = (1 << ncells) if hi is None else hi
    idx = np.arange(lo, hi, dtype=np.uint64)
    return ((idx[:, None] >> np.arange(ncells, dtype=np.uint64)[None, :]) & np.uint64(1)).astype(np.uint8)


def chunks(total, size):
    return [(a, min(total, a + size)) for a in range(0, total, size)]


# ------------------------------------------------------------------------------------------ connectivity model
_S6 = None


def _s6():
    global _S6
    if _S6 is None:
        from scipy import ndimage

        _S6 = ndimage.generate_binary_structure(3, 1)
    return _S6


def connected_to_seed(mask, seed):
    """Cells of `mask` face-connected (6-connectivity, inside mask) to a cell of `mask & seed`."""
    from scipy import ndimage

    mask = np.asarray(mask, dtype=bool)
    lab, n = ndimage.label(mask, structure=_s6())
    if n == 0:
        return np.zeros_like(mask)
    ids = np.unique(lab[mask & seed])
    ids = ids[ids > 0]
    return np.isin(lab, ids) & mask


def bottom_seed(shape):
    s = np.zeros(shape, dtype=bool)
    s[:, :, 0] = True
    return s


def sides_top_seed(shape):
    s = np.zeros(shape, dtype=bool)
    s[:, :, -1] = True
    s[0, :, :] = True
    s[-1, :, :] = True
    s[:, 0, :] = True
    s[:, -1, :] = True
    return s


def keep_connected_to_bottom(mat):
    """Reference model of 'remove floating material': material cells connected, through face-adjacent material,
    to the bottom layer (z index 0)."""
    mat = np.asarray(mat, dtype=bool)
    return connected_to_seed(mat, bottom_seed(mat.shape))


def floating_material(mat):
    mat = np.asarray(mat, dtype=bool)
    return mat & ~keep_connected_to_bottom(mat)


def enclosed_background(mat):
    """Background cells not connected (through face-adjacent background) to a side face or the top face."""
    mat = np.asarray(mat, dtype=bool)
    air = ~mat
    return air & ~connected_to_seed(air, sides_top_seed(mat.shape))


def geodesic_depth(mask, seed):
    """Largest face-adjacency BFS distance from the seed set to any cell of the seed's components (sweep demand)."""
    mask = np.asarray(mask, dtype=bool)
    cur = mask & seed
    seen = cur.copy()
    d = 0
    while True:
        nxt = np.zeros_like(cur)
        nxt[1:] |= cur[:-1]
        nxt[:-1] |= cur[1:]
        nxt[:, 1:] |= cur[:, :-1]
        nxt[:, :-1] |= cur[:, 1:]
        nxt[:, :, 1:] |= cur[:, :, :-1]
        nxt[:, :, :-1] |= cur[:, :, 1:]
        nxt &= mask & ~seen
        if not nxt.any():
            return d
        seen |= nxt
        cur = nxt
        d += 1


# ------------------------------------------------------------------------------------------ batched connectivity model
def batch_fill(mask, seed):
    """mask: (B,a,b,c) bool, seed: (a,b,c) or (B,a,b,c) bool. Cells of mask face-connected inside mask to mask&seed.
    Plain numpy flood fill iterated to the fixpoint (cross-validated against scipy.ndimage.label by `crosscheck`)."""
    mask = np.asarray(mask, dtype=bool)
    cur = mask & seed
    while True:
        nxt = cur.copy()
        nxt[:, 1:] |= cur[:, :-1]
        nxt[:, :-1] |= cur[:, 1:]
        nxt[:, :, 1:] |= cur[:, :, :-1]
        nxt[:, :, :-1] |= cur[:, :, 1:]
        nxt[:, :, :, 1:] |= cur[:, :, :, :-1]
        nxt[:, :, :, :-1] |= cur[:, :, :, 1:]
        nxt &= mask
        if np.array_equal(nxt, cur):
            return cur
        cur = nxt


def batch_keep(mat):
    return batch_fill(mat, bottom_seed(mat.shape[1:]))


def batch_floating(mat):
    mat = np.asarray(mat, dtype=bool)
    return mat & ~batch_keep(mat)


def batch_enclosed(mat):
    mat = np.asarray(mat, dtype=bool)
    return ~mat & ~batch_fill(~mat, sides_top_seed(mat.shape[1:]))


def crosscheck(mat, stride):
    """every `stride`-th array of the batch: numpy fixpoint model == scipy.ndimage.label model (both seeds). Returns #checked."""
    mat = np.asarray(mat, dtype=bool)
    k = batch_keep(mat[::stride])
    e = batch_enclosed(mat[::stride])
    for i, m in enumerate(mat[::stride]):
        assert np.array_equal(k[i], keep_connected_to_bottom(m)), "reference models disagree (keep)"
        assert np.array_equal(e[i], enclosed_background(m)), "reference models disagree (enclosed)"
    return len(k)
