"""Scene helpers for the detector / schedule checks (C14-C17, C32) on top of mc.scenes.

* `build(spec)`  — like scenes.build, but sources/detectors are placed by *physical* margins when the grid is
  non-uniform (fdtdx rejects index-space placement there); the requested boxes are asserted afterwards.
* `halo_spec`    — per-axis grid / face / symmetry description -> scene spec + the oracle's halo kinds.
* `place_detectors` — places many detectors directly with Detector.place_on_grid (the call place_objects makes).
"""
import numpy as np

from mc import guard, scenes

fdtdx = guard.import_fdtdx()
import jax  # noqa: E402
import jax.numpy as jnp  # noqa: E402

KEY = jax.random.PRNGKey(0)
SP = 50e-9

# per-axis kinds: (min face, max face, symmetric?, oracle halo kind)
AXIS_KINDS = {
    "none": ("none", "none", False, "zero"),
    "pec-pmc": ("pec", "pmc", False, "zero"),
    "pmc-pec": ("pmc", "pec", False, "zero"),
    "pec-pec": ("pec", "pec", False, "zero"),
    "pmc-pmc": ("pmc", "pmc", False, "zero"),
    "none-pec": ("none", "pec", False, "zero"),
    "pmc-none": ("pmc", "none", False, "zero"),
    "periodic": ("periodic", "periodic", False, "wrap"),
    "bloch": ("bloch", "bloch", False, "bloch"),
    "sym": ("none", "none", True, "mirror"),
    "sym-pec": ("none", "pec", True, "mirror"),
    "sym-pmc": ("none", "pmc", True, "mirror"),
}


def distinct_widths(n, axis, seed=0, kind="rect_distinct"):
    e = scenes.edges_for(kind, n, SP, seed, axis)
    return np.diff(e)


def halo_spec(shape, kinds, grid, seed=0, steps=1, bloch_scale=1.0):
    """shape: reduced (simulated) shape. Returns (scene spec, info) with info = dict(halos, widths, uniform, phases, sym)."""
    sym = tuple(-1 if AXIS_KINDS[k][2] else 0 for k in kinds)
    full = tuple(2 * shape[a] if sym[a] else shape[a] for a in range(3))
    faces = {}
    for a, nm in enumerate("xyz"):
        lo, hi, _, _ = AXIS_KINDS[kinds[a]]
        faces[f"min_{nm}"], faces[f"max_{nm}"] = lo, hi
    uniform = grid == "uniform"
    widths = []
    edges = []
    for a in range(3):
        w = np.full(shape[a], SP) if uniform else distinct_widths(shape[a], a, seed, grid)
        widths.append(w)
        wf = np.concatenate([w[::-1], w]) if sym[a] else w
        e = np.concatenate([[0.0], np.cumsum(wf)])
        edges.append((e - 0.5 * e[-1]).tolist())
    spec = dict(shape=full, steps=steps, faces=faces, seed=seed, grid="uniform" if uniform else {"edges": edges})
    if any(sym):
        spec["symmetry"] = sym
    phases = [1.0, 1.0, 1.0]
    if any(k == "bloch" for k in kinds):
        kvec = [0.0, 0.0, 0.0]
        for a in range(3):
            if kinds[a] == "bloch":
                L = float(np.sum(widths[a]))
                kvec[a] = bloch_scale * (0.9 + 0.37 * a + 0.1 * (seed % 5)) / L
                phases[a] = np.exp(1j * kvec[a] * L)
        spec["bloch"] = kvec
    info = dict(halos=[AXIS_KINDS[k][3] for k in kinds], widths=widths, uniform=uniform, phases=phases, sym=sym, edges=edges, full_shape=full)
    return spec, info


def _nonuniform(spec):
    g = spec.get("grid", "uniform")
    return isinstance(g, dict) or g in ("rect_distinct", "rect_seed", "rect_sym")


def _edges_of(spec):
    g = spec.get("grid", "uniform")
    shape = spec["shape"]
    if isinstance(g, dict):
        return [np.asarray(e, dtype=np.float64) for e in g["edges"]]
    return [scenes.edges_for(g, shape[a], spec.get("spacing", SP), spec.get("seed", 0), a) for a in range(3)]


def build(spec, check_boxes=True):
    """scenes.build with physical-margin placement of sources/detectors on non-uniform grids."""
    spec = dict(spec)
    if not _nonuniform(spec):
        sc = scenes.build(spec)
    else:
        srcs = spec.pop("sources", []) or []
        dets = spec.pop("detectors", []) or []
        edges = _edges_of(spec)
        handle = fdtdx.SimulationVolume(name="volume", partial_grid_shape=tuple(spec["shape"]))
        complex_fields = bool(spec.get("complex")) or (any(v == "bloch" for v in spec.get("faces", {}).values()) and any(abs(x) > 0 for x in spec.get("bloch", (0, 0, 0))))
        extra = list(spec.get("_extra_objects", []) or [])
        for i, s in enumerate(srcs):
            o, _ = scenes.make_source(s, i)
            extra.append((o, [_margin_constraint(o, s["box"], edges, handle)]))
        for i, d in enumerate(dets):
            o, _ = scenes.make_detector(d, i, complex_fields)
            extra.append((o, [_margin_constraint(o, d["box"], edges, handle)]))
        spec["_extra_objects"] = extra
        sc = scenes.build(spec)
        spec["sources"], spec["detectors"] = srcs, dets
    if check_boxes and not spec.get("symmetry"):
        want = {}
        for i, s in enumerate(spec.get("sources", []) or []):
            want[s.get("name", f"src{i}")] = s["box"]
        for i, d in enumerate(spec.get("detectors", []) or []):
            want[d.get("name", f"det{i}")] = d["box"]
        for o in sc.objects.object_list:
            if o.name in want:
                got = tuple(tuple(int(v) for v in p) for p in o.grid_slice_tuple)
                exp = tuple(tuple(int(v) for v in p) for p in want[o.name])
                if got != exp:
                    raise RuntimeError(f"harness: object {o.name} placed at {got}, requested {exp}")
    return sc


def _margin_constraint(obj, box, edges, handle):
    margins = tuple(float(edges[a][int(box[a][0])] - edges[a][0]) for a in range(3))
    return obj.place_relative_to(handle, axes=(0, 1, 2), own_positions=(-1, -1, -1), other_positions=(-1, -1, -1), margins=margins)


def intervals(n):
    return [(a, b) for a in range(n) for b in range(a + 1, n + 1)]


def all_boxes(shape):
    return [(x, y, z) for x in intervals(shape[0]) for y in intervals(shape[1]) for z in intervals(shape[2])]


def place(det, box, config):
    return det.place_on_grid(tuple((int(b[0]), int(b[1])) for b in box), config, KEY)


def with_detectors(sc, dets, sentinel=None):
    """ObjectContainer / ArrayContainer of the scene with the given placed detectors added (fresh states)."""
    objs = fdtdx.ObjectContainer(object_list=list(sc.objects.object_list) + list(dets), volume_idx=sc.objects.volume_idx)
    states = dict(sc.arrays.detector_states)
    for d in dets:
        states[d.name] = d.init_state()
    arrays = sc.arrays.aset("detector_states", states)
    return objs, arrays


def field_codec(shape):
    """Flat layout (E, H_prev, H) of the inputs of update_detector_states."""
    N = int(np.prod(shape))

    def unpack(v):
        return v[: 3 * N].reshape(3, *shape), v[3 * N : 6 * N].reshape(3, *shape), v[6 * N :].reshape(3, *shape)

    return 9 * N, unpack


def unpack_np(X, shape):
    """numpy version for batches (B, 9N) -> three (B,3,nx,ny,nz) arrays."""
    N = int(np.prod(shape))
    B = X.shape[0]
    return X[:, : 3 * N].reshape(B, 3, *shape), X[:, 3 * N : 6 * N].reshape(B, 3, *shape), X[:, 6 * N :].reshape(B, 3, *shape)


def record_fn(arrays, objs, config, shape, t=0, inverse=False, pick=None):
    """v -> detector states after one real update_detector_states call at time step t."""
    from fdtdx.fdtd.update import update_detector_states

    _, unpack = field_codec(shape)
    fdt = arrays.fields.E.dtype

    def f(v):
        E, Hp, H = unpack(v)
        a = arrays.aset("fields->E", E.astype(fdt)).aset("fields->H", H.astype(fdt))
        a2 = update_detector_states(jnp.asarray(t, dtype=jnp.int32), a, objs, config, Hp.astype(fdt), inverse)
        st = a2.detector_states
        return st if pick is None else pick(st)

    return f
