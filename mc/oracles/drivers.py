"""Shared, boring helpers for the run-driver checks (C04-C07, C42): numpy snapshots of the observable state of an
ArrayContainer and tolerant comparison of two snapshots. No fdtdx logic in here; nothing is imported from the code
under test."""
import numpy as np


def snapshot(arrays, with_materials=False):
    """Observable time-dependent state as {name: np.ndarray}: E, H, every PML psi array, every detector state entry
    (and the dispersive polarisation when present). `with_materials` adds the material arrays."""
    f = arrays.fields
    out = {"E": np.asarray(f.E), "H": np.asarray(f.H)}
    for grp, d in (("psi_E", f.psi_E), ("psi_H", f.psi_H)):
        for name in sorted(d):
            for k in (0, 1):
                out[f"{grp}/{name}/{k}"] = np.asarray(d[name][k])
    if getattr(f, "dispersive_P_curr", None) is not None:
        out["P_curr"] = np.asarray(f.dispersive_P_curr)
        out["P_prev"] = np.asarray(f.dispersive_P_prev)
    for name in sorted(arrays.detector_states):
        for k in sorted(arrays.detector_states[name]):
            out[f"det/{name}/{k}"] = np.asarray(arrays.detector_states[name][k])
    if with_materials:
        out.update(materials(arrays))
    return out


def materials(arrays):
    out = {}
    for k in ("inv_permittivities", "inv_permeabilities", "electric_conductivity", "magnetic_conductivity"):
        v = getattr(arrays, k)
        if v is not None:
            out[f"mat/{k}"] = np.asarray(v)
    return out


def group_of(key):
    """Comparison group: fields share one scale, psi another, each detector entry its own."""
    if key in ("E", "H"):
        return key
    if key.startswith("psi_"):
        return key.split("/")[0]
    return key


def scales(snap):
    sc = {}
    for k, v in snap.items():
        g = group_of(k)
        m = float(np.max(np.abs(v))) if v.size else 0.0
        sc[g] = max(sc.get(g, 0.0), m)
    return sc


def compare(ref, got, tol, scale=None):
    """Largest relative deviation of `got` from `ref` (per comparison group, relative to the largest |ref| entry of
    the group). Returns (worst_rel, worst_key, problems) where problems lists structural mismatches (keys/shapes/dtypes/nan)."""
    problems = []
    if sorted(ref) != sorted(got):
        problems.append(f"keys differ: {sorted(set(ref) ^ set(got))[:6]}")
    sc = scales(ref) if scale is None else scale
    worst, wkey = 0.0, None
    for k in ref:
        if k not in got:
            continue
        a, b = ref[k], got[k]
        if a.shape != b.shape:
            problems.append(f"shape of {k}: {a.shape} vs {b.shape}")
            continue
        if a.dtype != b.dtype:
            problems.append(f"dtype of {k}: {a.dtype} vs {b.dtype}")
        if a.size == 0:
            continue
        if not (np.all(np.isfinite(a)) and np.all(np.isfinite(b))):
            problems.append(f"non-finite values in {k}")
            continue
        d = float(np.max(np.abs(a - b)))
        s = sc.get(group_of(k), 0.0)
        r = d / s if s > 0 else (0.0 if d == 0.0 else float("inf"))
        if r > worst:
            worst, wkey = r, k
    return worst, wkey, problems


def nonzero_groups(snap):
    """Names of groups that carry a non-zero value (used for the non-triviality counters)."""
    return sorted(g for g, s in scales(snap).items() if s > 0)
