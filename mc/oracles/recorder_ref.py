"""Reference model of the Recorder pipeline (C30), numpy only, written from the property statement:

  "decompressing step t returns the recorded value at saved steps and the linear interpolation between the
   two enclosing saved steps otherwise, for every t at or after the start step".

A save-every-k filter with (k, start) on an index range [0, N) saves the indices start, start+k, start+2k, ... and
the final index N-1 (without the final index no enclosing pair would exist for the tail, LinearReconstructEveryK
documents "saves field values every k time steps ... Time step to start recording from").
Filters in a pipeline act on the index space left by the previous filter (its saved indices, renumbered 0..n-1);
dtype conversions are the identity on values (up to the precision of the storage dtype).
"""
import numpy as np


def saved_indices(N, k, start):
    s = list(range(start, N, k))
    if not s or s[-1] != N - 1:
        s.append(N - 1)
    return s


def interp_rows(N, k, start, origin_zero=False):
    """R (N x n) with R[t] = weights on the n saved indices; constrained[t] = (t >= start);
    kind[t] in pre|saved|first|later ("first" = strictly inside the first saved interval).
    origin_zero=True builds the *diagnostic* alternative "the first interval is interpolated as if it began at
    index 0" (used only to name the failing class, never to accept a result)."""
    S = saved_indices(N, k, start)
    n = len(S)
    R = np.zeros((N, n))
    constrained = np.zeros(N, dtype=bool)
    kind = ["pre"] * N
    pos = {s: j for j, s in enumerate(S)}
    for t in range(start, N):
        constrained[t] = True
        if t in pos:
            R[t, pos[t]] = 1.0
            kind[t] = "saved"
            continue
        j = max(i for i, s in enumerate(S) if s < t)
        p, q = S[j], S[j + 1]
        assert p < t < q
        f = (t - p) / (q - p)
        if origin_zero and j == 0:
            f = (t - 0) / (q - 0)
        R[t, j] = 1.0 - f
        R[t, j + 1] = f
        kind[t] = "first" if j == 0 else "later"
    return S, R, constrained, kind


def pipeline_model(T, filters, origin_zero=False):
    """filters: list of (k, start) in pipeline order (outermost first). Returns dict with
    W (T x T weights on original time steps), constrained (T,), kind (per row: pre|saved|interp),
    first_with_start (T,) bool: the row touches the first interval of a filter whose start > 0,
    stored_times (original time step held in each latent slot)."""
    N = T
    mats = []
    metas = []
    for k, start in filters:
        S, R, con, kind = interp_rows(N, k, start, origin_zero)
        mats.append(R)
        metas.append((S, con, kind, start))
        N = len(S)
    # times held by the final latent slots
    times = list(range(T))
    for S, _, _, _ in metas:
        times = [times[s] for s in S]
    # compose: row t of level 0 -> weights over final slots
    n_final = len(times)
    if not filters:
        Wl = np.eye(T)
        con_tot = np.ones(T, dtype=bool)
        kinds = ["saved"] * T
        first = np.zeros(T, dtype=bool)
    else:
        # backwards: constrained/first flags for indices of each level
        Wl = np.eye(n_final)
        con_tot = np.ones(n_final, dtype=bool)
        first = np.zeros(n_final, dtype=bool)
        allsaved = np.ones(n_final, dtype=bool)
        for R, (S, con, kind, start) in zip(mats[::-1], metas[::-1]):
            Nl = R.shape[0]
            con_new = np.zeros(Nl, dtype=bool)
            first_new = np.zeros(Nl, dtype=bool)
            saved_new = np.zeros(Nl, dtype=bool)
            for t in range(Nl):
                supp = np.nonzero(R[t])[0]
                con_new[t] = bool(con[t]) and all(con_tot[a] for a in supp)
                first_new[t] = (kind[t] == "first" and start > 0) or any(first[a] for a in supp)
                saved_new[t] = kind[t] == "saved" and all(allsaved[a] for a in supp)
            Wl = R @ Wl
            con_tot, first, allsaved = con_new, first_new, saved_new
        kinds = ["pre" if not con_tot[t] else ("saved" if allsaved[t] else "interp") for t in range(T)]
    W = np.zeros((T, T))
    for j, tm in enumerate(times):
        W[:, tm] += Wl[:, j]
    return dict(W=W, constrained=con_tot, kind=kinds, first_with_start=first, stored_times=times)
