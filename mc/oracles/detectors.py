"""Independent reference models for the schedule / detector properties C14-C17 and C32.

Everything in here is plain numpy / fractions, written from the property statements and the docstrings of
fdtdx (never by calling fdtdx): the on/off window rule, the Yee co-location stencil with its halo, cell-volume and
face-area weights from the edge coordinates the check itself set, the apodization windows, and the symmetry
parity / mirror index tables.  Kept boring on purpose.
"""
import math
from fractions import Fraction

import numpy as np

COMPONENTS = ("Ex", "Ey", "Ez", "Hx", "Hy", "Hz")

# ------------------------------------------------------------------------------------------------ C14: schedules


class Invalid(Exception):
    """The specification is contradictory / incomplete: the implementation has to raise."""


def _frac(x):
    return None if x is None else Fraction(x)


def window_of(p):
    """Window [start, end] (exact rationals, end may be +inf) of a switch parameter dict, or Invalid.

    Reading of the documented parameters: the window has a start S, an end E and a duration D with S + D = E.
    Each may be given absolutely or in periods (needs `period`); giving one quantity twice, or all three, is
    contradictory. Missing start = 0, missing end = forever.
    """
    per = _frac(p.get("period"))
    if any(p.get(k) is not None for k in ("start_after_periods", "end_after_periods", "on_for_periods")) and per is None:
        raise Invalid("periods without period")

    def one(abs_key, per_key):
        a, b = p.get(abs_key), p.get(per_key)
        if a is not None and b is not None:
            raise Invalid(f"{abs_key} and {per_key}")
        if a is not None:
            return Fraction(a)
        if b is not None:
            return Fraction(b) * per
        return None

    S, E, D = one("start_time", "start_after_periods"), one("end_time", "end_after_periods"), one("on_for_time", "on_for_periods")
    if S is not None and E is not None and D is not None:
        raise Invalid("over-determined")
    if S is None and E is not None and D is not None:
        S = E - D
    if S is None:
        S = Fraction(0)
    if E is None:
        E = S + D if D is not None else math.inf
    return S, E


def window_edges_exact_in_float(p):
    """Whether the window edges, evaluated with ordinary float arithmetic from the parameters, equal their exact
    rational values. Only then can an implementation be held to the inclusive rule *at* the edge; otherwise a step
    that coincides with the exact edge is within rounding of it and either answer is accepted."""
    per = p.get("period")

    def onef(abs_key, per_key):
        a, b = p.get(abs_key), p.get(per_key)
        if a is not None:
            return float(a)
        if b is not None:
            return float(b) * float(per)
        return None

    Sf, Ef, Df = onef("start_time", "start_after_periods"), onef("end_time", "end_after_periods"), onef("on_for_time", "on_for_periods")
    if Sf is None and Ef is not None and Df is not None:
        Sf = Ef - Df
    if Sf is None:
        Sf = 0.0
    if Ef is None:
        Ef = Sf + Df if Df is not None else math.inf
    S, E = window_of(p)
    return Fraction(Sf) == S, (E is math.inf and Ef == math.inf) or (E is not math.inf and Ef != math.inf and Fraction(Ef) == E)


def switch_oracle(p, T, dt, ulps=4):
    """Returns (on, amb): per step True/False and whether the step is within a few ulp of a window edge.

    Raises Invalid when the implementation must raise. `p` uses the OnOffSwitch field names."""
    if p.get("is_always_off"):
        return [False] * T, [False] * T
    fixed = p.get("fixed_on_time_steps")
    if fixed is not None:
        on = [False] * T
        for k in fixed:
            if not -T <= k < T:
                raise Invalid("fixed step outside the run")
            on[k] = True
        return on, [False] * T
    S, E = window_of(p)
    s_exact, e_exact = window_edges_exact_in_float(p)
    iv = int(p.get("interval", 1))
    fdt = Fraction(dt)
    on, amb = [], []
    for t in range(T):
        x = t * fdt
        tol = ulps * max(abs(float(x)), abs(float(S)), 0.0 if E is math.inf else abs(float(E))) * 2.0**-52
        near = (abs(float(x - S)) <= tol and (x != S or not s_exact)) or (E is not math.inf and abs(float(x - E)) <= tol and (x != E or not e_exact))
        inside = S <= x and (E is math.inf or x <= E)
        grid = t % iv == 0
        on.append(bool(inside and grid))
        amb.append(bool(near and grid))
    return on, amb


def index_map(on):
    out, k = [], 0
    for v in on:
        out.append(k if v else -1)
        k += 1 if v else 0
    return out


# ------------------------------------------------------------------------------------------------ grids / weights


def widths_of(edges):
    return [np.diff(np.asarray(e, dtype=np.float64)) for e in edges]


def cell_volumes(widths, box):
    ws = [np.asarray(widths[a])[box[a][0] : box[a][1]] for a in range(3)]
    return ws[0][:, None, None] * ws[1][None, :, None] * ws[2][None, None, :]


def face_areas(widths, box, axis):
    """Per-cell transverse area of faces normal to `axis`, full box shape (constant along `axis`)."""
    ws = [np.asarray(widths[a])[box[a][0] : box[a][1]] for a in range(3)]
    ws[axis] = np.ones_like(ws[axis])
    return ws[0][:, None, None] * ws[1][None, :, None] * ws[2][None, None, :]


# ------------------------------------------------------------------------------------------------ parity tables


def parity(field_type, comp, axis, wall):
    """Mirror parity of a field component across a plane normal to `axis`; wall -1 electric, +1 magnetic.
    Electric wall: tangential E vanishes (odd), normal E even; H is a pseudo-vector: normal odd, tangential even.
    Magnetic wall: the dual."""
    normal = comp == axis
    if field_type == "E":
        p = 1 if normal else -1
    else:
        p = -1 if normal else 1
    return p if wall == -1 else -p


def sits_on_plane(field_type, comp, axis):
    """Yee offsets: E_c is offset half a cell along c only; H_c along the two other axes."""
    return (comp != axis) if field_type == "E" else (comp == axis)


# ------------------------------------------------------------------------------------------------ C15: co-location

# shifts of each component to the E_z node (i, j, k+1/2): -1 = backward half step, +1 = forward half step
SHIFTS = {
    ("E", 0): {0: -1, 2: +1},
    ("E", 1): {1: -1, 2: +1},
    ("E", 2): {},
    ("H", 0): {1: -1},
    ("H", 1): {0: -1},
    ("H", 2): {0: -1, 1: -1, 2: +1},
}


def _take(a, axis, idx):
    sl = [slice(None)] * a.ndim
    sl[axis] = idx
    return a[tuple(sl)]


def extend(F, field_type, halos, phases):
    """F: (..., 3, nx, ny, nz). Returns the array with one halo cell per side and axis.

    halos[a] in: "zero" (no boundary / PEC / PMC: nothing outside), "wrap" (periodic), "bloch" (F(x+L)=F(x)e^{ikL}),
    "mirror" (electric symmetry plane on the min edge; zero beyond the max edge)."""
    out = F
    for a in range(3):
        ax = F.ndim - 3 + a
        n = out.shape[ax]
        kind = halos[a]
        if kind == "zero":
            lo = np.zeros_like(_take(out, ax, slice(0, 1)))
            hi = lo
        elif kind in ("wrap", "bloch"):
            ph = phases[a] if kind == "bloch" else 1.0
            lo = _take(out, ax, slice(n - 1, n)) * np.conj(ph)
            hi = _take(out, ax, slice(0, 1)) * ph
        elif kind == "mirror":
            parts = []
            for c in range(3):
                src = 1 if sits_on_plane(field_type, c, a) else 0  # on-plane samples: row 0 is its own mirror
                comp = _take(out, F.ndim - 4, slice(c, c + 1))
                parts.append(parity(field_type, c, a, -1) * _take(comp, ax, slice(src, src + 1)))
            lo = np.concatenate(parts, axis=F.ndim - 4)
            hi = np.zeros_like(lo)
        else:
            raise ValueError(kind)
        out = np.concatenate([lo, out, hi], axis=ax)
    return out


def colocate(E, Hprev, H, halos, phases, widths, uniform, halo_width="own"):
    """Reference co-location of (E, (Hprev+H)/2) onto the E_z node. Arrays (..., 3, nx, ny, nz).

    widths: per-axis cell widths; uniform: plain means. halo_width: width attributed to the cell behind cell 0,
    "own" (= width of cell 0, as documented) or "wrap" (width of the last cell, the periodic neighbour)."""
    outs = []
    for ft, F in (("E", E), ("H", 0.5 * (Hprev + H))):
        P = extend(F, ft, halos, phases)
        comps = []
        for c in range(3):
            x = _take(P, P.ndim - 4, c)  # (..., nx+2, ny+2, nz+2)
            for a, s in SHIFTS[(ft, c)].items():
                ax = x.ndim - 3 + a
                n = x.shape[ax]
                if s == +1:  # node -> cell centre: midpoint, keeps the low halo entry, drops the last
                    y = 0.5 * (_take(x, ax, slice(0, n - 1)) + _take(x, ax, slice(1, n)))
                    pad = np.zeros_like(_take(x, ax, slice(0, 1)))
                    x = np.concatenate([y, pad], axis=ax)  # entry n-1 is never read afterwards
                else:  # cell centre -> lower edge, distance weighted
                    cur = _take(x, ax, slice(1, n))
                    prv = _take(x, ax, slice(0, n - 1))
                    if uniform:
                        y = 0.5 * (cur + prv)
                    else:
                        w = np.asarray(widths[a], dtype=np.float64)
                        w0 = w[0] if (halo_width == "own" or halos[a] not in ("wrap", "bloch")) else w[-1]
                        wext = np.concatenate([[w0], w, [w[-1]]])  # widths of the extended cells
                        wc = wext[1:]
                        wp = wext[:-1]
                        shp = [1] * x.ndim
                        shp[ax] = n - 1
                        wc, wp = wc.reshape(shp), wp.reshape(shp)
                        y = (cur * wp + prv * wc) / (wc + wp)
                    pad = np.zeros_like(_take(x, ax, slice(0, 1)))
                    x = np.concatenate([pad, y], axis=ax)  # entry 0 (halo) is never read afterwards
            comps.append(x[..., 1:-1, 1:-1, 1:-1])
        outs.append(np.stack(comps, axis=-4))
    return outs[0], outs[1]


def restrict(F, box):
    return F[..., box[0][0] : box[0][1], box[1][0] : box[1][1], box[2][0] : box[2][1]]


def select(E, H, components):
    """Stack the requested components in canonical order: (..., k, nx, ny, nz)."""
    parts = []
    for i, name in enumerate(COMPONENTS):
        if name in components:
            src = E if i < 3 else H
            parts.append(src[..., i % 3, :, :, :])
    return np.stack(parts, axis=-4)


# ------------------------------------------------------------------------------------------------ C17: windows


def gaussian_window(t, center, sigma):
    t = np.asarray(t, dtype=np.float64)
    return np.exp(-((t - center) ** 2) / (2.0 * sigma**2))


def tukey_window(t, start, end, alpha):
    """Tapered cosine: flat 1 with cosine tapers of relative length alpha/2 at both ends, 0 outside [start,end]."""
    t = np.asarray(t, dtype=np.float64)
    x = (t - start) / (end - start)
    w = np.ones_like(x)
    if alpha > 0:
        h = alpha / 2.0
        left = x < h
        right = x > 1.0 - h
        w = np.where(left, 0.5 * (1.0 - np.cos(np.pi * x / h)), w)
        w = np.where(right & ~left, 0.5 * (1.0 - np.cos(np.pi * (1.0 - x) / h)), w)
    return np.where((x >= 0.0) & (x <= 1.0), w, 0.0)


def window_values(win, times):
    if win is None:
        return np.ones(len(times))
    if win["kind"] == "gauss":
        return gaussian_window(times, win["center_time"], win["sigma_time"])
    if win["kind"] == "tukey":
        return tukey_window(times, win["start_time"], win["end_time"], win.get("alpha", 0.5))
    raise ValueError(win)


def thin(on, stride):
    """Every stride-th active step."""
    act = [t for t, v in enumerate(on) if v]
    keep = set(act[:: max(1, int(stride))])
    return [t in keep for t in range(len(on))]


# ------------------------------------------------------------------------------------------------ C32: unfolding


def unfold_axis_map(n, on_plane):
    """For the low half of a doubled axis: list of (source index j into the kept half, parity applies?) for full
    index 0..n-1.

    Half-cell-offset samples mirror one-to-one (full n-1-j <-> kept j). Samples on the plane pair as m +- j
    (full n-j <-> kept j, j=1..n-1); the outermost one has no partner and repeats its neighbour (so with a single
    kept row it repeats that row, which is the plane itself)."""
    if not on_plane:
        return [(n - 1 - I, True) for I in range(n)]
    m = [None] * n
    for j in range(1, n):
        m[n - j] = (j, True)
    m[0] = m[1] if n > 1 else (0, False)
    return m


def unfold_matrix(shape, axis_specs):
    """Dense matrix of the unfolding of an array of `shape` (C order).

    axis_specs: {array_axis: (sign_array broadcastable over `shape` or scalar, on_plane(bool))} applied per axis.
    Returns (M, full_shape) with full.ravel() = M @ kept.ravel()."""
    shape = tuple(shape)
    n_in = int(np.prod(shape))
    idx = np.arange(n_in).reshape(shape)
    sgn = np.ones(shape)
    for ax in sorted(axis_specs):
        s, on_plane = axis_specs[ax]
        n = idx.shape[ax]
        amap = unfold_axis_map(n, on_plane)
        jmap = [j for j, _ in amap]
        use = np.array([1.0 if u else 0.0 for _, u in amap])
        s_full = np.broadcast_to(np.asarray(s, dtype=np.float64), sgn.shape) if np.ndim(s) else np.full(sgn.shape, float(s))
        shp = [1] * sgn.ndim
        shp[ax] = n
        low_idx = np.take(idx, jmap, axis=ax)
        par = np.take(s_full, jmap, axis=ax) if s_full.shape[ax] == n else s_full
        par = par * use.reshape(shp) + (1.0 - use.reshape(shp))
        low_sgn = np.take(sgn, jmap, axis=ax) * par
        idx = np.concatenate([low_idx, idx], axis=ax)
        sgn = np.concatenate([low_sgn, sgn], axis=ax)
    M = np.zeros((idx.size, n_in))
    M[np.arange(idx.size), idx.ravel()] = sgn.ravel()
    return M, idx.shape
