"""Generic exhaustive-enumeration runner.

A property module `props.Cxx` provides

    ID, LEVEL ("model_checking" | "exploration"), RULE (str), ASSUMPTIONS (list[str])
    cases(tier, seed) -> list of JSON-able case dicts, simplest first; the list *is* the bounded space
    run_case(case)    -> result dict (executed in a worker process against the real code)
    bounds(tier, seed) -> dict describing the bound that was enumerated (optional)

Result dict keys:
    ok (bool)                      property held on every element explored inside this case
    sig (str)                      when not ok: signature of the failing input class (for known findings)
    detail (json)                  residuals / observed vs expected
    nontrivial (int|bool)          number of distinct non-trivial elements inside this case
    evals (int)                    evaluations of real code inside this case
    states, transitions, traces    (model_checking) basis/BFS states tabulated, real step evaluations,
                                   conformance replays through the public driver
    outcome (str)                  optional observed-outcome class (distinct outcomes are counted)
    failures (list)                optional: several failing elements [{sig, detail, sub}] inside one case

The runner enumerates *all* cases (never samples), evaluates them on a process pool, writes the evidence
file, turns failures into replay files and VIOLATION / KNOWN-FINDING lines.
"""
import argparse
import hashlib
import importlib
import json
import multiprocessing as mp
import os
import sys
import time
import traceback

HERE = os.path.dirname(os.path.dirname(os.path.abspath(__file__)))


def _worker_init(pid, pin=True):
    if pin and os.environ.get("VERIF_PIN", "1") == "1":
        # one core per worker: XLA/Eigen size their thread pools from the visible CPUs; without pinning 16
        # workers x 16 threads fight for the same cores (measured: 10x system time)
        try:
            ident = mp.current_process()._identity
            cpus = sorted(os.sched_getaffinity(0))
            if ident and len(cpus) > 1:
                # offset by the parent pid so that several concurrent ./check runs do not all land on cores 0..jobs-1
                base = (os.getppid() * 5) % len(cpus)
                os.sched_setaffinity(0, {cpus[(base + ident[0] - 1) % len(cpus)]})
        except Exception:
            pass
    from mc import guard

    guard.import_fdtdx()
    global _MOD
    _MOD = importlib.import_module(f"props.{pid}")
    if hasattr(_MOD, "worker_init"):
        _MOD.worker_init()


def _run_one(args):
    idx, case = args
    t0 = time.time()
    try:
        res = _MOD.run_case(case)
        if not isinstance(res, dict) or "ok" not in res:
            raise RuntimeError(f"run_case returned {type(res)}")
    except Exception as e:  # an unexpected exception of the code under test is a failure of the case
        tb = traceback.format_exc()
        res = {
            "ok": False,
            "sig": f"exception:{type(e).__name__}",
            "detail": {"exception": repr(e)[:2000], "traceback": tb[-4000:]},
            "nontrivial": 0,
            "evals": 1,
        }
    res["_idx"] = idx
    res["_wall"] = time.time() - t0
    return res


def _digest(obj):
    return hashlib.sha256(json.dumps(obj, sort_keys=True, default=str).encode()).hexdigest()[:12]


def main(argv=None):
    ap = argparse.ArgumentParser()
    ap.add_argument("pid")
    ap.add_argument("--tier", default=os.environ.get("VERIF_TIER", "quick"), choices=["quick", "thorough"])
    ap.add_argument("--replay", default=None)
    ap.add_argument("--jobs", type=int, default=int(os.environ.get("VERIF_JOBS", "16")))
    ap.add_argument("--limit", type=int, default=None, help="debug only: run the first N cases (marks run non-exhaustive)")
    ap.add_argument("--no-evidence", action="store_true")
    a = ap.parse_args(argv)
    seed = int(os.environ.get("VERIF_SEED", "0"))
    pid = a.pid
    t0 = time.time()

    from mc import guard

    guard.pin_env()
    mod = importlib.import_module(f"props.{pid}")

    from mc import findings as F

    if a.replay:
        with open(a.replay) as fh:
            rp = json.load(fh)
        _worker_init(pid, pin=False)
        res = _run_one((0, rp["case"]))
        fails = _failures_of(res)
        if fails:
            known = F.load(pid)
            unknown = [f for f in fails if not F.match(known, f["sig"])]
            for f in fails:
                k = F.match(known, f["sig"])
                if k:
                    print(f"KNOWN-FINDING: property={pid} {k['what']}")
            if unknown:
                print(json.dumps(unknown[0], indent=1, default=str)[:4000])
                print(f"VIOLATION property={pid} replay={a.replay}")
                return 1
        print(f"replay of {a.replay}: " + ("only listed known findings reproduce" if fails else "property holds on this case"))
        return 0

    cases = list(mod.cases(a.tier, seed))
    capped = False
    if a.limit is not None and a.limit < len(cases):
        cases = cases[: a.limit]
        capped = True
    n = len(cases)
    if n == 0:
        sys.stderr.write("HARNESS-ERROR: empty case list\n")
        return 2
    jobs = max(1, min(a.jobs, n))
    results = [None] * n
    if jobs == 1:
        _worker_init(pid, pin=False)
        for i, c in enumerate(cases):
            results[i] = _run_one((i, c))
    else:
        ctx = mp.get_context("spawn")
        chunk = max(1, min(8, n // (jobs * 8) or 1))
        with ctx.Pool(jobs, initializer=_worker_init, initargs=(pid,)) as pool:
            prog, done, tlast = os.environ.get("VERIF_PROGRESS"), 0, time.time()
            for r in pool.imap_unordered(_run_one, list(enumerate(cases)), chunksize=chunk):
                results[r["_idx"]] = r
                done += 1
                if prog and time.time() - tlast > 30:  # coverage of a run that is later cut short stays readable
                    tlast = time.time()
                    with open(prog, "w") as fh:
                        fh.write(f"{pid} tier={a.tier} done={done}/{n} failing={sum(1 for x in results if x and _failures_of(x))} wall={tlast - t0:.0f}s\n")

    # ---------------------------------------------------------------- aggregate
    known = F.load(pid)
    tot = dict(evals=0, nontrivial=0, states=0, transitions=0, traces=0)
    outcomes = {}
    violations = []  # (case_idx, failure)
    known_hits = {}
    for i, r in enumerate(results):
        tot["evals"] += int(r.get("evals", 1))
        tot["nontrivial"] += int(r.get("nontrivial", 0))
        tot["states"] += int(r.get("states", 0))
        tot["transitions"] += int(r.get("transitions", 0))
        tot["traces"] += int(r.get("traces", 0))
        oc = r.get("outcome")
        if oc is not None:
            if isinstance(oc, dict):
                for k, v in oc.items():
                    outcomes[k] = outcomes.get(k, 0) + int(v)
            else:
                outcomes[str(oc)] = outcomes.get(str(oc), 0) + 1
        for f in _failures_of(r):
            k = F.match(known, f["sig"])
            if k:
                known_hits.setdefault(k["id"], [k, 0])[1] += 1
            else:
                violations.append((i, f))

    if os.environ.get("VERIF_SIGS"):
        allsig = {}
        for r in results:
            for f in _failures_of(r):
                allsig[f["sig"]] = allsig.get(f["sig"], 0) + 1
        with open(os.environ["VERIF_SIGS"], "w") as fh:
            json.dump(allsig, fh, indent=1, sort_keys=True)
    for kid, (k, cnt) in sorted(known_hits.items()):
        print(f"KNOWN-FINDING: property={pid} {k['what']} [{kid}; {cnt} failing elements in this run]")

    rc = 0
    replay_paths = []
    if violations:
        rc = 1
        os.makedirs(os.path.join(HERE, "replays"), exist_ok=True)
        seen_sig = set()
        for i, f in violations:
            if f["sig"] in seen_sig:
                continue  # first (simplest) failing case per signature
            seen_sig.add(f["sig"])
            rp = {"property": pid, "tier": a.tier, "seed": seed, "case": cases[i], "failure": f}
            path = os.path.join(HERE, "replays", f"{pid}_{_digest([cases[i], f['sig']])}.json")
            with open(path, "w") as fh:
                json.dump(rp, fh, indent=1, default=str)
            replay_paths.append(path)
            print(f"  failing case #{i}: sig={f['sig']} detail={json.dumps(f.get('detail'), default=str)[:600]}")
            print(f"VIOLATION property={pid} replay={path}")
            if len(seen_sig) >= 10:
                break

    # ---------------------------------------------------------------- evidence
    wall = time.time() - t0
    if not a.no_evidence:
        from mc import evidence as E

        samples = []
        for j in sorted({0, n // 2, n - 1}):
            r = results[j]
            samples.append({"case": cases[j], "ok": r["ok"], "detail": _trim(r.get("detail")), "wall_s": round(r["_wall"], 3)})
        bounds = mod.bounds(a.tier, seed) if hasattr(mod, "bounds") else {}
        cov = {
            "evaluations": tot["evals"],
            "distinct_nontrivial": tot["nontrivial"],
            "rule": mod.RULE,
            "samples": samples,
            "exhaustive": not capped and not bool(getattr(mod, "CAPPED", False)),
            "cases": n,
            "bounds": bounds,
            "observed_outcomes": outcomes,
            "known_finding_elements": {k: v[1] for k, v in known_hits.items()},
            "slowest_case_s": round(max(r["_wall"] for r in results), 2),
        }
        if mod.LEVEL == "model_checking":
            cov["states"] = tot["states"]
            cov["transitions"] = tot["transitions"]
            cov["traces_validated_against_impl"] = tot["traces"]
        ev = {
            "property_id": pid,
            "tier": a.tier,
            "seed": seed,
            "level": mod.LEVEL,
            "coverage": cov,
            "assumptions": list(getattr(mod, "ASSUMPTIONS", [])),
            "wall_s": round(wall, 2),
            "violations": len(violations),
        }
        E.write(pid, ev)
    print(
        f"{pid} tier={a.tier} seed={seed}: cases={n} evaluations={tot['evals']} nontrivial={tot['nontrivial']} "
        f"states={tot['states']} transitions={tot['transitions']} traces={tot['traces']} "
        f"outcomes={len(outcomes)} violations={len(violations)} known={sum(v[1] for v in known_hits.values())} wall={wall:.1f}s"
    )
    return rc


def _failures_of(r):
    if r.get("failures"):
        return [dict(sig=f["sig"], detail=f.get("detail"), sub=f.get("sub")) for f in r["failures"]]
    if not r["ok"]:
        return [dict(sig=r.get("sig", "unspecified"), detail=r.get("detail"))]
    return []


def _trim(x, n=1500):
    s = json.dumps(x, default=str)
    if len(s) <= n:
        return x
    return s[:n] + "..."


if __name__ == "__main__":
    sys.exit(main())
