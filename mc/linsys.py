"""E1: affine-system tabulation of real step functions.

For fixed materials/boundaries/objects one FDTD step is an affine map s -> M s + b_t of the dynamic state.
`tabulate` evaluates the *real* step function on 0 and on every basis vector (jax.vmap over the identity,
eager, no JIT) — an exhaustive enumeration of the transition relation — and returns (M, b) as numpy arrays.
`affinity_defect` checks, on all pairs of a block of basis vectors, that the map really is affine; for
complex state it also checks C-linearity (f(i e) - f(0) = i (f(e) - f(0))).
"""
import numpy as np

from mc import guard

fdtdx = guard.import_fdtdx()
import jax  # noqa: E402
import jax.numpy as jnp  # noqa: E402

from fdtdx.fdtd.backward import backward  # noqa: E402
from fdtdx.fdtd.forward import forward  # noqa: E402

KEY = jax.random.PRNGKey(0)


class Codec:
    """Flat layout of the dynamic field state of an ArrayContainer: E, H, psi_E, psi_H, P_curr, P_prev."""

    def __init__(self, arrays, with_psi=True, with_P=True):
        f = arrays.fields
        self.slots = []  # (path, shape)
        self.slots.append((("E",), tuple(f.E.shape)))
        self.slots.append((("H",), tuple(f.H.shape)))
        if with_psi:
            for name in sorted(f.psi_E):
                for k in (0, 1):
                    self.slots.append((("psi_E", name, k), tuple(f.psi_E[name][k].shape)))
            for name in sorted(f.psi_H):
                for k in (0, 1):
                    self.slots.append((("psi_H", name, k), tuple(f.psi_H[name][k].shape)))
        if with_P and f.dispersive_P_curr is not None:
            self.slots.append((("P_curr",), tuple(f.dispersive_P_curr.shape)))
            self.slots.append((("P_prev",), tuple(f.dispersive_P_prev.shape)))
        self.offsets = []
        o = 0
        for _, shp in self.slots:
            self.offsets.append(o)
            o += int(np.prod(shp))
        self.n = o
        self.dtype = f.E.dtype
        self.is_complex = jnp.issubdtype(self.dtype, jnp.complexfloating)

    def slot_range(self, path):
        for (p, shp), o in zip(self.slots, self.offsets):
            if p == tuple(path):
                return o, o + int(np.prod(shp)), shp
        raise KeyError(path)

    def pack(self, arrays):
        f = arrays.fields
        parts = []
        for p, _ in self.slots:
            parts.append(self._get(f, p).reshape(-1))
        return jnp.concatenate(parts)

    @staticmethod
    def _get(f, p):
        if p[0] == "E":
            return f.E
        if p[0] == "H":
            return f.H
        if p[0] == "psi_E":
            return f.psi_E[p[1]][p[2]]
        if p[0] == "psi_H":
            return f.psi_H[p[1]][p[2]]
        if p[0] == "P_curr":
            return f.dispersive_P_curr
        if p[0] == "P_prev":
            return f.dispersive_P_prev
        raise KeyError(p)

    def unpack(self, arrays, v):
        f = arrays.fields
        vals = {}
        for (p, shp), o in zip(self.slots, self.offsets):
            vals[p] = v[o : o + int(np.prod(shp))].reshape(shp)
        arrays = arrays.aset("fields->E", vals[("E",)].astype(f.E.dtype))
        arrays = arrays.aset("fields->H", vals[("H",)].astype(f.H.dtype))
        if any(p[0] == "psi_E" for p, _ in self.slots):
            psiE = {n: (vals[("psi_E", n, 0)], vals[("psi_E", n, 1)]) for n in f.psi_E}
            arrays = arrays.aset("fields->psi_E", psiE)
        if any(p[0] == "psi_H" for p, _ in self.slots):
            psiH = {n: (vals[("psi_H", n, 0)], vals[("psi_H", n, 1)]) for n in f.psi_H}
            arrays = arrays.aset("fields->psi_H", psiH)
        if ("P_curr",) in vals:
            arrays = arrays.aset("fields->dispersive_P_curr", vals[("P_curr",)])
            arrays = arrays.aset("fields->dispersive_P_prev", vals[("P_prev",)])
        return arrays

    def index_of(self, path, idx):
        """Flat index of element idx (tuple) in slot path."""
        lo, hi, shp = self.slot_range(path)
        return lo + int(np.ravel_multi_index(idx, shp))


def forward_fn(sc, codec, t, record_detectors=False, record_boundaries=False, simulate_boundaries=True, arrays=None):
    base = sc.arrays if arrays is None else arrays

    def f(v):
        a = codec.unpack(base, v)
        _, a2 = forward((jnp.asarray(t, dtype=jnp.int32), a), sc.config, sc.objects, KEY, record_detectors, record_boundaries, simulate_boundaries)
        return codec.pack(a2)

    return f


def backward_fn(sc, codec, t_plus_1, arrays=None, reset_fields=False):
    """Maps the state at time t+1 to the state at time t with the real `backward` (no recorder use unless PML objects exist)."""
    base = sc.arrays if arrays is None else arrays

    def f(v):
        a = codec.unpack(base, v)
        _, a2 = backward((jnp.asarray(t_plus_1, dtype=jnp.int32), a), sc.config, sc.objects, KEY, record_detectors=False, reset_fields=reset_fields)
        return codec.pack(a2)

    return f


def tabulate(fn, n, dtype=jnp.float64, extra=None):
    """Returns (M, b[, extra_out]) with fn(s) = M s + b for all s (if fn is affine): columns fn(e_j) - fn(0).
    `extra` (k, n) rows are evaluated in the same vmapped batch (one XLA batch shape per scene)."""
    rows = [jnp.zeros((1, n), dtype=dtype), jnp.eye(n, dtype=dtype)]
    if extra is not None:
        rows.append(jnp.asarray(extra, dtype=dtype))
    X = jnp.concatenate(rows, axis=0)
    out = np.asarray(jax.vmap(fn)(X))
    b = out[0]
    M = (out[1 : n + 1] - b[None, :]).T
    if extra is not None:
        return M, b, out[n + 1 :]
    return M, b


def affinity_rows(n, block, is_complex=False):
    """Input rows e_i - 2 e_j for all pairs i<=j of `block` (i==j gives -e_i: homogeneity), plus i*e_j for complex."""
    block = list(block)
    pairs = [(i, j) for k, i in enumerate(block) for j in block[k:]]
    X = np.zeros((len(pairs) + (len(block) if is_complex else 0), n), dtype=np.complex128 if is_complex else np.float64)
    for r, (i, j) in enumerate(pairs):
        X[r, i] += 1.0
        X[r, j] += -2.0
    if is_complex:
        for r, i in enumerate(block):
            X[len(pairs) + r, i] = 1j
    return X


def affinity_defect_from(X, out, M, b):
    """max | f(x) - (M x + b) | over the affinity rows."""
    if len(X) == 0:
        return 0.0
    exp = (M @ X.T).T + b[None, :]
    return float(np.max(np.abs(out - exp)))


def tabulate_checked(fn, n, dtype, block, is_complex=False):
    """tabulate + affinity check in one batch. Returns M, b, defect, evaluations."""
    X = affinity_rows(n, block, is_complex)
    M, b, out = tabulate(fn, n, dtype, extra=X)
    return M, b, affinity_defect_from(X, out, M, b), n + 1 + len(X)


def dense_state(n, kind, seed=0, is_complex=False):
    """Generic dense states for conformance replays."""
    k = np.arange(n, dtype=np.float64)
    if kind == "distinct":
        v = np.mod(0.173 + k * 0.6180339887498949, 1.0) - 0.5
        if is_complex:
            v = v + 1j * (np.mod(0.377 + k * 0.7548776662466927, 1.0) - 0.5)
    else:
        rng = np.random.default_rng(seed + 12345)
        v = rng.uniform(-0.5, 0.5, size=n)
        if is_complex:
            v = v + 1j * rng.uniform(-0.5, 0.5, size=n)
    return v


def rel(a, scale=None):
    a = float(np.max(np.abs(a))) if np.size(a) else 0.0
    return a if scale is None else a / max(scale, 1e-300)


def wall_keep(sc, codec):
    """0/1 vector over the flat state: 0 on tangential E of PEC cells and tangential H of PMC cells
    (the wall conditions a physical state satisfies), 1 elsewhere."""
    shape = sc.objects.volume.grid_shape
    keepE = np.ones((3, *shape))
    keepH = np.ones((3, *shape))
    for b in sc.objects.boundary_objects:
        tang = [c for c in range(3) if c != b.axis]
        if isinstance(b, fdtdx.PerfectElectricConductor):
            for c in tang:
                keepE[(c, *b.grid_slice)] = 0
        elif isinstance(b, fdtdx.PerfectMagneticConductor):
            for c in tang:
                keepH[(c, *b.grid_slice)] = 0
    keep = np.ones(codec.n)
    lo, hi, _ = codec.slot_range(("E",))
    keep[lo:hi] = keepE.ravel()
    lo, hi, _ = codec.slot_range(("H",))
    keep[lo:hi] = keepH.ravel()
    return keep


def eval_rows(fn, X, dtype):
    return np.asarray(jax.vmap(fn)(jnp.asarray(X, dtype=dtype)))


class Stepper:
    """One jit-compiled, row-vmapped evaluation of a real step function `fn(t, arrays) -> arrays` per scene:
    F(tvec (B,), X (B,n)) -> (B,n_out). Every use (tabulation on all basis states, affinity rows, per-time-index
    probes) is padded to the same batch size B, so a scene costs exactly one XLA compile per direction.
    (Eager evaluation re-traces every lax.cond of the code under test on every call.)"""

    def __init__(self, sc, codec, kind, B, arrays=None, **kw):
        self.sc, self.codec, self.B, self.n = sc, codec, B, codec.n
        base = sc.arrays if arrays is None else arrays
        if kind == "forward":
            rd = kw.get("record_detectors", False)
            rb = kw.get("record_boundaries", False)
            sb = kw.get("simulate_boundaries", True)

            def one(t, v):
                a = codec.unpack(base, v)
                _, a2 = forward((t, a), sc.config, sc.objects, KEY, rd, rb, sb)
                return codec.pack(a2)

        elif kind == "backward":
            rf = kw.get("reset_fields", True)

            def one(t, v):
                a = codec.unpack(base, v)
                _, a2 = backward((t, a), sc.config, sc.objects, KEY, record_detectors=False, reset_fields=rf)
                return codec.pack(a2)

        else:
            one = kind  # custom callable (t, v) -> v_out
        self._F = jax.jit(jax.vmap(one))

    def __call__(self, tvec, X):
        X = np.asarray(X)
        k = X.shape[0]
        outs = []
        for lo in range(0, k, self.B):
            hi = min(k, lo + self.B)
            Xp = np.zeros((self.B, self.n), dtype=X.dtype)
            Xp[: hi - lo] = X[lo:hi]
            tp = np.zeros((self.B,), dtype=np.int32)
            tp[: hi - lo] = np.asarray(tvec)[lo:hi]
            out = np.asarray(self._F(jnp.asarray(tp), jnp.asarray(Xp, dtype=self.codec.dtype)))
            outs.append(out[: hi - lo])
        return np.concatenate(outs, axis=0)

    def tabulate(self, t, block=()):
        """(M, b, affinity defect, evaluations) of the step at time index t."""
        n = self.n
        A = affinity_rows(n, block, self.codec.is_complex)
        X = np.concatenate([np.zeros((1, n), dtype=A.dtype), np.eye(n, dtype=A.dtype), A], axis=0)
        out = self(np.full((X.shape[0],), t), X)
        b = out[0]
        M = (out[1 : n + 1] - b[None, :]).T
        d = affinity_defect_from(A, out[n + 1 :], M, b)
        return M, b, d, X.shape[0]
