"""Scene builders on top of the public fdtdx API (place_objects) + hand-set material arrays.

A scene spec is a JSON-able dict, so that every case of every check can be written to a replay file:

  shape        [nx,ny,nz]                       domain cells (including PML cells)
  spacing      float (default 50e-9)
  grid         "uniform" | "rect_uniform" | "rect_distinct" | "rect_seed" | "quasi" | {"edges":[[..],[..],[..]]}
  faces        {"min_x": kind, ...}  kind in none|pec|pmc|periodic|bloch|pml   (missing = none)
  pml          int thickness (default 2) or {"min_x": t, ...}
  bloch        [kx,ky,kz] rad/m
  steps        int T (config.time = T*dt)
  complex      None|True|False
  courant      float
  eps/mu       {"tier": "iso"|"diag"|"full", "pat": "vac"|"uni"|"distinct"|"seed", "lo":..,"hi":..} or None
  sig_e/sig_h  {"tier": "iso"|"diag", "pat": "zeros"|"some"|"distinct"} or None
  sources      [ {kind:..., box:[[x0,x1],[y0,y1],[z0,z1]], ...} ]
  detectors    [ {kind:..., box:..., ...} ]
  gradient     None | {"method":"reversible"|"checkpointed", "num_checkpoints":int, "ckpt_rev":int, "recorder":[modules]}
  seed         int   (VERIF_SEED-derived generic pattern)
  dtype        "f64" (default) | "f32"
"""
import math

import numpy as np

from mc import guard

fdtdx = guard.import_fdtdx()
import jax  # noqa: E402
import jax.numpy as jnp  # noqa: E402

KINDS = ("min_x", "max_x", "min_y", "max_y", "min_z", "max_z")
AX = {"x": 0, "y": 1, "z": 2}
C0 = 299792458.0


class Scene:
    def __init__(self, spec, objects, arrays, config, params, info):
        self.spec, self.objects, self.arrays, self.config, self.params, self.info = spec, objects, arrays, config, params, info

    @property
    def shape(self):
        return tuple(self.spec["shape"])

    @property
    def T(self):
        return self.config.time_steps_total

    @property
    def dt(self):
        return self.config.time_step_duration


# ------------------------------------------------------------------------------------------ patterns
def _rng(seed, tag):
    import zlib

    return np.random.default_rng((int(seed) * 1000003 + zlib.crc32(tag.encode())) % (2**32))


def pattern(pat, shape, lo, hi, seed=0, tag=""):
    """Deterministic value patterns on an array of `shape`, values in [lo, hi]."""
    n = int(np.prod(shape))
    if pat in ("vac", "one"):
        return np.ones(shape)
    if pat == "uni":
        return np.full(shape, 0.5 * (lo + hi))
    if pat == "zeros":
        return np.zeros(shape)
    if pat == "distinct":
        # a different value in every cell and component (irrational stride => no accidental repeats)
        k = np.arange(n, dtype=np.float64)
        v = lo + (hi - lo) * np.mod(0.137 + k * 0.6180339887498949, 1.0)
        return v.reshape(shape)
    if pat == "seed":
        return _rng(seed, tag).uniform(lo, hi, size=shape)
    if pat == "some":  # zeros and positive values mixed
        k = np.arange(n)
        v = np.where(k % 3 == 0, 0.0, lo + (hi - lo) * np.mod(0.31 + k * 0.7548776662466927, 1.0))
        return v.reshape(shape)
    raise ValueError(pat)


def edges_for(kind, n, spacing, seed, axis):
    if kind in ("uniform", "rect_uniform", "quasi"):
        w = np.full(n, spacing)
    elif kind == "rect_distinct":
        k = np.arange(n) + 3 * axis
        w = spacing * (0.7 + 0.9 * np.mod(0.211 + k * 0.6180339887498949, 1.0))
    elif kind == "rect_seed":
        w = spacing * _rng(seed, f"edges{axis}").uniform(0.6, 1.7, size=n)
    elif kind == "rect_sym":  # mirror symmetric widths (for symmetry reduction)
        k = np.minimum(np.arange(n), n - 1 - np.arange(n)) + 3 * axis
        w = spacing * (0.7 + 0.9 * np.mod(0.211 + k * 0.6180339887498949, 1.0))
    else:
        raise ValueError(kind)
    e = np.concatenate([[0.0], np.cumsum(w)])
    return e - 0.5 * e[-1]


def make_grid(spec):
    g = spec.get("grid", "uniform")
    sp = spec.get("spacing", 50e-9)
    shape = spec["shape"]
    seed = spec.get("seed", 0)
    if isinstance(g, dict):
        e = g["edges"]
        return fdtdx.RectilinearGrid.custom(jnp.asarray(e[0]), jnp.asarray(e[1]), jnp.asarray(e[2]))
    if g == "uniform":
        return fdtdx.UniformGrid(spacing=sp)
    if g == "quasi":
        return fdtdx.QuasiUniformGrid(dx=sp, dy=sp, dz=sp)
    es = [jnp.asarray(edges_for(g, shape[a], sp, seed, a)) for a in range(3)]
    return fdtdx.RectilinearGrid.custom(es[0], es[1], es[2])


# ------------------------------------------------------------------------------------------ objects
def _switch(sw):
    if sw is None:
        return fdtdx.OnOffSwitch()
    return fdtdx.OnOffSwitch(**sw)


def _wave(w):
    w = dict(w or {"wavelength": 1e-6})
    return fdtdx.WaveCharacter(**w)


def _profile(p):
    if p is None:
        return None
    p = dict(p)
    k = p.pop("kind")
    if k == "cw":
        return fdtdx.SingleFrequencyProfile(**p)
    if k == "gauss":
        return fdtdx.GaussianPulseProfile(spectral_width=_wave(p["spectral_width"]), center_wave=_wave(p["center_wave"]))
    if k == "custom":
        return fdtdx.CustomTimeSignalProfile(
            signal=jnp.asarray(p["signal"]), time_step_duration=p["time_step_duration"], **{k2: v for k2, v in p.items() if k2 not in ("signal", "time_step_duration")}
        )
    raise ValueError(k)


def _window(w):
    if w is None:
        return None
    w = dict(w)
    k = w.pop("kind")
    return {"gauss": fdtdx.GaussianWindow, "tukey": fdtdx.TukeyWindow}[k](**w)


def _dt_of(name, complex_=False):
    if complex_:
        return jnp.complex128
    return jnp.float64


_EDGES = None  # edge arrays of the scene being built when its grid is non-uniform (index-space placement is rejected there)


def _box_constraints(obj, box):
    lo = tuple(int(b[0]) for b in box)
    if _EDGES is None:
        return [obj.set_grid_coordinates(axes=(0, 1, 2), sides=("-", "-", "-"), coordinates=lo)]
    # non-uniform grid: pin the lower side of each axis to the physical coordinate of its edge (snaps to that edge exactly)
    from fdtdx.objects.object import RealCoordinateConstraint

    return [RealCoordinateConstraint(object=obj.name, axes=(0, 1, 2), sides=("-", "-", "-"), coordinates=tuple(float(_EDGES[a][lo[a]]) for a in range(3)))]


def make_source(s, idx):
    s = dict(s)
    kind = s.pop("kind")
    box = s.pop("box")
    shape = tuple(int(b[1] - b[0]) for b in box)
    name = s.pop("name", f"src{idx}")
    common = dict(name=name, partial_grid_shape=shape, wave_character=_wave(s.pop("wave", None)), switch=_switch(s.pop("switch", None)))
    prof = _profile(s.pop("profile", None))
    if prof is not None:
        common["temporal_profile"] = prof
    if "amp" in s:
        common["static_amplitude_factor"] = s.pop("amp")
    for k in ("fixed_E_polarization_vector", "fixed_H_polarization_vector", "periodic_axes"):
        if k in s and s[k] is not None:
            s[k] = tuple(s[k])
    cls = {
        "plane": fdtdx.UniformPlaneSource,
        "gauss": fdtdx.GaussianPlaneSource,
        "dipole": fdtdx.PointDipoleSource,
        "tfsf": fdtdx.TFSFPlaneSourceRegion,
    }[kind]
    obj = cls(**common, **s)
    return obj, _box_constraints(obj, box)


def make_detector(d, idx, complex_fields=False):
    d = dict(d)
    kind = d.pop("kind")
    box = d.pop("box")
    shape = tuple(int(b[1] - b[0]) for b in box)
    name = d.pop("name", f"det{idx}")
    common = dict(name=name, partial_grid_shape=shape, switch=_switch(d.pop("switch", None)), plot=False)
    if "components" in d:
        d["components"] = tuple(d["components"])
    if "wave_characters" in d:
        d["wave_characters"] = tuple(_wave(w) for w in d["wave_characters"])
    if "apodization" in d:
        d["apodization"] = _window(d["apodization"])
    if "axes" in d and d["axes"] is not None:
        d["axes"] = tuple(d["axes"])
    phasor = kind in ("phasor", "phasor_poynting", "closed_phasor")
    dtype = d.pop("dtype", None)
    if isinstance(dtype, str):
        dtype = {"f32": jnp.float32, "f64": jnp.float64, "c64": jnp.complex64, "c128": jnp.complex128}[dtype]
    if dtype is None:
        dtype = jnp.complex128 if (phasor or (complex_fields and kind == "field")) else jnp.float64
    cls = {
        "field": fdtdx.FieldDetector,
        "energy": fdtdx.EnergyDetector,
        "poynting": fdtdx.PoyntingFluxDetector,
        "phasor": fdtdx.PhasorDetector,
        "phasor_poynting": fdtdx.PhasorPoyntingFluxDetector,
        "closed": fdtdx.ClosedSurfacePoyntingFluxDetector,
        "closed_phasor": fdtdx.ClosedSurfacePhasorPoyntingFluxDetector,
    }[kind]
    if kind in ("phasor_poynting", "closed_phasor"):
        common.pop("plot")
    obj = cls(**common, dtype=dtype, **d)
    return obj, _box_constraints(obj, box)


def make_boundaries(spec, volume):
    faces = spec.get("faces", {})
    pml = spec.get("pml", 2)
    objs, cons = [], []
    bloch = tuple(float(v) for v in spec.get("bloch", (0.0, 0.0, 0.0)))
    for kind in KINDS:
        t = faces.get(kind, "none")
        if t == "none":
            continue
        axis = AX[kind[-1]]
        direction = "-" if kind.startswith("min") else "+"
        thick = (pml[kind] if isinstance(pml, dict) else pml) if t == "pml" else 1
        gs = [None, None, None]
        gs[axis] = thick
        name = f"b_{kind}"
        if t == "pml":
            extra = spec.get("pml_args", {})
            b = fdtdx.PerfectlyMatchedLayer(name=name, axis=axis, direction=direction, partial_grid_shape=tuple(gs), **extra)
        elif t == "periodic":
            b = fdtdx.BlochBoundary(name=name, axis=axis, direction=direction, partial_grid_shape=tuple(gs), bloch_vector=(0.0, 0.0, 0.0))
        elif t == "bloch":
            b = fdtdx.BlochBoundary(name=name, axis=axis, direction=direction, partial_grid_shape=tuple(gs), bloch_vector=bloch)
        elif t == "pec":
            b = fdtdx.PerfectElectricConductor(name=name, axis=axis, direction=direction, partial_grid_shape=tuple(gs))
        elif t == "pmc":
            b = fdtdx.PerfectMagneticConductor(name=name, axis=axis, direction=direction, partial_grid_shape=tuple(gs))
        else:
            raise ValueError(t)
        other = [0, 1, 2]
        other.remove(axis)
        di = -1 if direction == "-" else 1
        cons.append(b.place_relative_to(volume, axes=(axis, other[0], other[1]), own_positions=(di, 0, 0), other_positions=(di, 0, 0)))
        objs.append(b)
    return objs, cons


def make_gradient(g):
    if g is None:
        return None
    mods = []
    for m in g.get("recorder", []) or []:
        if m["kind"] == "everyk":
            mods.append(fdtdx.LinearReconstructEveryK(k=m["k"], start_recording_after=m.get("start", 0)))
        elif m["kind"] == "dtype":
            mods.append(fdtdx.DtypeConversion(dtype={"f32": jnp.float32, "f64": jnp.float64, "c64": jnp.complex64, "c128": jnp.complex128, "bf16": jnp.bfloat16, "f16": jnp.float16}[m["dtype"]]))
    if g["method"] == "reversible":
        return fdtdx.GradientConfig(method="reversible", recorder=fdtdx.Recorder(modules=mods), num_checkpoints_reversible=g.get("ckpt_rev", 0))
    return fdtdx.GradientConfig(method="checkpointed", num_checkpoints=g["num_checkpoints"])


# ------------------------------------------------------------------------------------------ materials
_NC = {"iso": 1, "diag": 3, "full": 9}


def material_array(m, shape, seed, tag, inverse=True):
    """Returns inverse material array (nc, nx, ny, nz) for eps/mu specs, or sigma array for conductivities."""
    tier = m["tier"]
    pat = m.get("pat", "uni")
    lo, hi = m.get("lo", 1.0), m.get("hi", 4.0)
    if tier in ("iso", "diag"):
        nc = _NC[tier]
        v = pattern(pat, (nc, *shape), lo, hi, seed, tag)
        return 1.0 / v if inverse else v
    # full symmetric positive definite tensor per cell: R diag R^T with small rotations
    d = pattern(pat, (3, *shape), lo, hi, seed, tag + "d")
    ang = pattern("distinct" if pat != "seed" else "seed", (3, *shape), -0.5, 0.5, seed, tag + "a")
    if pat in ("vac", "uni"):
        ang = np.full((3, *shape), 0.3)
    T = np.zeros((3, 3, *shape))
    cx, sx = np.cos(ang[0]), np.sin(ang[0])
    cy, sy = np.cos(ang[1]), np.sin(ang[1])
    cz, sz = np.cos(ang[2]), np.sin(ang[2])
    one, zero = np.ones(shape), np.zeros(shape)
    Rx = np.array([[one, zero, zero], [zero, cx, -sx], [zero, sx, cx]])
    Ry = np.array([[cy, zero, sy], [zero, one, zero], [-sy, zero, cy]])
    Rz = np.array([[cz, -sz, zero], [sz, cz, zero], [zero, zero, one]])
    R = np.einsum("ij...,jk...,kl...->il...", Rz, Ry, Rx)
    D = np.zeros((3, 3, *shape))
    for i in range(3):
        D[i, i] = d[i]
    T = np.einsum("ij...,jk...,lk...->il...", R, D, R)
    if m.get("box") is not None:
        # full tensors only inside the box; an isotropic background (still stored with 9 components) elsewhere
        bx = m["box"]
        inside = np.zeros(shape, dtype=bool)
        inside[bx[0][0] : bx[0][1], bx[1][0] : bx[1][1], bx[2][0] : bx[2][1]] = True
        bg = np.zeros((3, 3, *shape))
        for i in range(3):
            bg[i, i] = m.get("bg", 2.0)
        T = np.where(inside[None, None], T, bg)
    if inverse:
        Tm = np.moveaxis(T.reshape(3, 3, -1), -1, 0)
        Ti = np.linalg.inv(Tm)
        T = np.moveaxis(Ti, 0, -1).reshape(3, 3, *shape)
    return T.reshape(9, *shape)


def build(spec):
    spec = dict(spec)
    shape = tuple(spec["shape"])
    dtype = jnp.float64 if spec.get("dtype", "f64") == "f64" else jnp.float32
    grid = make_grid(spec)
    kw = dict(backend="cpu", dtype=dtype, courant_factor=spec.get("courant", 0.99))
    if spec.get("complex") is not None:
        kw["use_complex_fields"] = spec["complex"]
    if spec.get("symmetry") is not None:
        kw["symmetry"] = tuple(spec["symmetry"])
    grad = make_gradient(spec.get("gradient"))
    cfg0 = fdtdx.SimulationConfig(time=1e-15, grid=grid, **kw)
    if isinstance(grid, fdtdx.RectilinearGrid):
        dt = cfg0.time_step_duration
    else:
        dt = cfg0.resolve_grid(shape).cfl_time_step(cfg0.courant_factor) if not isinstance(grid, fdtdx.UniformGrid) else cfg0.time_step_duration
    T = int(spec.get("steps", 8))
    cfg = fdtdx.SimulationConfig(time=(T + 0.25) * dt if T > 0 else 0.0, grid=grid, gradient_config=grad, **kw)
    vol_kw = {}
    if spec.get("vol_material") is not None:
        vol_kw["material"] = fdtdx.Material(**spec["vol_material"])
    if spec.get("vol_material_obj") is not None:
        vol_kw["material"] = spec["vol_material_obj"]
    if spec.get("vol_poles"):
        # dispersive volume material from a JSON-able pole list (frequencies given as omega*dt of this scene's time step)
        poles = []
        for pl in spec["vol_poles"]:
            if pl["kind"] == "lorentz":
                poles.append(fdtdx.LorentzPole(resonance_frequency=pl["w0dt"] / dt, damping=pl["gdt"] / dt, delta_epsilon=pl["de"]))
            else:
                poles.append(fdtdx.DrudePole(plasma_frequency=pl["wpdt"] / dt, damping=pl["gdt"] / dt))
        vol_kw["material"] = fdtdx.Material(permittivity=spec.get("vol_eps_inf", 2.0), dispersion=fdtdx.DispersionModel(poles=tuple(poles)))
    global _EDGES
    _EDGES = None
    if isinstance(grid, fdtdx.RectilinearGrid) and not grid.is_uniform:
        _EDGES = [np.asarray(grid.edges(a), dtype=np.float64) for a in range(3)]
    volume = fdtdx.SimulationVolume(name="volume", partial_grid_shape=shape, **vol_kw)
    objs, cons = [volume], []
    b, c = make_boundaries(spec, volume)
    objs += b
    cons += c
    complex_fields = bool(spec.get("complex")) or any(
        v == "bloch" for v in spec.get("faces", {}).values()
    ) and any(abs(x) > 0 for x in spec.get("bloch", (0, 0, 0)))
    for i, s in enumerate(spec.get("sources", []) or []):
        o, c = make_source(s, i)
        objs.append(o)
        cons += c
    for i, d in enumerate(spec.get("detectors", []) or []):
        o, c = make_detector(d, i, complex_fields)
        objs.append(o)
        cons += c
    for extra in spec.get("_extra_objects", []) or []:
        objs.append(extra[0])
        cons += extra[1]
    objects, arrays, params, config, info = fdtdx.place_objects(objs, cfg, cons, key=jax.random.PRNGKey(spec.get("seed", 0)))
    assert config.time_steps_total == T, (config.time_steps_total, T)
    sc = Scene(spec, objects, arrays, config, params, info)
    set_materials(sc, spec)
    return sc


def set_materials(sc, spec):
    """Overwrite material arrays by hand (patterns) and re-apply all objects against them."""
    shape = sc.objects.volume.grid_shape
    seed = spec.get("seed", 0)
    arrays = sc.arrays
    fdt = arrays.inv_permittivities.dtype
    changed = False
    if spec.get("eps") is not None:
        arrays = arrays.aset("inv_permittivities", jnp.asarray(material_array(spec["eps"], shape, seed, "eps"), dtype=fdt))
        changed = True
    if spec.get("mu") is not None:
        arrays = arrays.aset("inv_permeabilities", jnp.asarray(material_array(spec["mu"], shape, seed, "mu"), dtype=fdt))
        changed = True
    scale = C0 * sc.config.time_step_duration / sc.config.courant_number  # conductivities are stored grid-scaled
    if spec.get("sig_e") is not None:
        m = dict(spec["sig_e"])
        m.setdefault("lo", 0.0)
        m.setdefault("hi", 2e4)
        arrays = arrays.aset("electric_conductivity", jnp.asarray(material_array(m, shape, seed, "sige", inverse=False) * scale, dtype=fdt))
        changed = True
    if spec.get("sig_h") is not None:
        m = dict(spec["sig_h"])
        m.setdefault("lo", 0.0)
        m.setdefault("hi", 2e9)
        arrays = arrays.aset("magnetic_conductivity", jnp.asarray(material_array(m, shape, seed, "sigh", inverse=False) * scale, dtype=fdt))
        changed = True
    if changed:
        sc.arrays = arrays
        reapply(sc)
    return sc


def reapply(sc):
    key = jax.random.PRNGKey(7)
    new = []
    a = sc.arrays
    for o in sc.objects.object_list:
        key, sub = jax.random.split(key)
        o = o.apply(
            key=sub,
            inv_permittivities=a.inv_permittivities,
            inv_permeabilities=a.inv_permeabilities,
            dispersive_c1=a.dispersive_c1,
            dispersive_c2=a.dispersive_c2,
            dispersive_c3=a.dispersive_c3,
            dispersive_c4=a.dispersive_c4,
            electric_conductivity=a.electric_conductivity,
        )
        new.append(o)
    sc.objects = fdtdx.ObjectContainer(object_list=new, volume_idx=sc.objects.volume_idx)


# ------------------------------------------------------------------------------------------ helpers
def faces_from_axes(per_axis):
    """per_axis: 3 entries, each 'none'|'periodic'|'bloch'|'pml' or (min,max) tuple."""
    out = {}
    for a, name in enumerate("xyz"):
        v = per_axis[a]
        if isinstance(v, (tuple, list)):
            out[f"min_{name}"], out[f"max_{name}"] = v[0], v[1]
        else:
            out[f"min_{name}"] = out[f"max_{name}"] = v
    return out


def axis_face_alphabet():
    """All admissible (min,max) combinations on one axis: {none,pec,pmc}^2 + periodic pair + bloch pair."""
    t = ("none", "pec", "pmc")
    return [(a, b) for a in t for b in t] + [("periodic", "periodic"), ("bloch", "bloch")]


def time_step_of(spec):
    """dt of the scene a spec would build (without placing anything)."""
    grid = make_grid(spec)
    cfg0 = fdtdx.SimulationConfig(time=1e-15, grid=grid, backend="cpu", dtype=jnp.float64, courant_factor=spec.get("courant", 0.99))
    if isinstance(grid, fdtdx.RectilinearGrid) or isinstance(grid, fdtdx.UniformGrid):
        return cfg0.time_step_duration
    return cfg0.resolve_grid(tuple(spec["shape"])).cfl_time_step(cfg0.courant_factor)
