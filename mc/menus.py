"""Finite menus (alphabets) of scene ingredients shared by the E1 checks, and the deviation-bounded product.

A scene choice is a dict {dimension: index}. `enumerate_deviations(menus, d, base)` yields every choice that departs
from the base index in at most d dimensions (simplest first). Everything is JSON-able.
"""
import itertools

SHAPE = [4, 5, 6]
PERIOD_WL = 0.6e-6  # short period so that a 10-step run sees a visibly varying carrier


def sources_menu(shape=SHAPE):
    nx, ny, nz = shape
    w = {"wavelength": PERIOD_WL}
    return [
        ("plane+z", dict(kind="plane", box=[[0, nx], [0, ny], [2, 3]], direction="+", fixed_E_polarization_vector=[1, 0, 0], wave=w)),
        ("none", None),
        ("plane-x", dict(kind="plane", box=[[1, 2], [0, ny], [0, nz]], direction="-", fixed_E_polarization_vector=[0, 1, 0], wave=w)),
        ("plane+y45", dict(kind="plane", box=[[0, nx], [2, 3], [0, nz]], direction="+", fixed_E_polarization_vector=[1, 0, 1], wave=w)),
        ("plane-z-H", dict(kind="plane", box=[[0, nx], [0, ny], [3, 4]], direction="-", fixed_H_polarization_vector=[1, 0, 0], wave=w)),
        ("gauss+y", dict(kind="gauss", box=[[0, nx], [2, 3], [0, nz]], direction="+", fixed_E_polarization_vector=[0, 0, 1], radius=100e-9, wave=w)),
        ("dipEz", dict(kind="dipole", box=[[1, 2], [2, 3], [3, 4]], polarization=2, wave=w)),
        ("dipEx", dict(kind="dipole", box=[[2, 3], [1, 2], [2, 3]], polarization=0, wave=w)),
        ("dipMy", dict(kind="dipole", box=[[1, 2], [2, 3], [3, 4]], polarization=1, source_type="magnetic", wave=w)),
        ("dipTilt", dict(kind="dipole", box=[[1, 2], [2, 3], [3, 4]], polarization=2, azimuth_angle=30.0, elevation_angle=20.0, wave=w)),
        ("tfsf", dict(kind="tfsf", box=[[1, nx - 1], [1, ny - 1], [1, nz - 1]], direction="+", propagation_axis=2, fixed_E_polarization_vector=[1, 0, 0], wave=w)),
    ]


def switch_menu(dt, T):
    return [
        ("default", None),
        ("window", dict(start_time=2.0 * dt, end_time=6.0 * dt)),
        ("interval3", dict(interval=3)),
        ("fixed", dict(fixed_on_time_steps=[1, 4, min(7, T - 1)])),
        ("off", dict(is_always_off=True)),
        ("periods", dict(start_after_periods=0.5, on_for_periods=1.5, period=3.0 * dt)),
    ]


def profile_menu(dt, T):
    sig = [0.0, 0.3, -0.7, 1.0, 0.2, -0.4, 0.9, -1.0, 0.5, 0.1, -0.2, 0.6]
    return [
        ("cw", None),
        ("gauss", dict(kind="gauss", spectral_width={"frequency": 1.6e15}, center_wave={"wavelength": PERIOD_WL})),
        ("custom", dict(kind="custom", signal=sig, time_step_duration=1.3 * dt)),
    ]


AMP_MENU = [("1", None), ("-2.5", -2.5)]

FACES_MENU = [
    ("periodic3", ["periodic", "periodic", "periodic"]),
    ("pecpmc/periodic/none", [("pec", "pmc"), "periodic", "none"]),
    ("bloch/pec/pmcnone", ["bloch", ("pec", "pec"), ("pmc", "none")]),
    ("none3", ["none", "none", "none"]),
    ("pec3", [("pec", "pec"), ("pec", "pec"), ("pec", "pec")]),
    ("pmc3", [("pmc", "pmc"), ("pmc", "pmc"), ("pmc", "pmc")]),
    ("periodic/bloch/nonepec", ["periodic", "bloch", ("none", "pec")]),
]

MATS_MENU = [
    ("iso", dict(eps={"tier": "iso", "pat": "distinct"})),
    ("diag+mu", dict(eps={"tier": "diag", "pat": "distinct"}, mu={"tier": "diag", "pat": "distinct"})),
    ("iso+sigE", dict(eps={"tier": "iso", "pat": "distinct"}, sig_e={"tier": "iso", "pat": "some"})),
    ("diag+sigH", dict(eps={"tier": "diag", "pat": "seed"}, mu={"tier": "iso", "pat": "distinct"}, sig_h={"tier": "diag", "pat": "distinct"})),
    ("sigE+sigH", dict(eps={"tier": "diag", "pat": "distinct"}, mu={"tier": "iso", "pat": "seed"}, sig_e={"tier": "diag", "pat": "distinct"}, sig_h={"tier": "iso", "pat": "some"})),
    ("full-eps", dict(eps={"tier": "full", "pat": "distinct"})),
    ("full-eps-mu", dict(eps={"tier": "full", "pat": "seed"}, mu={"tier": "full", "pat": "distinct"})),
    ("vac", dict()),
]

GRID_MENU = [("uniform", "uniform"), ("rect_distinct", "rect_distinct"), ("rect_seed", "rect_seed")]


def enumerate_deviations(sizes, d, pairs_only=None):
    """All index tuples with at most d non-zero entries; optional restriction of which dimension sets may deviate
    together (pairs_only: set of frozensets of dimension indices allowed for |dev| >= 2)."""
    n = len(sizes)
    out = [tuple([0] * n)]
    for k in range(1, d + 1):
        for dims in itertools.combinations(range(n), k):
            if k >= 2 and pairs_only is not None and frozenset(dims) not in pairs_only:
                continue
            for vals in itertools.product(*[range(1, sizes[i]) for i in dims]):
                t = [0] * n
                for i, v in zip(dims, vals):
                    t[i] = v
                out.append(tuple(t))
    return out
