"""Evidence writer: /verif/evidence/<id>.json, validated against EVIDENCE.schema.json before exit."""
import json
import os
import sys

HERE = os.path.dirname(os.path.dirname(os.path.abspath(__file__)))
SCHEMA_PATHS = [os.path.join(HERE, "schemas", "EVIDENCE.schema.json"), "/root/.vp/EVIDENCE.schema.json"]


def _jsonable(o):
    try:
        import numpy as np

        if isinstance(o, (np.integer,)):
            return int(o)
        if isinstance(o, (np.floating,)):
            return float(o)
        if isinstance(o, np.ndarray):
            return o.tolist()
        if isinstance(o, (np.bool_,)):
            return bool(o)
    except Exception:
        pass
    if isinstance(o, complex):
        return [o.real, o.imag]
    return str(o)


def write(pid, ev):
    os.makedirs(os.path.join(HERE, "evidence"), exist_ok=True)
    path = os.path.join(HERE, "evidence", f"{pid}.json")
    txt = json.dumps(ev, indent=1, default=_jsonable)
    ev2 = json.loads(txt)
    schema = None
    for p in SCHEMA_PATHS:
        if os.path.exists(p):
            with open(p) as fh:
                schema = json.load(fh)
            break
    if schema is not None:
        try:
            import jsonschema

            jsonschema.validate(ev2, schema)
        except ImportError:
            pass
        except Exception as e:  # invalid evidence is a harness error, never a verdict
            sys.stderr.write(f"HARNESS-ERROR: evidence for {pid} does not validate: {str(e)[:500]}\n")
            with open(path + ".invalid", "w") as fh:
                fh.write(txt)
            raise SystemExit(2)
    tmp = path + ".tmp"
    with open(tmp, "w") as fh:
        fh.write(txt + "\n")
    os.replace(tmp, path)
    return path
