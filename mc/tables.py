"""Evaluation of a scene's real step function (forward + detector update) on a complete row set, for checks that
compare two systems (complex vs real storage, supercell vs cell, permuted axes, grid descriptions, reduced vs full).

Row set (all evaluated through ONE jit-compiled, row-vmapped call of fdtdx.fdtd.forward.forward per scene):
  * zero state and every basis state e_j at each time index of `t0s`  -> the full transition table (M, b_t0, R_t0)
  * i*e_j for complex states                                            -> C-linearity
  * affinity rows e_i - 2 e_j on a block                                -> the map really is affine
  * e_i + e_j for all pairs of `pair_idx`                               -> quadratic/bilinear detector records
  * zero state and dense generic probes at EVERY time index 0..T-1      -> source offsets b_t and time dependence
"""
import numpy as np

from mc import guard

fdtdx = guard.import_fdtdx()
import jax  # noqa: E402
import jax.numpy as jnp  # noqa: E402

from fdtdx.fdtd.forward import forward  # noqa: E402

from mc import linsys  # noqa: E402

KEY = jax.random.PRNGKey(0)


def det_flatten(states):
    parts = []
    for name in sorted(states):
        for k in sorted(states[name]):
            parts.append(jnp.ravel(states[name][k]))
    if not parts:
        return jnp.zeros((0,))
    dt = jnp.result_type(*parts)
    return jnp.concatenate([p.astype(dt) for p in parts])


def det_layout(states):
    """[(name, key, shape, dtype)] in flatten order."""
    out = []
    for name in sorted(states):
        for k in sorted(states[name]):
            out.append((name, k, tuple(states[name][k].shape), states[name][k].dtype))
    return out


class Rows:
    def __init__(self, n, is_complex, T, t0s=(0,), pair_idx=(), block=None, seed=0, keep=None, basis_idx=None):
        cd = np.complex128 if is_complex else np.float64
        keep = np.ones(n) if keep is None else keep
        self.n, self.T = n, T
        basis_idx = list(range(n)) if basis_idx is None else list(basis_idx)
        self.basis_idx = basis_idx
        rows, tv, lab = [], [], []

        def add(x, t, label):
            rows.append(x)
            tv.append(t)
            lab.append(label)

        eye = np.eye(n, dtype=cd)
        for t0 in t0s:
            add(np.zeros(n, dtype=cd), t0, ("zero", t0))
            for j in basis_idx:
                add(eye[j] * keep[j], t0, ("e", t0, j))
        t0 = t0s[0]
        if is_complex:
            for j in basis_idx:
                add(1j * eye[j] * keep[j], t0, ("ie", t0, j))
        if block is None:
            block = [basis_idx[i] for i in range(0, len(basis_idx), max(1, len(basis_idx) // 8))][:8]
        self.block = [j for j in block if keep[j] > 0]
        self.A = linsys.affinity_rows(n, self.block, is_complex).astype(cd)
        for r in self.A:
            add(r, t0, ("aff",))
        pair_idx = [j for j in pair_idx if keep[j] > 0]
        self.pair_idx = pair_idx
        for a, i in enumerate(pair_idx):
            for j in pair_idx[a + 1 :]:
                add(eye[i] + eye[j], t0, ("pair", i, j))
                if is_complex:
                    add(eye[i] + 1j * eye[j], t0, ("ipair", i, j))
        self.probes = np.stack([linsys.dense_state(n, "distinct", 0, is_complex) * keep, linsys.dense_state(n, "seed", seed, is_complex) * keep]).astype(cd)
        for t in range(T):
            add(np.zeros(n, dtype=cd), t, ("zero_t", t))
            add(self.probes[0], t, ("p0", t))
            add(self.probes[1], t, ("p1", t))
        self.X = np.stack(rows)
        self.tvec = np.asarray(tv, dtype=np.int32)
        self.labels = lab
        self.index = {l: i for i, l in enumerate(lab) if l[0] != "aff"}

    def sel(self, kind):
        return [i for i, l in enumerate(self.labels) if l[0] == kind]


def run(sc, codec, tvec, X, record_detectors=True, arrays=None, extra_obs=None):
    """Evaluates forward(t, state) with zeroed detector states on all rows. Returns (Y next states, O detector records)."""
    base = sc.arrays if arrays is None else arrays

    def one(t, v):
        a = codec.unpack(base, v)
        _, a2 = forward((t, a), sc.config, sc.objects, KEY, record_detectors, False, True)
        o = det_flatten(a2.detector_states) if record_detectors else jnp.zeros((0,))
        return codec.pack(a2), o

    F = jax.jit(jax.vmap(one))
    Y, O = F(jnp.asarray(tvec), jnp.asarray(X, dtype=codec.dtype))
    return np.asarray(Y), np.asarray(O)


def table(rows, Y, O, t0):
    """(M, b, R, r0) at time t0 from evaluated rows: next = M s + b, record = R s + r0 (linear detectors)."""
    iz = rows.index[("zero", t0)]
    ie = [rows.index[("e", t0, j)] for j in rows.basis_idx]
    b, r0 = Y[iz], O[iz]
    M = (Y[ie] - b[None, :]).T
    R = (O[ie] - r0[None, :]).T
    return M, b, R, r0


def affinity_defect(rows, Y, t0):
    """Affinity defect of the state map on the affinity rows (requires a full basis)."""
    ia = rows.sel("aff")
    if not ia or len(rows.basis_idx) != rows.n:
        return 0.0
    iz = rows.index[("zero", t0)]
    ie = [rows.index[("e", t0, j)] for j in range(rows.n)]
    b = Y[iz]
    M = (Y[ie] - b[None, :]).T
    return linsys.affinity_defect_from(rows.A, Y[ia], M, b)
