"""Import guard: every check must exercise the working tree in /repo/src, never the stale
site-packages copy of fdtdx that the pinned pytest suite happens to import."""
import os
import sys

REPO_SRC = os.environ.get("VERIF_REPO_SRC", "/repo/src")


def pin_env():
    os.environ.setdefault("JAX_PLATFORMS", "cpu")
    os.environ["JAX_ENABLE_X64"] = "1"
    os.environ.setdefault("PYTHONHASHSEED", "0")
    for k in ("OMP_NUM_THREADS", "OPENBLAS_NUM_THREADS", "MKL_NUM_THREADS"):
        os.environ.setdefault(k, "1")
    flags = os.environ.get("XLA_FLAGS", "")
    if "intra_op_parallelism_threads" not in flags:
        os.environ["XLA_FLAGS"] = (flags + " --xla_cpu_multi_thread_eigen=false intra_op_parallelism_threads=1").strip()
    if REPO_SRC not in sys.path:
        sys.path.insert(0, REPO_SRC)


def import_fdtdx():
    pin_env()
    import logging

    try:
        from loguru import logger

        logger.remove()
    except Exception:
        pass
    logging.disable(logging.WARNING)
    import jax

    jax.config.update("jax_enable_x64", True)
    import fdtdx

    f = os.path.realpath(fdtdx.__file__)
    if not f.startswith(os.path.realpath(REPO_SRC) + os.sep):
        sys.stderr.write(f"HARNESS-ERROR: fdtdx imported from {f}, expected under {REPO_SRC}\n")
        os._exit(2)
    return fdtdx
