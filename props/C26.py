"""C26 — whenever object placement succeeds, the final grid slices satisfy every constraint.

Engine E2: bounded exhaustive enumeration of constraint systems (volume + objects a,b[,c] + every multiset of <= k
entries of an explicit ~72-element alphabet covering all five constraint kinds and own sizes/positions), each resolved
by the real `resolve_object_constraints` (and, for the smallest systems, by `place_objects`) and re-evaluated by the
numpy oracle `mc.oracles.placement.judge`, written from the property statement and the docstrings.
"""
ID = "C26"
LEVEL = "exploration"
MANIFEST = {
    "engine": "E2-enum",
    "technique": "bounded exhaustive enumeration of constraint systems (all multisets of <=2/<=3 constraints from an explicit alphabet) against an independent constraint re-evaluation",
    "text": "Every constraint system of the bounded space (volume 6x7x8, objects with own grid/real sizes and positions, every multiset of at most 2 (quick) / 3 (thorough) entries of a 72-element alphabet of position, size, extension, grid- and real-coordinate constraints, on each axis, on uniform and non-uniform grids) is resolved by the real resolver; for every successful resolution an independent numpy oracle re-evaluates containment, positive size, every constraint on the final slices (anchors within half a cell, documented length and nearest-edge snapping) and that untouched axes span the volume.",
    "note": "Real-valued margins/offsets/coordinates come from a finite alphabet (edge hits, ties, non-integer multiples, out-of-domain values, one VERIF_SEED-derived value per kind). partial_real_position is judged only when it is the sole positional information of an object whose size is fixed independently; otherwise a mismatch is counted as an observation, not a violation. Systems with <=1 entry are also pushed through place_objects.",
}
RULE = (
    "case = (grid kind, primary axis, object template, multiset size k, smallest alphabet index); every multiset of exactly k "
    "alphabet entries with that smallest index is one constraint system, resolved once by fdtdx.resolve_object_constraints. "
    "A system is non-trivial when resolution succeeds and at least one object ends up strictly smaller than the volume on some "
    "axis (a size/position/coordinate actually bound it); distinct = distinct systems (multisets are enumerated without repetition)."
)
ASSUMPTIONS = [
    "real-valued margins, offsets, coordinates and cell widths come from finite alphabets (edge hits, exact ties, non-integer multiples, out-of-domain values, one VERIF_SEED value per kind)",
    "constraints act on one primary axis (each of x,y,z in turn, so N=6,7,8) plus one secondary axis for the multi-axis / cross-axis entries",
    "anchor tolerance on non-uniform axes is half of the largest cell of the axis (conservative)",
]
VOL = (6, 7, 8)
SP = 50e-9
CONF_TEMPLATES = (0, 3)


def _grids(tier):
    return ["uniform", "rect_distinct"] + (["rect_seed"] if tier == "thorough" else [])


def _n_alpha(with_c):
    from mc.oracles import placement as P

    return len(P.alphabet(0, VOL[0], SP, 0, with_c=with_c))


def cases(tier, seed):
    from mc.oracles import placement as P

    out = []
    kmax = 2 if tier == "quick" else 3
    variants = [(False, kmax)] + ([(True, 2)] if tier == "thorough" else [])
    for k in range(0, kmax + 1):
        for with_c, km in variants:
            if k > km:
                continue
            n_alpha = _n_alpha(with_c)
            n_t = len(P.templates(0, SP, with_c=with_c))
            for grid in _grids(tier):
                for ax in range(3):
                    for ti in range(n_t):
                        firsts = [None] if k <= 1 else list(range(n_alpha))
                        for first in firsts:
                            out.append(dict(grid=grid, ax=ax, tmpl=ti, k=k, first=first, with_c=with_c, seed=seed, conf=(k <= 1 and not with_c and ti in CONF_TEMPLATES)))
    # dependency chains v <- a <- b <- c (3-4 constraints, objects a,b,c): every axis and grid
    for grid in _grids(tier):
        for ax in range(3):
            out.append(dict(grid=grid, ax=ax, tmpl=7, k=3, first=None, with_c=True, chain=True, seed=seed, conf=False))
    return out


def bounds(tier, seed):
    return {
        "volume": VOL,
        "grids": _grids(tier),
        "primary_axis": [0, 1, 2],
        "alphabet_size": _n_alpha(False),
        "alphabet_size_with_third_object": _n_alpha(True) if tier == "thorough" else None,
        "multiset_size": "<=2" if tier == "quick" else "<=3 (objects a,b); <=2 with a third object c",
        "object_templates": "a in {no size, grid 2, real 2.5 cells} x b in {no size, grid 3} (x c in {no size, grid 1})",
        "place_objects_conformance": "all systems with <=1 entry on templates 0 and 3",
        "chains": "4 dependency chains over three objects (v <- a <- b <- c, 3-4 constraints) per axis and grid",
        "seed": seed,
    }


def systems_of(case):
    """The constraint systems of one case (shared with C27)."""
    from mc.oracles import placement as P

    ax = case["ax"]
    if case.get("chain"):
        for i, s in enumerate(P.chain_systems(ax, VOL, case["grid"], SP, case["seed"])):
            yield ("chain", i), s
        return
    A = P.alphabet(ax, VOL[ax], SP, case["seed"], with_c=case["with_c"])
    tmpl = P.templates(ax, SP, with_c=case["with_c"])[case["tmpl"]]
    k = case["k"]
    if k == 0:
        sets = [()]
    elif k == 1:
        sets = [(i,) for i in range(len(A))]
    else:
        sets = [ms for ms in P.multisets(len(A), case["first"], k) if len(ms) == k]
    for ms in sets:
        s = P.make_system(VOL, case["grid"], SP, case["seed"], tmpl, [A[i] for i in ms])
        if s is not None:
            yield ms, s


def place_conformance(P, system, objs, cons, cfg_raw, ok, slices):
    """Push the same lists through the public place_objects; returns a failure dict or None."""
    import jax

    from mc import guard

    fdtdx = guard.import_fdtdx()
    try:
        oc, _arrays, _params, _cfg, _info = fdtdx.place_objects(objs, cfg_raw, cons, key=jax.random.PRNGKey(0))
    except ValueError as e:
        if "Failed to resolve object constraints" in str(e):
            if ok:
                return dict(sig="place_objects-rejects-what-resolver-accepts", detail=dict(system=P.describe(system), error=str(e)[:300]))
            return None
        return dict(sig="place_objects-unexpected-ValueError", detail=dict(system=P.describe(system), error=str(e)[:300]))
    if not ok:
        return dict(sig="place_objects-accepts-what-resolver-rejects", detail=dict(system=P.describe(system)))
    got = {o.name: [list(ax) for ax in o.grid_slice_tuple] for o in oc.objects}
    if got != slices:
        return dict(sig="place_objects-slices-differ-from-resolver", detail=dict(system=P.describe(system), placed=got, resolved=slices))
    return None


def run_case(case):
    from mc.oracles import placement as P

    fails = {}
    outcome = {}
    evals = nontriv = 0

    def add(sig, detail, size):
        cur = fails.get(sig)
        if cur is None:
            fails[sig] = dict(sig=sig, detail=detail, _size=size, _count=1)
        else:
            cur["_count"] += 1
            if size < cur["_size"]:
                cur.update(detail=detail, _size=size)

    for _ms, s in systems_of(case):
        objs, cons, cfg, cfg_raw = P.build(s)
        ok, slices, err = P.resolve(objs, cons, cfg)
        evals += 1
        size = len(s["constraints"]) + sum(x is not None for o in s["objects"] for x in o["rpos"] + o["gshape"] + o["rshape"])
        if ok:
            outcome["success"] = outcome.get("success", 0) + 1
            for f in P.judge(s, slices):
                if f["sig"].startswith("obs:"):
                    outcome[f["sig"]] = outcome.get(f["sig"], 0) + 1
                    continue
                # the signature names the failing input class: violated kind + the constraint kinds of the system it occurs in
                kinds = "+".join(sorted({c["k"] for c in s["constraints"]} | ({"own-rpos"} if any(x is not None for o in s["objects"] for x in o["rpos"]) else set())))
                sig = f["sig"] if (len(s["constraints"]) <= 1 or f["sig"].endswith("silently-clamped")) else f"{f['sig']}:in={kinds}:n={len(s['constraints'])}"
                add(sig, dict(f["detail"], system=P.describe(s), resolved=slices), size)
            if P.binds(s, slices):
                nontriv += 1
        else:
            outcome["rejected"] = outcome.get("rejected", 0) + 1
        if case.get("conf"):
            evals += 1
            f = place_conformance(P, s, objs, cons, cfg_raw, ok, slices)
            if f is not None:
                add(f["sig"], f["detail"], size)
    flist = []
    for f in sorted(fails.values(), key=lambda f: f["_size"]):
        d = dict(f["detail"])
        d["failing_systems_in_case"] = f["_count"]
        flist.append(dict(sig=f["sig"], detail=_plain(d)))
    return dict(ok=not flist, failures=flist, detail=dict(outcome), nontrivial=nontriv, evals=evals, outcome=outcome)


def _plain(x):
    import numpy as np

    if isinstance(x, dict):
        return {k: _plain(v) for k, v in x.items()}
    if isinstance(x, (list, tuple)):
        return [_plain(v) for v in x]
    if isinstance(x, np.generic):
        return x.item()
    return x
