"""C36 — dispersive cells follow their recurrence; passive media that placement accepts stay bounded.

(a) Engine E1 on the extended state (E, H, P_curr, P_prev). A scene with a dispersive block inside a non-dispersive
    background is tabulated on EVERY basis state; the table must equal the reference assembled from the documented
    recurrence  P' = c1 P + c2 P_prev + c3 E,  E' = E'_nondispersive - inv_eps * sum_p (P'_p - P_p),  H' = H - K E'
    where the non-dispersive blocks come from tabulating the same scene without dispersion. Zero-coefficient cells then
    evolve exactly like cells without dispersion.
(b) Closed 2x2x2 periodic cell filled with a Lorentz/Drude medium from a parameter grid straddling the coupled stability
    limit. Whenever place_objects accepts the medium without error or warning, the tabulated step matrix M is powered
    k = 1..10^4 and  sup over ALL initial fields of  energy(k)/energy(0) = || W^1/2 Pi M^k Pi^T W^-1/2 ||_2^2  must stay <= 10.
"""
import itertools
import warnings

import numpy as np

ID = "C36"
LEVEL = "model_checking"
MANIFEST = {
    "engine": "E1-linsys",
    "technique": "explicit-state model checking: extended-state transition table (all basis states of E,H,P,P_prev) compared with the documented recurrence; matrix powers M^k, k<=10^4, bound the energy gain over all initial fields for every accepted medium of a parameter grid",
    "text": "The dispersive step is tabulated on every basis state of the extended state and compared entrywise with the reference built from the documented ADE recurrence and the non-dispersive table (so zero-coefficient cells are exactly non-dispersive). For every Lorentz/Drude medium of a grid of (omega0*dt, strength, damping, eps_inf, Courant factor) that placement accepts silently, the powers of the tabulated step matrix of a closed periodic cell give the exact worst-case energy gain over all initial fields for each of 10^4 steps.",
    "note": "Closed cell 2x2x2 (contains the Nyquist mode, the worst case of the coupled scheme); parameters from a finite grid straddling the analytic coupled limit; coefficients c1..c3 are read from the placed arrays (their correctness is C35).",
}
RULE = (
    "part a: case = (faces, dispersive block, pole set, background); all basis states of (E,H,P_curr,P_prev). part b: case = medium from the "
    "parameter grid x Courant factor; all 10^4 powers. Non-trivial (a) = block has non-zero c3 and the table differs from the non-dispersive one; "
    "(b) = medium accepted by placement and coupling non-zero; distinct = distinct parameter tuples."
)
ASSUMPTIONS = ["float64 representative of float32", "pole parameters from a finite grid", "uniform grid for the stability part"]
TOL = 1e-9
C0 = 299792458.0
SP = 50e-9
GROWTH_LIMIT = 10.0
KMAX = 10000


def _dt(cf):
    return cf / np.sqrt(3.0) * SP / C0


def cases(tier, seed):
    out = []
    # ---- part a
    poles_a = [
        [dict(kind="lorentz", w0dt=0.3, gdt=0.05, de=1.5)],
        [dict(kind="drude", wpdt=0.4, gdt=0.1)],
        [dict(kind="lorentz", w0dt=0.2, gdt=0.0, de=0.7), dict(kind="drude", wpdt=0.25, gdt=0.02)],
        [dict(kind="lorentz", w0dt=[0.3, 0.2, 0.25], gdt=[0.05, 0.0, 0.1], de=[1.5, 0.0, 0.8])],
    ]
    faces_a = [["periodic", "periodic", "periodic"], ["none", "periodic", "none"]]
    for pi, p in enumerate(poles_a):
        for fi, f in enumerate(faces_a):
            if tier == "quick" and fi == 1 and pi in (1, 3):
                continue
            out.append(dict(part="a", poles=p, faces=f, eps_inf=[2.0, 1.0][pi % 2], bg_eps=1.5, seed=seed))
    # ---- part b
    cfs = [0.5, 0.9, 0.99]
    if tier == "quick":
        w0s, des, gs, einfs = [0.1, 0.5, 1.0, 1.5, 1.9], [0.0, 0.5, 2.0, 5.0], [0.0, 0.1], [1.0, 2.25]
        wps = [0.1, 0.5, 1.0, 1.9]
    else:
        w0s, des, gs, einfs = [0.01, 0.1, 0.3, 0.5, 1.0, 1.5, 1.9, 1.999], [0.0, 0.1, 0.5, 1.0, 2.0, 5.0, 20.0], [0.0, 0.01, 0.1, 1.0, 2.0], [1.0, 2.25, 12.0]
        wps = [0.01, 0.1, 0.3, 0.5, 1.0, 1.5, 1.9, 3.0]
    for cf in cfs:
        for einf in einfs:
            for g in gs:
                for w0 in w0s:
                    for de in des:
                        out.append(dict(part="b", cf=cf, eps_inf=einf, poles=[dict(kind="lorentz", w0dt=w0, gdt=g, de=de)], seed=seed))
                for wp in wps:
                    out.append(dict(part="b", cf=cf, eps_inf=einf, poles=[dict(kind="drude", wpdt=wp, gdt=g)], seed=seed))
    # pole sets that placement must reject (omega0*dt >= 2), also hidden behind zero-strength entries or on one axis only
    bad = [
        [dict(kind="lorentz", w0dt=2.5, gdt=0.1, de=1.0)],
        [dict(kind="lorentz", w0dt=0.3, gdt=0.1, de=0.0), dict(kind="lorentz", w0dt=2.5, gdt=0.1, de=1.0)],
        [dict(kind="lorentz", w0dt=[2.5, 2.5, 2.5], gdt=[0.1, 0.1, 0.1], de=[0.0, 1.0, 1.0])],
        [dict(kind="lorentz", w0dt=[0.3, 2.5, 0.3], gdt=[0.1, 0.1, 0.1], de=[1.0, 1.0, 0.0])],
        [dict(kind="drude", wpdt=0.2, gdt=0.1), dict(kind="lorentz", w0dt=2.2, gdt=0.0, de=0.5)],
        [dict(kind="lorentz", w0dt=2.5, gdt=0.1, de=0.0)],  # zero coupling: exempt, stays exactly non-dispersive
    ]
    for cf in (0.99, 0.5):
        for p in bad:
            out.append(dict(part="b", cf=cf, eps_inf=1.0, poles=p, seed=seed))
    return out


def bounds(tier, seed):
    return {
        "part_a": "4 pole sets (Lorentz, Drude, two poles, per-axis) x 2 face sets; all basis states of (E,H,P_curr,P_prev) on a 3x3x4 domain with a 2x1x2 dispersive block",
        "part_b": "Lorentz grid (omega0*dt, delta_eps, gamma*dt, eps_inf) and Drude grid (omega_p*dt, gamma*dt, eps_inf) x Courant factor {0.5,0.9,0.99} on a closed 2x2x2 periodic cell; powers k=1..10^4; plus pole sets with omega0*dt>=2 that placement must reject",
        "growth_limit": GROWTH_LIMIT,
        "tolerance": TOL,
    }


def make_material(case, dt):
    import fdtdx

    def ax(v, f):
        return tuple(f(x) for x in v) if isinstance(v, (list, tuple)) else f(v)

    poles = []
    for p in case["poles"]:
        if p["kind"] == "lorentz":
            poles.append(fdtdx.LorentzPole(resonance_frequency=ax(p["w0dt"], lambda x: x / dt), damping=ax(p["gdt"], lambda x: x / dt), delta_epsilon=ax(p["de"], float)))
        else:
            poles.append(fdtdx.DrudePole(plasma_frequency=ax(p["wpdt"], lambda x: x / dt), damping=ax(p["gdt"], lambda x: x / dt)))
    return fdtdx.Material(permittivity=case["eps_inf"], dispersion=fdtdx.DispersionModel(poles=tuple(poles)))


def run_case(case):
    from mc import guard

    guard.import_fdtdx()
    return run_a(case) if case["part"] == "a" else run_b(case)


# ------------------------------------------------------------------------------------------------ part a
def run_a(case):
    from mc import linsys, scenes
    import fdtdx

    shape = [3, 3, 4]
    dt = _dt(0.99)
    mat = make_material(case, dt)
    blk = fdtdx.UniformMaterialObject(name="blk", partial_grid_shape=(2, 1, 2), material=mat)
    blk_n = fdtdx.UniformMaterialObject(name="blk", partial_grid_shape=(2, 1, 2), material=fdtdx.Material(permittivity=case["eps_inf"]))
    base = dict(shape=shape, faces=scenes.faces_from_axes(case["faces"]), steps=4, seed=case["seed"], vol_material=dict(permittivity=case["bg_eps"]))

    def build(obj):
        cons = [obj.set_grid_coordinates(axes=(0, 1, 2), sides=("-", "-", "-"), coordinates=(1, 1, 1))]
        return scenes.build(dict(base, _extra_objects=[(obj, cons)]))

    scD, scN = build(blk), build(blk_n)
    assert abs(scD.config.time_step_duration - dt) < 1e-12 * dt
    cD, cN = linsys.Codec(scD.arrays), linsys.Codec(scN.arrays)
    nD, nN = cD.n, cN.n
    FD = linsys.Stepper(scD, cD, "forward", nD + 1 + 36)
    FN = linsys.Stepper(scN, cN, "forward", nN + 1 + 36)
    blockD = list(range(0, nD, max(1, nD // 8)))[:8]
    MD, bD, dA, ev1 = FD.tabulate(0, blockD)
    MN, bN, dB, ev2 = FN.tabulate(0, list(range(0, nN, max(1, nN // 8)))[:8])
    fails = []
    if max(dA, dB) > TOL:
        fails.append(dict(sig="step-not-affine", detail=dict(d=dA, n=dB)))
    ncell = int(np.prod(shape))
    nf = 3 * ncell
    a = scD.arrays
    c1, c2, c3 = (np.asarray(x, dtype=np.float64) for x in (a.dispersive_c1, a.dispersive_c2, a.dispersive_c3))
    npoles = c1.shape[0]

    def full(c):  # (npoles, 1|3, ...) -> (npoles, 3*ncell)
        return np.broadcast_to(c, (npoles, 3, *shape)).reshape(npoles, nf)

    C1, C2, C3 = full(c1), full(c2), full(c3)
    inv_eps = np.broadcast_to(np.asarray(a.inv_permittivities), (3, *shape)).reshape(nf)
    loP, hiP, _ = cD.slot_range(("P_curr",))
    loQ, hiQ, _ = cD.slot_range(("P_prev",))
    assert (loP, hiP - loP) == (2 * nf, npoles * nf)
    # reference
    A_EE, A_EH, A_HE, A_HH = MN[:nf, :nf], MN[:nf, nf:], MN[nf:, :nf], MN[nf:, nf:]
    Kmat = -A_HE  # H' = H - K E'   (A_EE = I in a lossless wall-free scene, checked)
    d_id = float(np.max(np.abs(A_EE - np.eye(nf))))
    ref = np.zeros((nD, nD))
    I = np.eye(nf)
    # P' and P_prev'
    for p in range(npoles):
        rP = slice(loP + p * nf, loP + (p + 1) * nf)
        rQ = slice(loQ + p * nf, loQ + (p + 1) * nf)
        ref[rP, rP] = np.diag(C1[p])
        ref[rP, rQ] = np.diag(C2[p])
        ref[rP, 0:nf] = np.diag(C3[p])
        ref[rQ, rP] = I
    # delta = -inv_eps * sum_p (P'_p - P_p)
    delta = np.zeros((nf, nD))
    for p in range(npoles):
        rP = slice(loP + p * nf, loP + (p + 1) * nf)
        delta -= inv_eps[:, None] * (ref[rP, :] - np.eye(nD)[rP, :])
    ref[0:nf, 0:nf] = A_EE
    ref[0:nf, nf : 2 * nf] = A_EH
    ref[0:nf, :] += delta
    ref[nf : 2 * nf, 0:nf] = A_HE
    ref[nf : 2 * nf, nf : 2 * nf] = A_HH
    ref[nf : 2 * nf, :] -= Kmat @ delta
    d = float(np.max(np.abs(MD - ref))) / max(1.0, float(np.max(np.abs(ref))))
    zero_cells = np.all(C3 == 0, axis=0) & np.all(C1 == 0, axis=0) & np.all(C2 == 0, axis=0)
    # zero-coefficient cells: rows of E' for those cells must equal the non-dispersive rows exactly (no P dependence)
    # zero-coefficient cells never acquire polarization: their P_curr rows of the table vanish identically, so with the
    # polarization starting at zero (reset/placement) their E update is exactly the non-dispersive one
    dz = 0.0
    for p in range(npoles):
        rowsP = np.arange(loP + p * nf, loP + (p + 1) * nf)[zero_cells]
        if rowsP.size:
            dz = max(dz, float(np.max(np.abs(MD[rowsP, :]))))
    Ez_rows = np.arange(nf)[zero_cells]
    dz = max(dz, float(np.max(np.abs(MD[np.ix_(Ez_rows, np.arange(2 * nf))] - MN[np.ix_(Ez_rows, np.arange(2 * nf))]))) if Ez_rows.size else 0.0)
    detail = dict(table_vs_recurrence=d, AEE_identity_defect=d_id, zero_cell_P_dependence=dz, npoles=npoles, n=nD, nonzero_c3=int(np.count_nonzero(C3)), offsets=float(np.max(np.abs(bD))))
    if d_id > TOL:
        fails.append(dict(sig="harness:nondispersive-E-block-not-identity", detail=detail))
    if d > TOL:
        fails.append(dict(sig="dispersive-table-differs-from-documented-recurrence", detail=detail))
    if dz > 0:
        fails.append(dict(sig="zero-coefficient-cell-not-like-non-dispersive", detail=detail))
    if float(np.max(np.abs(bD))) > 0:
        fails.append(dict(sig="nonzero-offset-without-sources", detail=detail))
    nontriv = np.count_nonzero(C3) > 0 and float(np.max(np.abs(MD[: 2 * nf, : 2 * nf] - MN))) > 1e-6
    return dict(ok=not fails, failures=fails, detail=detail, nontrivial=int(nontriv), evals=ev1 + ev2, states=ev1 + ev2, transitions=ev1 + ev2, traces=0, outcome="a")


# ------------------------------------------------------------------------------------------------ part b
def coupled_limit_value(case):
    """Analytic worst-case (Nyquist mode, gamma=0) value; the coupled scheme is stable iff value <= 4."""
    cf, einf = case["cf"], case["eps_inf"]
    worst = 0.0
    for axis in range(3):
        v = 4.0 * cf * cf / einf
        for p in case["poles"]:
            g = lambda x: (x[axis] if isinstance(x, (list, tuple)) else x)  # noqa: E731
            if p["kind"] == "lorentz":
                w0, de = g(p["w0dt"]), g(p["de"])
                v += w0 * w0 * de / einf
                v = max(v, 0.0)
                worst = max(worst, w0 * w0 if de != 0 else 0.0)
            else:
                wp = g(p["wpdt"])
                v += wp * wp / einf
        worst = max(worst, v)
    # single-pole Lorentz: omega0^2 dt^2 (1 + de/einf) + 4 cf^2/einf
    if len(case["poles"]) == 1 and case["poles"][0]["kind"] == "lorentz" and not isinstance(case["poles"][0]["w0dt"], (list, tuple)):
        p = case["poles"][0]
        return p["w0dt"] ** 2 * (1 + p["de"] / einf) + 4 * cf * cf / einf
    return worst


def run_b(case):
    from mc import linsys, scenes
    import fdtdx
    import logging

    cf = case["cf"]
    dt = _dt(cf)
    mat = make_material(case, dt)
    spec = dict(shape=[2, 2, 2], faces=scenes.faces_from_axes(["periodic"] * 3), steps=4, seed=case["seed"], courant=cf)
    spec["vol_material_obj"] = mat
    accepted, msg = True, ""
    wlist = []
    logs = []

    class H(logging.Handler):
        def emit(self, record):
            if record.levelno >= logging.WARNING:
                logs.append(record.getMessage())

    try:
        from loguru import logger as _lg

        sink_id = _lg.add(lambda m: logs.append(str(m)), level="WARNING")
    except Exception:
        sink_id = None
    try:
        with warnings.catch_warnings(record=True) as w:
            warnings.simplefilter("always")
            try:
                sc = scenes.build(spec)
            except Exception as e:
                accepted, msg = False, repr(e)[:300]
            wlist = [str(x.message) for x in w if "dispers" in str(x.message).lower() or "pole" in str(x.message).lower() or "stab" in str(x.message).lower()]
    finally:
        if sink_id is not None:
            _lg.remove(sink_id)
    logs = [l for l in logs if "dispers" in l.lower() or "pole" in l.lower() or "stab" in l.lower()]
    lim = coupled_limit_value(case)
    has_bad_pole = any(
        (max(p["w0dt"]) if isinstance(p["w0dt"], (list, tuple)) else p["w0dt"]) >= 2.0 for p in case["poles"] if p["kind"] == "lorentz"
    )
    active_bad = False
    for p in case["poles"]:
        if p["kind"] != "lorentz":
            continue
        w = p["w0dt"] if isinstance(p["w0dt"], (list, tuple)) else [p["w0dt"]] * 3
        d = p["de"] if isinstance(p["de"], (list, tuple)) else [p["de"]] * 3
        if any(wi >= 2.0 and di != 0 for wi, di in zip(w, d)):
            active_bad = True
    detail = dict(accepted=accepted, warnings=wlist[:2] + logs[:2], reject_msg=msg, coupled_limit_value=lim, cf=cf)
    if not accepted or wlist or logs:
        # not silently accepted: outside the property's promise. (An active pole with omega0*dt>=2 MUST land here.)
        return dict(ok=True, detail=detail, nontrivial=0, evals=1, states=1, transitions=1, traces=0, outcome="rejected" if not accepted else "warned")
    assert abs(sc.config.time_step_duration - dt) < 1e-12 * dt
    codec = linsys.Codec(sc.arrays)
    n = codec.n
    F = linsys.Stepper(sc, codec, "forward", n + 1)
    M, b, _, ev = F.tabulate(0, [])
    nf = 24
    inv_eps = np.broadcast_to(np.asarray(sc.arrays.inv_permittivities), (3, 2, 2, 2)).reshape(nf)
    # Field energy = the discrete Yee energy form of C01 for the same grid, eps_inf and time step, i.e. the quadratic form on
    # (E,H) that the NON-dispersive scheme conserves exactly:  Q_N = sym(ME_N^T eps ME_N + [0; MH_N]) with M_N the tabulated
    # non-dispersive step. It is positive definite below the Courant limit and free of the Nyquist-mode artefact of
    # eps|E|^2+|H|^2 (which swings by (1+cf)/(1-cf) even in vacuum), and it does not involve the dispersive first step.
    spec_n = dict(spec)
    spec_n["vol_material_obj"] = fdtdx.Material(permittivity=case["eps_inf"])
    scN = scenes.build(spec_n)
    cN = linsys.Codec(scN.arrays)
    MN, _, _, evn = linsys.Stepper(scN, cN, "forward", cN.n + 1).tabulate(0, [])
    ev += evn
    QN = MN[:nf, :].T @ ((1.0 / inv_eps)[:, None] * MN[:nf, :])
    Bn = np.zeros((2 * nf, 2 * nf))
    Bn[nf:, :] = MN[nf:, :]
    QN = QN + 0.5 * (Bn + Bn.T)
    conserved_defect = float(np.max(np.abs(MN.T @ QN @ MN - QN))) / float(np.max(np.abs(QN)))
    Qf = np.zeros((n, n))
    Qf[: 2 * nf, : 2 * nf] = QN
    Pi = np.zeros((n, 2 * nf))
    Pi[: 2 * nf, : 2 * nf] = np.eye(2 * nf)  # initial states: arbitrary fields, zero polarization
    A0 = QN
    energy_form = "yee-form-of-the-non-dispersive-scheme"
    detail["baseline_conservation_defect"] = conserved_defect
    L = np.linalg.cholesky(0.5 * (A0 + A0.T))
    Li = np.linalg.inv(L)
    Pk = Pi.copy()
    worst, worst_k = 0.0, 0
    blew = False
    for k in range(1, KMAX + 1):
        Pk = M @ Pk
        if k <= 64 or k % 16 == 0 or k == KMAX:
            if not np.all(np.isfinite(Pk)):
                worst, worst_k, blew = float("inf"), k, True
                break
            Ak = Pk.T @ Qf @ Pk
            g = float(np.max(np.linalg.eigvalsh(Li @ (0.5 * (Ak + Ak.T)) @ Li.T)))
            if g > worst:
                worst, worst_k = g, k
            if g > 1e12:
                blew = True
                break
    detail["energy_form"] = energy_form
    rho = float(np.max(np.abs(np.linalg.eigvals(M))))
    detail.update(max_energy_gain=worst, at_step=worst_k, spectral_radius=rho, steps_checked=k)
    fails = []
    if worst > GROWTH_LIMIT:
        kinds = "+".join(sorted({p["kind"] for p in case["poles"]}))
        mode = "exponential" if (blew or rho > 1.0 + 1e-6) else "bounded-transient"
        if active_bad:
            cls = "active-pole-with-omega0dt>=2"
        elif lim > 4.0 * (1 + 1e-9):
            cls = f"{mode}:beyond-coupled-limit:{kinds}"
        else:
            cls = f"{mode}:within-coupled-limit:{kinds}:limit-value{'>=3.9' if lim >= 3.9 else '<3.9'}-of-4"
        fails.append(dict(sig=f"accepted-medium-grows:{cls}", detail=detail))
    coupling = float(np.max(np.abs(M[: 2 * nf, 2 * nf :]))) > 0
    return dict(ok=not fails, failures=fails, detail=detail, nontrivial=int(coupling), evals=ev + k, states=ev, transitions=ev + k, traces=0, outcome="accepted-bounded" if not fails else "accepted-grows")
