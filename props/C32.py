"""C32 — symmetry unfolding is consistent.

Engine E1 (linear maps, exact): `unfold_fields` and `unfold_detector_states` are linear in the array they unfold, so
they are tabulated on every basis array and compared *exactly* (entries 0, +-1) with an independent parity / mirror
index table written from the documentation:
  (A) unfold_fields for all 26 non-zero symmetry tuples x reduced shapes {1,2,3}^3 x E/H: doubled shape, upper half =
      input, lower half = documented parity and index map (one-to-one flip; pairs m+-j with the outermost sample
      repeating its neighbour for components sampled on an electric plane).
  (B) unfold_detector_states for all 26 tuples in scenes built by place_objects, every detector kind x component
      subsets x reduce flags x raw/exact x boxes (straddling, clipped asymmetrically, merely touching the plane):
      spatial records against the table; reduced records: unfold(reduce_half(s)) == reduce_full(unfold(s)) as a matrix
      identity on all basis arrays s of the spatial record whenever no stored sample sits on a plane.
"""
import itertools

import numpy as np

ID = "C32"
LEVEL = "exploration"
MANIFEST = {
    "engine": "E1-linsys (exact, linear maps)",
    "technique": "bounded exhaustive exploration: tabulation of the real unfold_fields / unfold_detector_states on all basis arrays for all 26 non-zero symmetry tuples, exact comparison with an independent parity and mirror-index table",
    "text": "All 26 non-zero symmetry tuples: (A) unfold_fields on every basis array of every reduced shape in {1,2,3}^3 for E and H against the documented per-component parity and index map; (B) in placed symmetric scenes, unfold_detector_states for Field/Phasor/Energy/PoyntingFlux (and the closed-surface / phasor-Poynting kinds) x component subsets x reduce flags x raw/exact interpolation x straddling/clipped/touching boxes, spatial records against the table and reduced records against the reduction of the unfolded spatial record when no stored sample sits on a plane.",
    "note": "Exact comparison (matrix entries 0,+-1; reductions to 1e-12). Grid widths from finite alphabets (uniform, mirror-symmetric all-distinct).",
}
RULE = (
    "(A) case = symmetry tuple; elements = (reduced shape, field type), each tabulated on all 3*nx*ny*nz basis arrays; non-trivial "
    "when at least one component is odd or mapped on-plane. (B) case = (symmetry tuple, grid); elements = detectors of the menu, each "
    "tabulated on all basis arrays of its stored state; non-trivial when the detector straddles at least one plane."
)
ASSUMPTIONS = [
    "grid widths come from finite alphabets (uniform, mirror-symmetric all-distinct, VERIF_SEED)",
    "unfolding is linear in the stored array (checked: zero array -> zero, tabulated on all basis arrays and on one dense array)",
]
ALL = ("Ex", "Ey", "Ez", "Hx", "Hy", "Hz")
SUBSETS_Q = [ALL, ("Ex",), ("Ey", "Hx", "Hz"), ("Ez", "Hz"), ("Ex", "Ey", "Ez"), ("Hy",), ("Ey", "Ez", "Hx"), ("Ex", "Hy", "Hz")]


def _all_subsets():
    out = []
    for r in range(1, 7):
        for c in itertools.combinations(range(6), r):
            out.append(tuple(ALL[i] for i in c))
    return out


def _tuples():
    return [t for t in itertools.product((-1, 0, 1), repeat=3) if any(t)]


def cases(tier, seed):
    out = []
    tps = sorted(_tuples(), key=lambda t: (sum(1 for v in t if v), t))
    for t in tps:
        out.append(dict(part="fields", sym=t, seed=seed))
    grids = ["uniform", "distinct"] + (["seed"] if seed else [])
    for g in grids:
        for k, t in enumerate(tps):
            if tier == "quick" and g != "uniform" and k % 2:
                continue  # quick: non-uniform widths on every other tuple (they only enter the reduced-value identities)
            out.append(dict(part="detectors", sym=t, grid=g, tier=tier, seed=seed))
    return out


def bounds(tier, seed):
    return {
        "symmetry_tuples": 26,
        "fields": {"reduced_shapes": "{1,2,3}^3", "field_types": ["E", "H"], "basis": "all 3*nx*ny*nz basis arrays + one dense array"},
        "detectors": {
            "kinds": ["FieldDetector", "PhasorDetector", "EnergyDetector (spatial/reduced/slices)", "PoyntingFluxDetector (planes normal to each axis, thick box)", "ClosedSurfacePoyntingFluxDetector", "PhasorPoyntingFluxDetector", "ClosedSurfacePhasorPoyntingFluxDetector"],
            "component_subsets": "5 (quick) / all 63 (thorough) for Field; 3 for Phasor",
            "flags": "reduce_volume, exact_interpolation, direction, keep_all_components",
            "boxes": ["whole domain (straddles every plane)", "clipped asymmetrically", "starts on the plane (not clipped)"],
            "grids": ["uniform", "mirror-symmetric distinct widths"] + (["seed widths"] if seed else []),
        },
        "seed": seed,
    }


# ------------------------------------------------------------------------------------------------ part A
def _run_fields(case):
    from mc import guard
    from mc.oracles import detectors as O

    fdtdx = guard.import_fdtdx()
    import jax
    import jax.numpy as jnp

    sym = tuple(case["sym"])
    fails = {}
    evals = nontriv = 0
    outcomes = {}

    def fail(sig, detail):
        fails.setdefault(sig, dict(sig=sig, detail=detail))

    for shape in itertools.product((1, 2, 3), repeat=3):
        for ft in ("E", "H"):
            n = 3 * int(np.prod(shape))
            # expected matrix: per component (block), per symmetric axis sign and index map
            blocks = []
            full_shape = None
            onp_any = False
            for c in range(3):
                specs = {}
                for a in range(3):
                    if sym[a]:
                        onp = sym[a] == -1 and O.sits_on_plane(ft, c, a)
                        onp_any |= onp
                        specs[a] = (float(O.parity(ft, c, a, sym[a])), onp)
                M, fs = O.unfold_matrix(shape, specs)
                blocks.append(M)
                full_shape = fs
            nf = int(np.prod(full_shape))
            Mexp = np.zeros((3 * nf, n))
            for c in range(3):
                Mexp[c * nf : (c + 1) * nf, c * (n // 3) : (c + 1) * (n // 3)] = blocks[c]
            single = [a for a in range(3) if sym[a] == -1 and shape[a] == 1]
            cls = f"{ft}:{'electric' if -1 in sym else 'magnetic'}:{'single-row-on-plane-axis' if single else 'n>=2'}"
            desc = dict(sym=sym, shape=shape, field_type=ft)
            X = np.concatenate([np.zeros((1, n)), np.eye(n), (np.mod(0.173 + np.arange(n) * 0.6180339887498949, 1.0) - 0.5)[None]], axis=0)
            evals += X.shape[0]
            try:
                with jax.disable_jit():
                    out = np.asarray(jax.vmap(lambda v: fdtdx.unfold_fields(v.reshape(3, *shape), sym, ft))(jnp.asarray(X)))
            except Exception as e:
                fail(f"unfold_fields:raises:{type(e).__name__}:{cls}", dict(desc, error=repr(e)[:200]))
                continue
            if tuple(out.shape[1:]) != (3, *full_shape):
                fail(f"unfold_fields:shape-not-doubled:{cls}", dict(desc, got=list(out.shape[1:]), expected=[3, *full_shape]))
                continue
            got = out.reshape(X.shape[0], -1)
            if np.max(np.abs(got[0])) != 0:
                fail("unfold_fields:zero-not-mapped-to-zero", desc)
            Mgot = got[1 : n + 1].T
            # upper half returns the input
            up = out
            for a in range(3):
                if sym[a]:
                    up = np.take(up, np.arange(shape[a], 2 * shape[a]), axis=2 + a)
            if not np.array_equal(up.reshape(X.shape[0], -1), X):
                fail(f"unfold_fields:upper-half-differs-from-input:{cls}", desc)
            if not np.array_equal(Mgot, Mexp):
                bad = np.argwhere(Mgot != Mexp)[0]
                row = int(bad[0])
                comp = row // nf
                fail(f"unfold_fields:lower-half-parity-or-index-map:{cls}", dict(desc, component=comp, full_index=[int(v) for v in np.unravel_index(row % nf, full_shape)], got_row=Mgot[row].tolist(), expected_row=Mexp[row].tolist()))
            if not np.array_equal(got[-1], Mexp @ X[-1]):
                fail("unfold_fields:not-linear", desc)
            nontriv += int(onp_any or np.any(Mexp < 0))
            outcomes["on-plane" if onp_any else "flip-only"] = outcomes.get("on-plane" if onp_any else "flip-only", 0) + 1
    return dict(ok=not fails, failures=list(fails.values()), nontrivial=nontriv, evals=evals, outcome=outcomes, detail=dict(elements=54))


# ------------------------------------------------------------------------------------------------ part B
def _scene(case):
    """Full-domain scene with config.symmetry; reduced axes have 2 cells (3 on the first symmetric axis), others 3."""
    from mc.oracles import det_scenes as DS

    sym = tuple(case["sym"])
    first = [a for a in range(3) if sym[a]][0]
    red = tuple((3 if a == first else 2) if sym[a] else 3 for a in range(3))
    full = tuple(2 * red[a] if sym[a] else red[a] for a in range(3))
    widths_red = []
    edges = []
    for a in range(3):
        if case["grid"] == "uniform":
            w = np.full(red[a], DS.SP)
        else:
            w = DS.distinct_widths(red[a], a, case["seed"], "rect_distinct" if case["grid"] == "distinct" else "rect_seed")
        widths_red.append(w)
        wf = np.concatenate([w[::-1], w]) if sym[a] else w
        e = np.concatenate([[0.0], np.cumsum(wf)])
        edges.append((e - 0.5 * e[-1]).tolist())
    spec = dict(shape=full, steps=1, faces={}, seed=case["seed"], symmetry=sym, grid="uniform" if case["grid"] == "uniform" else {"edges": edges})
    return spec, red, full, widths_red


def _boxes(sym, red, full):
    """(tag, full-domain box). m = plane index on symmetric axes."""
    whole = [[0, full[a]] for a in range(3)]
    touch = [[red[a], full[a]] if sym[a] else [0, full[a]] for a in range(3)]
    clip = [[red[a] - 1, full[a]] if sym[a] else [1, full[a]] for a in range(3)]
    return [("whole", whole), ("clipped", clip), ("touching", touch)]


def _menu(case, sym, red, full):
    tier = case["tier"]
    dets = []
    waves = [{"wavelength": 4.1e-7}, {"wavelength": 7.7e-7}]
    subsets = SUBSETS_Q[:5] if tier == "quick" else _all_subsets()
    for tag, box in _boxes(sym, red, full):
        for ex in (True, False):
            e = "x" if ex else "r"
            if tag == "touching" and tier == "quick":
                # not clipped -> must be returned unchanged: one detector of each kind
                dets.append(dict(kind="field", name=f"F_{tag}_{e}_0_0", box=box, exact_interpolation=ex, components=list(ALL), reduce_volume=False, pair=f"F_{tag}_{e}_0"))
                dets.append(dict(kind="energy", name=f"E_{tag}_{e}_1", box=box, exact_interpolation=ex, reduce_volume=True, pair=f"E_{tag}_{e}"))
                dets.append(dict(kind="poynting", name=f"S_{tag}_{e}_0_0", box=box, exact_interpolation=ex, direction="+", fixed_propagation_axis=0, reduce_volume=False, pair=f"S_{tag}_{e}_0"))
                continue
            subs = subsets if tag == "whole" else (SUBSETS_Q[:3] if tag == "clipped" else SUBSETS_Q[:1])
            for si, cs in enumerate(subs):
                for redv in (False, True):
                    dets.append(dict(kind="field", name=f"F_{tag}_{e}_{si}_{int(redv)}", box=box, exact_interpolation=ex, components=list(cs), reduce_volume=redv, pair=f"F_{tag}_{e}_{si}"))
            for si, cs in enumerate(SUBSETS_Q[:3] if tag == "whole" else SUBSETS_Q[2:3]):
                for redv in (False, True):
                    dets.append(dict(kind="phasor", name=f"P_{tag}_{e}_{si}_{int(redv)}", box=box, exact_interpolation=ex, components=list(cs), reduce_volume=redv, wave_characters=waves, pair=f"P_{tag}_{e}_{si}"))
            dets.append(dict(kind="energy", name=f"E_{tag}_{e}_0", box=box, exact_interpolation=ex, pair=f"E_{tag}_{e}"))
            dets.append(dict(kind="energy", name=f"E_{tag}_{e}_1", box=box, exact_interpolation=ex, reduce_volume=True, pair=f"E_{tag}_{e}"))
            dets.append(dict(kind="energy", name=f"E_{tag}_{e}_s", box=box, exact_interpolation=ex, as_slices=True, pair=f"E_{tag}_{e}"))
            # thick box with a fixed propagation axis
            for a in range(3):
                for redv in (False, True):
                    dets.append(dict(kind="poynting", name=f"S_{tag}_{e}_{a}_{int(redv)}", box=box, exact_interpolation=ex, direction="+" if a != 1 else "-", fixed_propagation_axis=a, reduce_volume=redv, pair=f"S_{tag}_{e}_{a}"))
    # plane detectors normal to each axis (in the kept half if that axis is symmetric), straddling the other planes
    for a in range(3):
        box = [[0, full[b]] for b in range(3)]
        pos = (red[a] if sym[a] else 0) + 1
        box[a] = [pos, pos + 1]
        for ex in (True, False):
            for redv in (False, True):
                dets.append(dict(kind="poynting", name=f"Sp_{a}_{'x' if ex else 'r'}_{int(redv)}", box=box, exact_interpolation=ex, direction="+", reduce_volume=redv, pair=f"Sp_{a}_{'x' if ex else 'r'}"))
    whole = [[0, full[a]] for a in range(3)]
    plane = [[0, full[b]] for b in range(3)]
    a0 = [a for a in range(3) if not sym[a]]
    pa = a0[0] if a0 else 2
    plane[pa] = [(red[pa] if sym[pa] else 0) + 1, (red[pa] if sym[pa] else 0) + 2]
    special = [
        dict(kind="closed", name="X_closed", box=whole, exact_interpolation=True),
        dict(kind="closed_phasor", name="X_closed_phasor", box=whole, exact_interpolation=True, wave_characters=waves),
        dict(kind="phasor_poynting", name="X_phasor_poynting", box=plane, exact_interpolation=True, wave_characters=waves, direction="+"),
        dict(kind="poynting", name="X_keepall", box=plane, exact_interpolation=True, direction="+", keep_all_components=True, reduce_volume=False, pair="Sk"),
        dict(kind="poynting", name="X_keepall_red", box=plane, exact_interpolation=True, direction="+", keep_all_components=True, reduce_volume=True, pair="Sk"),
    ]
    return dets, special


def _clip(box, sym, red):
    out, unr = [], []
    for a in range(3):
        s0, s1 = box[a]
        if sym[a]:
            m = red[a]
            out.append((max(s0, m) - m, s1 - m))
            unr.append((s0 - m, s1 - m))
        else:
            out.append((s0, s1))
            unr.append((s0, s1))
    return tuple(out), tuple(unr)


def _comp_spec(components):
    return [("E" if i < 3 else "H", i % 3) for i, nm in enumerate(ALL) if nm in components]


def _run_detectors(case):
    from mc import guard, scenes
    from mc.oracles import det_scenes as DS
    from mc.oracles import detectors as O

    fdtdx = guard.import_fdtdx()
    import jax
    import jax.numpy as jnp

    sym = tuple(case["sym"])
    spec, red, full, widths_red = _scene(case)
    menu, special = _menu(case, sym, red, full)
    fails = {}

    def fail(sig, detail):
        fails.setdefault(sig, dict(sig=sig, detail=detail))

    # special kinds may not even be placeable (see C16/C17 keep_all finding): add them one by one
    def strip(d):
        return {k: v for k, v in d.items() if k != "pair"}

    spec_ok = dict(spec, detectors=[strip(d) for d in menu])
    placed_special = []
    for d in special:
        try:
            trial = dict(spec, detectors=[strip(d)])
            DS.build(trial, check_boxes=False)
            placed_special.append(d)
        except Exception as e:
            fail(f"placement-raises:{d['kind']}:{'keep_all_components' if d.get('keep_all_components') else 'plain'}:{type(e).__name__}", dict(det=d["name"], error=repr(e)[:200]))
    spec_ok["detectors"] = spec_ok["detectors"] + [strip(d) for d in placed_special]
    sc = DS.build(spec_ok, check_boxes=False)
    if tuple(sc.objects.volume.grid_shape) != red:
        raise RuntimeError(f"harness: reduced volume {sc.objects.volume.grid_shape} != {red}")
    by_name = {d.name: d for d in sc.objects.detectors}
    cfgsym = tuple(sc.config.symmetry)
    if cfgsym != sym:
        raise RuntimeError("harness: config symmetry lost")
    evals = nontriv = 0
    outcomes = {}
    tab = {}
    base_arrays = sc.arrays.aset("detector_states", {})

    def tabulate(name):
        """matrix of the real unfold of detector `name` on all basis arrays of its stored state (dict key -> (M, shape))."""
        st = sc.arrays.detector_states[name]
        keys = sorted(st)
        sizes = [int(np.prod(st[k].shape)) for k in keys]
        n = sum(sizes)
        X = np.concatenate([np.zeros((1, n)), np.eye(n), (np.mod(0.173 + np.arange(n) * 0.6180339887498949, 1.0) - 0.5)[None]], axis=0)

        def f(v):
            s, o = {}, 0
            for k, sz in zip(keys, sizes):
                s[k] = v[o : o + sz].reshape(st[k].shape).astype(st[k].dtype)
                o += sz
            a = base_arrays.aset("detector_states", {name: s})
            return fdtdx.unfold_detector_states(a, sc.objects, sc.config).detector_states[name]

        with jax.disable_jit():
            out = jax.vmap(f)(jnp.asarray(X))
        return keys, sizes, X, {k: np.asarray(v) for k, v in out.items()}

    def widths_full(a):
        w = widths_red[a]
        return np.concatenate([w[::-1], w]) if sym[a] else w

    for d in menu + placed_special:
        name = d["name"]
        det = by_name.get(name)
        if det is None:
            fail("detector-dropped-by-reduction", dict(det=name))
            continue
        clipped, unr = _clip(d["box"], sym, red)
        if tuple(tuple(p) for p in det.grid_slice_tuple) != clipped or tuple(tuple(p) for p in det.unreduced_grid_slice_tuple) != unr:
            raise RuntimeError(f"harness: {name} placed at {det.grid_slice_tuple}/{det.unreduced_grid_slice_tuple}, expected {clipped}/{unr}")
        touched = tuple(sym[a] if unr[a][0] < 0 else 0 for a in range(3))
        ex = bool(d.get("exact_interpolation", True))
        onp_axes = tuple(a for a in (0, 1) if ex and touched[a] == -1)
        kind = d["kind"]
        cls = f"{kind}:{'exact' if ex else 'raw'}:{'reduced' if d.get('reduce_volume') else ('slices' if d.get('as_slices') else 'spatial')}:{'on-plane' if onp_axes else 'off-plane'}"
        desc = dict(det=name, sym=sym, touched=touched, box=d["box"], grid=case["grid"])
        try:
            keys, sizes, X, out = tabulate(name)
        except Exception as e:
            fail(f"unfold_detector_states:raises:{type(e).__name__}:{kind}", dict(desc, error=repr(e)[:200]))
            continue
        evals += X.shape[0]
        tab[name] = (keys, sizes, X, out)
        st = sc.arrays.detector_states[name]
        bshape = tuple(clipped[a][1] - clipped[a][0] for a in range(3))
        if not any(touched):
            for k in keys:
                if out[k].shape[1:] != st[k].shape or not np.array_equal(out[k].reshape(X.shape[0], -1), X[:, sum(sizes[: keys.index(k)]) : sum(sizes[: keys.index(k) + 1])]):
                    fail(f"unfold_detector_states:untouched-detector-changed:{kind}", desc)
            outcomes["untouched"] = outcomes.get("untouched", 0) + 1
            continue
        nontriv += 1
        outcomes[cls] = outcomes.get(cls, 0) + 1
        if d.get("reduce_volume") or kind in ("closed", "closed_phasor"):
            continue  # reduced: handled with its spatial partner below; closed-surface kinds: only required not to raise
        if kind == "phasor_poynting":
            kind = "phasor"
            d = dict(d, components=list(ALL))
        # ---- spatial records against the parity / index table
        if kind in ("field", "phasor"):
            cs = _comp_spec(d["components"])
            key = "fields" if kind == "field" else "phasor"
            arr_shape = st[key].shape
            comp_axis = 1 if kind == "field" else 2
            sp0 = comp_axis + 1
            specs = {}
            for a in range(3):
                if touched[a]:
                    sg = np.array([O.parity(ft, c, a, touched[a]) for ft, c in cs], dtype=np.float64)
                    shp = [1] * len(arr_shape)
                    shp[comp_axis] = len(cs)
                    specs[sp0 + a] = (sg.reshape(shp), a in onp_axes)
            Mexp, fs = O.unfold_matrix(arr_shape, specs)
            _cmp(fail, desc, cls, out[key], X, Mexp, fs)
        elif kind == "energy" and not d.get("as_slices"):
            arr_shape = st["energy"].shape
            specs = {1 + a: (1.0, a in onp_axes) for a in range(3) if touched[a]}
            Mexp, fs = O.unfold_matrix(arr_shape, specs)
            _cmp(fail, desc, cls, out["energy"], X, Mexp, fs)
        elif kind == "poynting" and d.get("keep_all_components"):
            arr_shape = st["poynting_flux"].shape  # (T, 3, nx, ny, nz)
            specs = {2 + a: (np.array([-1.0 if i == a else 1.0 for i in range(3)]).reshape(1, 3, 1, 1, 1), a in onp_axes) for a in range(3) if touched[a]}
            Mexp, fs = O.unfold_matrix(arr_shape, specs)
            _cmp(fail, desc, cls, out["poynting_flux"], X, Mexp, fs)
        elif kind == "poynting":
            arr_shape = st["poynting_flux"].shape
            pa = d.get("fixed_propagation_axis")
            if pa is None:
                pa = [a for a in range(3) if bshape[a] == 1][0]
            # Poynting vector is a polar vector: the component normal to a mirror is odd, the others even
            specs = {1 + a: (-1.0 if pa == a else 1.0, a in onp_axes) for a in range(3) if touched[a]}
            Mexp, fs = O.unfold_matrix(arr_shape, specs)
            _cmp(fail, desc, cls, out["poynting_flux"], X, Mexp, fs)
        elif kind == "energy":
            # slices: each plane is unfolded along its in-plane symmetric axes (energy density is even)
            o = 0
            planes = {"XY Plane": (0, 1), "XZ Plane": (0, 2), "YZ Plane": (1, 2)}
            for k, sz in zip(keys, sizes):
                arr_shape = st[k].shape
                specs = {1 + i: (1.0, a in onp_axes) for i, a in enumerate(planes[k]) if touched[a]}
                Mexp, fs = O.unfold_matrix(arr_shape, specs)
                Xk = X[:, o : o + sz]
                o += sz
                _cmp(fail, dict(desc, plane=k), cls, out[k], Xk, Mexp, fs, block=(sum(sizes), o - sz, sz))
    # ---- reduced records: unfold(reduce_half(s)) == reduce_full(unfold(s)) on all basis arrays s of the spatial record
    pairs = {}
    for d in menu + [x for x in placed_special if x.get("pair")]:
        pairs.setdefault(d["pair"], {})["red" if d.get("reduce_volume") else ("slices" if d.get("as_slices") else "sp")] = d
    for pid, grp in pairs.items():
        if "sp" not in grp or grp["sp"]["name"] not in tab:
            continue
        dsp = grp["sp"]
        clipped, unr = _clip(dsp["box"], sym, red)
        touched = tuple(sym[a] if unr[a][0] < 0 else 0 for a in range(3))
        if not any(touched):
            continue
        ex = bool(dsp.get("exact_interpolation", True))
        kind = dsp["kind"]
        if ex:
            on_plane = any(touched[a] == -1 for a in (0, 1))
        else:
            comps = _comp_spec(dsp.get("components", ALL)) if kind in ("field", "phasor") else [("E", 0), ("E", 1), ("E", 2), ("H", 0), ("H", 1), ("H", 2)]
            on_plane = any(touched[a] == -1 and O.sits_on_plane(ft, c, a) for ft, c in comps for a in range(3))
        keys, sizes, Xs, outs = tab[dsp["name"]]
        wh = [widths_red[a][clipped[a][0] : clipped[a][1]] for a in range(3)]
        wf = [np.concatenate([wh[a][::-1], wh[a]]) if touched[a] else wh[a] for a in range(3)]
        vol_h = wh[0][:, None, None] * wh[1][None, :, None] * wh[2][None, None, :]
        vol_f = wf[0][:, None, None] * wf[1][None, :, None] * wf[2][None, None, :]
        desc = dict(pair=pid, sym=sym, touched=touched, box=dsp["box"], grid=case["grid"], exact=ex)
        for which in ("red", "slices"):
            if which not in grp or grp[which]["name"] not in tab:
                continue
            dr = grp[which]
            kr, sr, Xr, outr = tab[dr["name"]]
            Mr = {k: outr[k][1 : 1 + sum(sr)] for k in kr}  # unfold of basis arrays of the reduced state
            skey = keys[0]
            S_h = Xs[1 : 1 + sizes[0]].reshape(sizes[0], *np.asarray(sc.arrays.detector_states[dsp["name"]][skey]).shape)
            S_f = outs[skey][1 : 1 + sizes[0]]
            if kind in ("field", "phasor"):
                red_h = np.tensordot(S_h, vol_h / vol_h.sum(), axes=([-3, -2, -1], [0, 1, 2]))
                red_f = np.tensordot(S_f, vol_f / vol_f.sum(), axes=([-3, -2, -1], [0, 1, 2]))
            elif kind == "energy" and which == "red":
                red_h = np.tensordot(S_h, vol_h, axes=([-3, -2, -1], [0, 1, 2]))[..., None]
                red_f = np.tensordot(S_f, vol_f, axes=([-3, -2, -1], [0, 1, 2]))[..., None]
            elif kind == "poynting" and dsp.get("keep_all_components"):
                red_h, red_f = [], []
                for i in range(3):
                    ah = [wh[a] if a != i else np.ones_like(wh[a]) for a in range(3)]
                    af = [wf[a] if a != i else np.ones_like(wf[a]) for a in range(3)]
                    red_h.append(np.tensordot(S_h[:, :, i], ah[0][:, None, None] * ah[1][None, :, None] * ah[2][None, None, :], axes=([-3, -2, -1], [0, 1, 2])))
                    red_f.append(np.tensordot(S_f[:, :, i], af[0][:, None, None] * af[1][None, :, None] * af[2][None, None, :], axes=([-3, -2, -1], [0, 1, 2])))
                red_h, red_f = np.stack(red_h, axis=-1), np.stack(red_f, axis=-1)
            elif kind == "poynting":
                pa = dsp.get("fixed_propagation_axis")
                if pa is None:
                    pa = [a for a in range(3) if clipped[a][1] - clipped[a][0] == 1][0]
                ah = [wh[a] if a != pa else np.ones_like(wh[a]) for a in range(3)]
                af = [wf[a] if a != pa else np.ones_like(wf[a]) for a in range(3)]
                area_h = ah[0][:, None, None] * ah[1][None, :, None] * ah[2][None, None, :]
                area_f = af[0][:, None, None] * af[1][None, :, None] * af[2][None, None, :]
                red_h = np.tensordot(S_h, area_h, axes=([-3, -2, -1], [0, 1, 2]))[..., None]
                red_f = np.tensordot(S_f, area_f, axes=([-3, -2, -1], [0, 1, 2]))[..., None]
            else:  # energy slices: unweighted mean over the collapsed axis
                red_h = {"XY Plane": S_h.mean(axis=-1), "XZ Plane": S_h.mean(axis=-2), "YZ Plane": S_h.mean(axis=-3)}
                red_f = {"XY Plane": S_f.mean(axis=-1), "XZ Plane": S_f.mean(axis=-2), "YZ Plane": S_f.mean(axis=-3)}
            cls = f"{kind}:{'exact' if ex else 'raw'}:{which}"
            if not on_plane:
                worst = 0.0
                if isinstance(red_h, dict):
                    o = 0
                    for k, sz in zip(kr, sr):
                        U = Mr[k][o : o + sz].reshape(sz, -1)  # (basis of plane k) x (unfolded plane)
                        lhs = red_h[k].reshape(red_h[k].shape[0], -1) @ U
                        rhs = red_f[k].reshape(red_f[k].shape[0], -1)
                        o += sz
                        if lhs.shape != rhs.shape:
                            fail(f"reduced-unfold-shape:{cls}", dict(desc, plane=k, got=list(lhs.shape), expected=list(rhs.shape)))
                            continue
                        worst = max(worst, float(np.max(np.abs(lhs - rhs))) / max(1e-300, float(np.max(np.abs(rhs)))))
                else:
                    k = kr[0]
                    U = Mr[k].reshape(sum(sr), -1)
                    lhs = red_h.reshape(red_h.shape[0], -1) @ U
                    rhs = red_f.reshape(red_f.shape[0], -1)
                    if lhs.shape != rhs.shape:
                        fail(f"reduced-unfold-shape:{cls}", dict(desc, got=list(lhs.shape), expected=list(rhs.shape)))
                        continue
                    worst = float(np.max(np.abs(lhs - rhs))) / max(1e-300, float(np.max(np.abs(rhs))), float(np.max(np.abs(lhs))))
                if worst > 1e-12:
                    fail(f"reduced-unfold!=reduction-of-unfolded-spatial:{cls}:{'electric' if -1 in touched else 'magnetic'}", dict(desc, rel=worst))
                outcomes["reduced-claim-checked"] = outcomes.get("reduced-claim-checked", 0) + 1
            else:
                outcomes["reduced-not-claimed(on-plane)"] = outcomes.get("reduced-not-claimed(on-plane)", 0) + 1
    return dict(ok=not fails, failures=list(fails.values()), nontrivial=nontriv, evals=evals, outcome=outcomes, detail=dict(detectors=len(menu) + len(placed_special)))


def _cmp(fail, desc, cls, got, X, Mexp, full_shape, block=None):
    if tuple(got.shape[1:]) != tuple(full_shape):
        fail(f"unfold_detector_states:shape:{cls}", dict(desc, got=list(got.shape[1:]), expected=list(full_shape)))
        return
    B = X.shape[0]
    g = got.reshape(B, -1)
    if np.max(np.abs(g[0])) != 0:
        fail("unfold_detector_states:zero-not-mapped-to-zero", desc)
    exp = X @ Mexp.T
    if not np.array_equal(g, exp):
        b = int(np.argwhere(np.any(g != exp, axis=1))[0][0])
        col = int(np.argwhere(g[b] != exp[b])[0][0])
        fail(f"unfold_detector_states:parity-or-index-map:{cls}", dict(desc, basis_row=b, full_index=[int(v) for v in np.unravel_index(col, full_shape)], got=float(np.real(g[b, col])), expected=float(np.real(exp[b, col]))))


def run_case(case):
    if case["part"] == "fields":
        return _run_fields(case)
    return _run_detectors(case)
