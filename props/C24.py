"""C24 — median filter and pillar discretization match their definitions.

Bounded exhaustive enumeration (engine E2):
  * `BinaryMedianFilterModule.__call__`: **all** binary volumes of the shapes 2x2x2, 3x3x1, 1x3x3, 3x1x3, 2x2x3, 2x3x2,
    3x2x2 (and 4x4x1, 3x3x2, 2x3x3 = 2^16..2^18 volumes on a kernel/padding subset) x odd kernels {(1,1,1),(3,1,1),
    (3,3,1),(3,3,3),(1,3,3),(5,3,1)} x padding configs (constant 0, constant 1, edge, mixed per face, both shipped
    presets) x num_repeats {1,2}.  Oracle: numpy majority count over the box neighbourhood of the face-by-face padded
    volume.
  * `PillarDiscretization.__call__`: material sets of 2-4 materials x heights 1-4 x single_polymer_columns {T,F} x both
    distance metrics x all three axes x background choice; **all columns** over the alphabet {1/eps of each material,
    midpoints} laid out in one array (non-square cross-section).  Oracle: allowed columns enumerated from the definition
    (background only at the top end, optionally a single non-background material); the chosen column must be allowed
    and have minimal configured distance (tie-agnostic).
Both are initialised like `Device.place_on_grid` does (init_module + init_type) and driven through `__call__`.
"""
import itertools

import numpy as np

ID = "C24"
LEVEL = "exploration"
MANIFEST = {
    "engine": "E2-enum",
    "technique": "bounded exhaustive enumeration of all binary volumes <= 18 cells x kernels x padding configs against a numpy majority-count model, and of all columns over the material alphabet x material sets x heights x options against a brute-force allowed-column argmin model",
    "text": "Every binary volume of every small shape is filtered by the real BinaryMedianFilterModule for every odd kernel, padding configuration (including both shipped presets) and repeat count and compared voxel by voxel with the majority of the padded box neighbourhood; every column over the value alphabet is discretized by the real PillarDiscretization for every material set, height, axis, metric and option and compared with the brute-force enumeration of allowed columns (membership and minimal distance).",
    "note": "Padding is applied face by face in the order (x-, x+, y-, y+, z-, z+) as configured; ties in the column distance accept any minimiser (1e-9 relative slack).",
}
RULE = (
    "median case = (shape, kernel, padding config, repeats, range of binary volumes): one evaluation per volume (jax.vmap batches, three plain "
    "calls as conformance); a volume is non-trivial when the filter has to change it (reference output != input). pillar case = (materials, "
    "height, axis, single, metric, background): one evaluation per column; a column is non-trivial when it is not itself an allowed column "
    "(some cell value is not an allowed value in an allowed arrangement)."
)
ASSUMPTIONS = [
    "jax.vmap over a batch evaluates the same Python code as a plain call (three plain calls per median case are compared bit-for-bit)",
    "'configured padding' = the six faces padded one after the other in the order x-,x+,y-,y+,z-,z+ with the configured mode/value; padding widths >= kernel radius",
    "column values come from the finite alphabet {1/eps_k, midpoints of neighbours, one VERIF_SEED value}; isotropic materials",
    "distance 'permittivity_differences_plus_average_permittivity' = mean |diff(values) - diff(allowed)| + |mean(values) - mean(allowed)| (Euclidean for height 1)",
]

KERNELS = [(1, 1, 1), (3, 1, 1), (3, 3, 1), (3, 3, 3), (1, 3, 3), (5, 3, 1)]
PADS = {
    "const0": dict(widths=[2], modes=["constant"], values=[0]),
    "const1": dict(widths=[2], modes=["constant"], values=[1]),
    "edge": dict(widths=[2], modes=["edge"], values=None),
    "mixed": dict(widths=[2, 3, 2, 2, 3, 2], modes=["constant", "edge", "edge", "constant", "constant", "edge"], values=[1, 0, 0, 0, 1, 1]),
    "preset:BOTTOM_Z_PADDING_CONFIG_REPEAT": "BOTTOM_Z_PADDING_CONFIG_REPEAT",
    "preset:BOTTOM_Z_PADDING_CONFIG": "BOTTOM_Z_PADDING_CONFIG",
}
# the presets written out from their definition in discrete.py (modes, widths, values), for the reference model only
PRESET_REF = {
    "BOTTOM_Z_PADDING_CONFIG_REPEAT": dict(widths=[20], modes=["edge", "edge", "edge", "edge", "constant", "edge"], values=[1]),
    "BOTTOM_Z_PADDING_CONFIG": dict(widths=[10], modes=["constant"] * 6, values=[1, 0, 1, 1, 1, 0]),
}
S_SMALL = [(2, 2, 2), (3, 3, 1), (1, 3, 3), (3, 1, 3), (2, 2, 3), (2, 3, 2), (3, 2, 2)]
S_BIG = [(4, 4, 1), (3, 3, 2), (2, 3, 3)]
CHUNK = 1 << 12
MENU = [1.0, 2.25, 4.0, 12.0]


def cases(tier, seed):
    out = []
    q = tier == "quick"
    for shape in S_SMALL:
        n = int(np.prod(shape))
        if q and shape in ((3, 1, 3), (2, 3, 2)):
            continue
        for kern in KERNELS:
            for pad in PADS:
                if pad.startswith("preset") and (n > 9 or (q and (shape != (2, 2, 2) or kern not in ((3, 3, 3), (5, 3, 1))))):
                    continue  # the presets pad by 10/20 cells per face (42^3 cells per volume): <= 9-cell shapes, 2x2x2 only in the quick tier
                for rep in (1, 2):
                    if rep == 2 and q and (pad not in ("edge", "mixed") or kern not in ((3, 3, 3), (3, 3, 1))):
                        continue
                    out.append(dict(kind="median", shape=list(shape), kernel=list(kern), pad=pad, repeats=rep, lo=0, hi=1 << n, seed=seed))
    big_q = {(4, 4, 1): [((3, 3, 1), "edge"), ((3, 3, 1), "mixed"), ((5, 3, 1), "mixed"), ((3, 3, 3), "const1")], (3, 3, 2): [((3, 3, 3), "edge"), ((5, 3, 1), "mixed")], (2, 3, 3): [((3, 3, 3), "mixed")]}
    for shape in S_BIG:
        n = int(np.prod(shape))
        combos = big_q[shape] if q else [(k, pd) for k in KERNELS for pd in ("const0", "const1", "edge", "mixed")]
        for kern, pad in combos:
            for lo in range(0, 1 << n, CHUNK * 8):
                out.append(dict(kind="median", shape=list(shape), kernel=list(kern), pad=pad, repeats=1, lo=lo, hi=min(1 << n, lo + CHUNK * 8), seed=seed))
    for nm in (2, 3, 4):
        for sub in itertools.combinations(MENU, nm):
            if tier == "quick" and sub not in ((1.0, 2.25), (2.25, 12.0), (1.0, 2.25, 4.0), (1.0, 4.0, 12.0), (1.0, 2.25, 4.0, 12.0)):
                continue
            for h in (1, 2, 3, 4):
                for axis in (0, 1, 2):
                    for single in (True, False):
                        for metric in ("euclidean", "permittivity_differences_plus_average_permittivity"):
                            for bg in (None, "second"):
                                if bg == "second" and (tier == "quick" and not (axis == (h % 3) and single)):
                                    continue
                                order = list(sub) if (h + axis) % 2 == 0 else list(sub)[::-1]  # dict insertion order must not matter
                                out.append(dict(kind="pillar", perms=order, h=h, axis=axis, single=single, metric=metric, bg=bg, seed=seed))
    out.sort(key=lambda c: (c["kind"] != "median", int(np.prod(c.get("shape", [1]))) if c["kind"] == "median" else len(c["perms"]) * 10 + c["h"]))
    return out


def bounds(tier, seed):
    return {
        "median_shapes_all_binary": (S_SMALL if tier == "thorough" else [x for x in S_SMALL if x not in ((3, 1, 3), (2, 3, 2))]) + S_BIG,
        "median_combinations": "thorough: full kernel x padding product (presets on the <= 9-cell shapes), repeats 1,2; quick: full product on the <= 12-cell shapes without presets (presets on 2x2x2), repeats=2 on edge/mixed with two kernels, 7 (kernel, padding) combinations on the 16/18-cell shapes",
        "kernels": KERNELS,
        "paddings": list(PADS),
        "repeats": [1, 2],
        "pillar_material_sets": "subsets of size 2..4 of " + str(MENU) + (" (5 representative subsets)" if tier == "quick" else " (all)"),
        "pillar_heights": [1, 2, 3, 4],
        "pillar_options": "axis 0/1/2 x single_polymer_columns T/F x both metrics x background default / second-lowest material",
        "pillar_columns": "all columns over {1/eps_k, midpoints, seed value}^height",
        "seed": seed,
    }


# ------------------------------------------------------------------------------------------ reference models
def ref_pad(X, cfg):
    """X: (B,a,b,c). Six faces padded one after the other (x-,x+,y-,y+,z-,z+)."""
    widths, modes, values = cfg["widths"], cfg["modes"], cfg["values"]
    widths = widths * 6 if len(widths) == 1 else widths
    modes = modes * 6 if len(modes) == 1 else modes
    values = [0] * 6 if values is None else (values * 6 if len(values) == 1 else values)
    lo = [0, 0, 0]
    for edge in range(6):
        ax, end = edge // 2, edge % 2
        pw = [(0, 0)] * 4
        pw[ax + 1] = (0, widths[edge]) if end else (widths[edge], 0)
        if not end:
            lo[ax] = widths[edge]
        if modes[edge] == "constant":
            X = np.pad(X, pw, mode="constant", constant_values=values[edge])
        else:
            X = np.pad(X, pw, mode="edge")
    return X, lo, widths


def ref_median(X, kern, cfg):
    """majority value of the kx x ky x kz box around every voxel of the padded volume"""
    B, a, b, c = X.shape
    Xp, lo, widths = ref_pad(X.astype(np.int64), cfg)
    assert all(widths[2 * ax] >= kern[ax] // 2 and widths[2 * ax + 1] >= kern[ax] // 2 for ax in range(3))
    cnt = np.zeros((B, a, b, c), dtype=np.int64)
    for dx in range(-(kern[0] // 2), kern[0] // 2 + 1):
        for dy in range(-(kern[1] // 2), kern[1] // 2 + 1):
            for dz in range(-(kern[2] // 2), kern[2] // 2 + 1):
                cnt += Xp[:, lo[0] + dx : lo[0] + dx + a, lo[1] + dy : lo[1] + dy + b, lo[2] + dz : lo[2] + dz + c]
    K = kern[0] * kern[1] * kern[2]
    return (2 * cnt > K).astype(np.uint8)


def allowed_columns(n_mat, h, bg_idx, single):
    """columns (index 0 = bottom): k >= 0 non-background cells followed by background up to the top; one material if single"""
    non_bg = [m for m in range(n_mat) if m != bg_idx]
    cols = set()
    for k in range(h + 1):
        for lower in itertools.product(non_bg, repeat=k):
            if single and len(set(lower)) > 1:
                continue
            cols.add(tuple(lower) + (bg_idx,) * (h - k))
    return sorted(cols)


def col_distance(v, a, metric):
    v, a = np.asarray(v, dtype=np.float64), np.asarray(a, dtype=np.float64)
    if metric == "euclidean" or len(v) == 1:
        return float(np.sqrt(np.sum((v - a) ** 2)))
    return float(np.mean(np.abs(np.diff(v) - np.diff(a))) + abs(v.mean() - a.mean()))


# ------------------------------------------------------------------------------------------ run
def _median_case(case, fail):
    import jax
    import jax.numpy as jnp
    from fdtdx.core.misc import PaddingConfig
    from fdtdx.objects.device.parameters import discrete as D
    from mc.oracles import ptransform as PT

    shape, kern, rep = tuple(case["shape"]), tuple(case["kernel"]), case["repeats"]
    spec = PADS[case["pad"]]
    if isinstance(spec, str):
        cfg, ref_cfg = getattr(D, spec), PRESET_REF[spec]
    else:
        cfg = PaddingConfig(widths=tuple(spec["widths"]), modes=tuple(spec["modes"]), values=None if spec["values"] is None else tuple(spec["values"]))
        ref_cfg = spec
    t = PT.make(D.BinaryMedianFilterModule(padding_cfg=cfg, kernel_sizes=kern, num_repeats=rep), PT.materials([1.0, 2.25]), shape, in_type="BINARY")
    f = lambda x: t({"params": x})["params"]  # noqa: E731
    fb = jax.vmap(f)
    ncell = int(np.prod(shape))
    evals = nontriv = 0
    outc = {"changed": 0, "unchanged": 0}
    tag = dict(shape=list(shape), kernel=list(kern), pad=case["pad"], repeats=rep)
    for ci, (lo, hi) in enumerate(PT.chunks(case["hi"] - case["lo"], CHUNK)):
        bits = PT.all_binary(ncell, case["lo"] + lo, case["lo"] + hi)
        X = bits.reshape((-1, *shape))
        E = X
        for _ in range(rep):
            E = ref_median(E, kern, ref_cfg)
        O = np.asarray(fb(jnp.asarray(X.astype(np.float64))))
        evals += len(X)
        ch = (E != X).any(axis=(1, 2, 3))
        nontriv += int(ch.sum())
        outc["changed"] += int(ch.sum())
        outc["unchanged"] += int((~ch).sum())
        if O.shape != X.shape:
            fail("median:shape-changed", dict(tag, got=list(O.shape)))
            break
        bad = (O != E).any(axis=(1, 2, 3))
        if bad.any():
            r = int(np.argmax(bad))
            fail(f"median:not-the-majority:kernel={'x'.join(map(str, kern))}:pad={case['pad'].split(':')[0]}", dict(tag, x=X[r].tolist(), got=O[r].tolist(), majority=E[r].tolist(), n_bad=int(bad.sum())))
        if ci == 0:
            for r in sorted({0, len(X) // 3, len(X) - 1}):
                o1 = np.asarray(f(jnp.asarray(X[r].astype(np.float64))))
                evals += 1
                if not np.array_equal(o1, O[r]):
                    fail("harness:vmap-differs-from-plain-call", dict(tag, x=X[r].tolist()))
    return evals, nontriv, outc


def _pillar_case(case, fail):
    import jax.numpy as jnp
    from fdtdx.objects.device.parameters.discretization import PillarDiscretization
    from mc.oracles import ptransform as PT

    perms, h, axis, single, metric = case["perms"], case["h"], case["axis"], case["single"], case["metric"]
    n = len(perms)
    names = [f"m{i}" for i in range(n)]
    eps_sorted = sorted(perms)
    inv = [float(np.float64(1.0) / np.float64(e)) for e in eps_sorted]  # index k = k-th lowest permittivity
    bg_idx = 0
    bg_name = None
    if case["bg"] == "second":
        bg_idx = 1
        bg_name = names[perms.index(eps_sorted[1])]
    rng = np.random.default_rng(2400 + case["seed"])
    alpha = sorted(set(inv + [0.5 * (a + b) for a, b in zip(sorted(inv)[:-1], sorted(inv)[1:])] + [float(rng.uniform(min(inv), max(inv)))]))
    cols = np.asarray(list(itertools.product(alpha, repeat=h)), dtype=np.float64)  # (N, h)
    N = len(cols)
    A = next(a for a in range(int(np.sqrt(N)), 0, -1) if N % a == 0)
    A, B = (A, N // A) if A != N // A or N == 1 else (A, N // A)
    if A == B and N > 1:  # force a non-square cross-section: drop to a padded layout
        B = A + 1
        cols = np.concatenate([cols, np.tile(cols[:1], (A * B - N, 1))])
    vol = cols.reshape(A, B, h)
    vol = np.moveaxis(vol, 2, axis)  # the column axis sits at `axis`
    shape = vol.shape
    import contextlib
    import io

    with contextlib.redirect_stderr(io.StringIO()):  # compute_allowed_indices draws a tqdm progress bar on stderr
        t = PT.make(PillarDiscretization(axis=axis, single_polymer_columns=single, distance_metric=metric, background_material=bg_name), PT.materials(perms, names=names), shape)
    tag = dict(perms=perms, h=h, axis=axis, single=single, metric=metric, background_idx=bg_idx)
    o = np.asarray(t({"params": jnp.asarray(vol)})["params"])
    evals = len(cols)
    if o.shape != shape:
        fail("pillar:shape-changed", dict(tag, shape=list(shape), got=list(o.shape)))
        return evals, 0, {}
    got = np.moveaxis(o, axis, 2).reshape(-1, h)
    allowed = allowed_columns(n, h, bg_idx, single)
    allowed_set = set(allowed)
    allowed_vals = [[inv[m] for m in col] for col in allowed]
    nontriv = 0
    outc = {}
    done = set()
    for v, g in zip(cols, got):
        dists = [col_distance(v, a, metric) for a in allowed_vals]
        dmin = min(dists)
        nontriv += int(dmin > 0)
        if not np.all(g == np.round(g)) or tuple(int(x) for x in g) not in allowed_set:
            sig = "pillar:column-not-allowed"
            det = dict(tag, column_values=v.tolist(), got=g.tolist())
        else:
            gi = tuple(int(x) for x in g)
            outc[f"k={sum(1 for m in gi if m != bg_idx)}"] = outc.get(f"k={sum(1 for m in gi if m != bg_idx)}", 0) + 1
            dg = col_distance(v, [inv[m] for m in gi], metric)
            if dg <= dmin + 1e-9 * max(1.0, dmin):
                continue
            sig = f"pillar:not-the-nearest-allowed-column:{'euclidean' if metric == 'euclidean' else 'diff+avg'}"
            det = dict(tag, column_values=v.tolist(), got=list(gi), got_distance=dg, best=list(allowed[int(np.argmin(dists))]), best_distance=dmin)
        if sig not in done:
            done.add(sig)
            fail(sig, det)
    return evals, nontriv, outc


def run_case(case):
    from mc import guard

    guard.import_fdtdx()
    fails, seen = [], set()

    def fail(sig, detail):
        if sig not in seen:
            seen.add(sig)
            fails.append(dict(sig=sig, detail=detail))

    evals, nontriv, outc = (_median_case if case["kind"] == "median" else _pillar_case)(case, fail)
    return dict(ok=not fails, failures=fails, detail={k: v for k, v in case.items() if k != "seed"}, nontrivial=nontriv, evals=evals, outcome=outc)
