"""C20 — projection filters are bounded, monotone and well-behaved at the extremes.

Bounded exhaustive enumeration (engine E2) of the full parameter grid
    dtype {float64, float32} x beta {0, 1e-8, 1e-3, 1, 8, 64, 1e4, 1e10, 1e30, inf} x eta {0, 1e-6, 1/4, 1/2, 3/4, 1-1e-6, 1}
for `TanhProjection.__call__` on a sorted 257-point grid on [0,1] enriched with eta, eta +- 1 ulp, 1e-30 and a subnormal
(range, monotonicity, fixed points 0/1, clip at beta=0 - also outside [0,1] -, step at beta=inf, finite value and
gradient), and for `SubpixelSmoothedProjection.__call__` on structured 2x2 / 3x3 families (constants, ramps through the
threshold with slopes 1e-30..1, all binary 2x2 and 3x3 arrays, all 2x2 arrays over a 5-value alphabet) x voxel sizes x
singleton-axis positions: finite value and gradient, and equality with the plain projection in every cell without an
interface (zero finite-difference gradient, or linearised interface at least one full pixel away).
Both transforms are initialised like `Device.place_on_grid` does and driven through `__call__(params, beta=...)`.
"""
import itertools

import numpy as np

ID = "C20"
LEVEL = "exploration"
MANIFEST = {
    "engine": "E2-enum",
    "technique": "bounded exhaustive enumeration of the full (dtype x beta x eta) parameter grid on a dense sorted input grid and on structured 2x2/3x3 field families (all binary arrays, all 2x2 arrays over a 5-value alphabet, ramps, constants) against closed-form reference predicates (range, monotonicity, clip, step, finiteness, agreement off the interface)",
    "text": "Every (dtype, beta, eta) combination including beta in {0, inf} and eta in {0, 1} is run through the real TanhProjection on a dense sorted grid and through the real SubpixelSmoothedProjection on exhaustive small field families; values, jax.grad gradients, monotonicity, fixed points, the beta=0 and beta=inf limits and the agreement of both projections away from interfaces are checked on every element.",
    "note": "beta/eta/x come from finite alphabets that contain the special-cased values; float32 and float64 both run because NaN guards are dtype sensitive. 'No interface' uses an independent numpy finite-difference model with a one-pixel safety margin.",
}
RULE = (
    "case = (projection, dtype, eta[, voxel size, singleton position]); inside a case every beta of the alphabet is evaluated on every "
    "input of the family (value + jax.grad). One evaluation = one input element (grid point or small array) at one beta. Non-trivial: tanh - "
    "0 < beta < inf and 0 < x < 1 (the tanh branch decides); smoothed - the array contains an interface cell (linearised interface within "
    "half a pixel) for 0 < beta."
)
ASSUMPTIONS = [
    "beta, eta, x and the 2D fields come from finite alphabets/families (all special-cased values included); not every real input",
    "jax.vmap over a batch of small arrays evaluates the same Python code as a plain call (plain calls are compared on three arrays per case)",
    "XLA:CPU flushes subnormal numbers to zero: subnormal inputs take part in the finiteness/range/monotonicity checks but count as 0 in the clip/step comparisons",
    "range / fixed-point identities are demanded up to round-off of representing eta in the working precision: 1e-12 (f64) / 1e-5 (f32) + 2*eps*eta*min(beta, 0.45/(1-eta))",
    "'cell without an interface' = zero central/one-sided finite-difference gradient or |eta - rho| >= |grad rho| * 1 pixel (safety margin over any sub-pixel smoothing radius)",
]

BETAS = [0.0, 1e-8, 1e-3, 1.0, 8.0, 64.0, 1e4, 1e10, 1e30, float("inf")]
ETAS = [0.0, 1e-6, 0.25, 0.5, 0.75, 1 - 1e-6, 1.0]
VOXELS = [25e-9, 50e-9, 1e-6]


def cases(tier, seed):
    out = []
    for dt in ("f64", "f32"):
        for eta in ETAS:
            out.append(dict(kind="tanh", dtype=dt, eta=eta, seed=seed))
    vox = VOXELS if tier == "thorough" else VOXELS[:2]
    for dt in ("f64", "f32"):
        for eta in ETAS:
            for vi, v in enumerate(vox):
                for pos in range(3):
                    if tier == "quick" and (pos + vi) % 2 == 1 and eta not in (0.0, 0.5, 1.0):
                        continue
                    # all 65536 binary 4x4 fields: thorough tier, one (voxel, position) per (dtype, eta)
                    out.append(dict(kind="smoothed", dtype=dt, eta=eta, voxel=v, pos=pos, seed=seed, big=(tier == "thorough" and vi == 0 and pos == 2)))
    return out


def bounds(tier, seed):
    return {
        "dtype": ["float64", "float32"],
        "beta": [str(b) for b in BETAS],
        "eta": ETAS,
        "x_grid": "k/256, k=0..256, plus eta, eta+-ulp, 1e-30, smallest subnormal, seed value; for beta=0 also {-1,-1e-3,1+1e-3,2}",
        "fields": "2x2 and 3x3: constants, ramps through eta (4 directions x slopes {1e-30,1e-6,0.1,1} x 3 offsets), nearly flat ramps from 0 (slopes 1e-100..1e-12), all binary 2x2 (16) and 3x3 (512), all 2x2 over {0,1/4,1/2,3/4,1} (625), seed pattern"
        + ("; 4x4 ramps and all 65536 binary 4x4 arrays (first voxel size, singleton axis last)" if tier == "thorough" else ""),
        "voxel_sizes": VOXELS if tier == "thorough" else VOXELS[:2],
        "singleton_axis_positions": [0, 1, 2],
        "seed": seed,
    }


def _np_dtype(dt):
    return np.float64 if dt == "f64" else np.float32


def _xgrid(eta, dt, seed):
    npd = _np_dtype(dt)
    rng = np.random.default_rng(2000 + seed)
    e = npd(eta)
    vals = [k / 256 for k in range(257)] + [float(e), float(np.nextafter(e, npd(2))), float(np.nextafter(e, npd(-1))), 1e-30, float(np.nextafter(npd(0), npd(1))), float(rng.uniform(0, 1))]
    v = np.unique(np.asarray(vals, dtype=npd))
    return v[(v >= 0) & (v <= 1)]


def _fields(n, eta, seed, big):
    """structured families of n x n fields (values in [0,1])"""
    out = []
    for c in (0.0, eta, 0.3, 1.0):
        out.append(np.full((n, n), c))
    ii, jj = np.meshgrid(np.arange(n), np.arange(n), indexing="ij")
    for slope in (1e-30, 1e-6, 0.1, 1.0):
        for off in (0.0, 0.5, 1.0):
            for coord in (ii, jj, ii + jj, ii - jj):
                out.append(np.clip(eta + slope * (coord - off), 0.0, 1.0))
    # nearly flat fields far from the threshold: tiny but non-zero gradient => huge interface distance (overflow guards)
    for slope in (1e-100, 1e-62, 1e-30, 1e-20, 1e-12):
        for coord in (ii, jj, ii + jj):
            out.append(slope * coord)
    if n <= 3 or big:
        m = n * n
        bits = ((np.arange(1 << m)[:, None] >> np.arange(m)[None, :]) & 1).astype(np.float64)
        out += list(bits.reshape(-1, n, n))
    if n == 2:
        al = [0.0, 0.25, 0.5, 0.75, 1.0]
        out += [np.asarray(t).reshape(2, 2) for t in itertools.product(al, repeat=4)]
    rng = np.random.default_rng(2050 + seed)
    out.append(rng.uniform(0, 1, (n, n)))
    return np.asarray(out)


def _tanh_case(case, fail):
    import jax
    import jax.numpy as jnp
    from fdtdx.objects.device.parameters.projection import TanhProjection
    from mc.oracles import ptransform as PT

    dt, eta = case["dtype"], case["eta"]
    npd = _np_dtype(dt)
    tol = 1e-12 if dt == "f64" else 1e-5
    x = _xgrid(eta, dt, case["seed"])
    N = len(x)
    shape = (N, 1, 1)
    t = PT.make(TanhProjection(projection_midpoint=eta), PT.materials([1.0, 2.25]), shape)
    evals = nontriv = 0
    outc = {}
    for beta in BETAS:
        tag = dict(dtype=dt, eta=eta, beta=str(beta))
        f = lambda a: t({"params": a}, beta=beta)["params"]  # noqa: E731
        xs = jnp.asarray(x.reshape(shape))
        y = np.asarray(f(xs)).reshape(-1)
        g = np.asarray(jax.grad(lambda a: jnp.sum(f(a)))(xs)).reshape(-1)
        evals += 2 * N
        if 0 < beta < np.inf:
            nontriv += int(((x > 0) & (x < 1)).sum())
        cls = "beta=0" if beta == 0 else "beta=inf" if np.isinf(beta) else "0<beta<inf"
        ecl = "eta-interior" if 0 < eta < 1 else f"eta={int(eta)}"
        # round-off allowance: eta is rounded to the working precision where it meets x (|d eta| <= eps*eta) and the result is
        # sensitive to it by at most beta*sech^2(beta(1-eta)) <= min(beta, 0.45/(1-eta))
        tol = (1e-12 if dt == "f64" else 1e-5)
        if 0 < beta < np.inf and 0 < eta < 1:
            tol += 2 * float(np.finfo(npd).eps) * eta * min(beta, 0.45 / (1 - eta))
        if y.dtype != npd:
            fail(f"tanh:dtype-changed:{dt}", dict(tag, got=str(y.dtype)))
        if not np.all(np.isfinite(y)):
            fail(f"tanh:value-not-finite:{cls}:{ecl}:{dt}", dict(tag, x=float(x[~np.isfinite(y)][0])))
            continue
        if not np.all(np.isfinite(g)):
            fail(f"tanh:gradient-not-finite:{cls}:{ecl}:{dt}", dict(tag, x=float(x[~np.isfinite(g)][0])))
        if y.min() < -tol or y.max() > 1 + tol:
            fail(f"tanh:leaves-unit-interval:{cls}:{ecl}", dict(tag, ymin=float(y.min()), ymax=float(y.max())))
        d = np.diff(y.astype(np.float64))
        if d.min() < -4 * np.finfo(npd).eps:
            i = int(np.argmin(d))
            fail(f"tanh:not-monotone:{cls}:{ecl}", dict(tag, x0=float(x[i]), x1=float(x[i + 1]), y0=float(y[i]), y1=float(y[i + 1])))
        if 0 < eta < 1:
            if abs(y[0]) > tol or abs(y[-1] - 1) > tol:
                fail(f"tanh:does-not-fix-0-or-1:{cls}", dict(tag, f0=float(y[0]), f1=float(y[-1])))
        if beta == 0:
            xe = np.concatenate([x, np.asarray([-1.0, -1e-3, 1 + 1e-3, 2.0], dtype=npd)])
            te = PT.make(TanhProjection(projection_midpoint=eta), PT.materials([1.0, 2.25]), (len(xe), 1, 1))
            ye = np.asarray(te({"params": jnp.asarray(xe.reshape(-1, 1, 1))}, beta=beta)["params"]).reshape(-1)
            evals += len(xe)
            normal = (xe == 0) | (np.abs(xe) >= np.finfo(npd).tiny)  # XLA:CPU flushes subnormals to zero
            if not np.array_equal(ye[normal], np.clip(xe, 0, 1)[normal]) or np.max(np.abs(ye - np.clip(xe, 0, 1))) > np.finfo(npd).tiny:
                fail("tanh:beta=0-is-not-clipping", dict(tag, x=float(xe[ye != np.clip(xe, 0, 1)][0])))
        if np.isinf(beta):
            e = npd(eta)
            off = (x != e) & (np.abs(x.astype(np.float64) - float(e)) >= np.finfo(npd).tiny)  # subnormal distance = on the threshold (FTZ)
            want = np.where(x > e, 1.0, 0.0)
            if not np.array_equal(y[off], want[off]):
                fail("tanh:beta=inf-is-not-a-step", dict(tag, x=float(x[off][y[off] != want[off]][0])))
        outc[cls] = outc.get(cls, 0) + N
    return evals, nontriv, outc


def _no_interface(F, eta):
    """independent numpy model: cells whose finite-difference gradient vanishes or whose linearised interface is >= 1 pixel away"""
    g0, g1 = np.gradient(F.astype(np.float64), axis=(1, 2))
    norm = np.sqrt(g0**2 + g1**2)
    dist = np.abs(eta - F.astype(np.float64))
    far = (norm == 0) | (dist >= norm * 1.0)
    near = (norm > 0) & (dist < 0.5 * norm)
    return far, near


def _smoothed_case(case, fail):
    import jax
    import jax.numpy as jnp
    from fdtdx.objects.device.parameters.projection import SubpixelSmoothedProjection, TanhProjection
    from mc.oracles import ptransform as PT

    dt, eta, vox, pos = case["dtype"], case["eta"], case["voxel"], case["pos"]
    npd = _np_dtype(dt)
    tol = 1e-12 if dt == "f64" else 2e-5
    evals = nontriv = 0
    outc = {}
    for n in (2, 3) + ((4,) if case.get("big") else ()):
        F = _fields(n, eta, case["seed"], case.get("big")).astype(npd)
        shape = [n, n]
        shape.insert(pos, 1)
        shape = tuple(shape)
        mats = PT.materials([1.0, 2.25])
        ts = PT.make(SubpixelSmoothedProjection(projection_midpoint=eta), mats, shape, voxel=(vox,) * 3)
        tp = PT.make(TanhProjection(projection_midpoint=eta), mats, shape, voxel=(vox,) * 3)
        far, near = _no_interface(F, float(npd(eta)))
        X = jnp.asarray(F.reshape((-1, *shape)))
        for beta in BETAS:
            tag = dict(dtype=dt, eta=eta, beta=str(beta), voxel=vox, shape=list(shape))
            cls = "beta=0" if beta == 0 else "beta=inf" if np.isinf(beta) else "0<beta<inf"
            fs = lambda a: ts({"params": a}, beta=beta)["params"]  # noqa: E731
            fp = lambda a: tp({"params": a}, beta=beta)["params"]  # noqa: E731
            Y, G = jax.value_and_grad(lambda A: jnp.sum(jax.vmap(fs)(A)))(X)
            Ys = np.asarray(jax.vmap(fs)(X)).reshape(len(F), n, n)
            Yp = np.asarray(jax.vmap(fp)(X)).reshape(len(F), n, n)
            G = np.asarray(G).reshape(len(F), n, n)
            evals += 3 * len(F)
            if beta > 0:
                nontriv += int(near.any(axis=(1, 2)).sum())
            outc[cls] = outc.get(cls, 0) + len(F)
            if not np.all(np.isfinite(Ys)):
                r = int(np.argmax(~np.isfinite(Ys).all(axis=(1, 2))))
                fail(f"smoothed:value-not-finite:{cls}:{dt}", dict(tag, field=F[r].tolist()))
                continue
            if not np.all(np.isfinite(G)):
                r = int(np.argmax(~np.isfinite(G).all(axis=(1, 2))))
                # failing-input class: squared gradient norm (in 1/um^2) of the field in the underflow neighbourhood of the dtype?
                g0, g1 = np.gradient(F[r].astype(np.float64))
                hlp = (g0 / (vox / 1e-6)) ** 2 + (g1 / (vox / 1e-6)) ** 2
                tiny = bool((hlp > 0).any() and hlp[hlp > 0].min() < np.sqrt(float(np.finfo(npd).tiny)))
                fail(f"smoothed:gradient-not-finite:{cls}:{dt}:{'gradient-norm^2<sqrt(tiny)' if tiny else 'ordinary-gradient-norm'}", dict(tag, field=F[r].tolist(), grad=G[r].tolist(), min_positive_sq_norm=float(hlp[hlp > 0].min()) if (hlp > 0).any() else 0.0))
            dev = np.where(far, np.abs(Ys.astype(np.float64) - Yp.astype(np.float64)), 0.0)
            if dev.max() > tol:
                r = int(np.argmax(dev.max(axis=(1, 2))))
                fail(f"smoothed:differs-from-plain-projection-without-interface:{cls}", dict(tag, field=F[r].tolist(), smoothed=Ys[r].tolist(), plain=Yp[r].tolist(), no_interface=far[r].tolist()))
            if beta == 1.0:
                for r in sorted({0, len(F) // 2, len(F) - 1}):
                    o1 = np.asarray(fs(X[r])).reshape(n, n)
                    evals += 1
                    if not np.allclose(o1, Ys[r], rtol=0, atol=tol):
                        fail("harness:vmap-differs-from-plain-call", dict(tag, field=F[r].tolist()))
    return evals, nontriv, outc


def run_case(case):
    from mc import guard

    guard.import_fdtdx()
    fails, seen = [], set()

    def fail(sig, detail):
        if sig not in seen:
            seen.add(sig)
            fails.append(dict(sig=sig, detail=detail))

    evals, nontriv, outc = (_tanh_case if case["kind"] == "tanh" else _smoothed_case)(case, fail)
    return dict(ok=not fails, failures=fails, detail={k: v for k, v in case.items() if k != "seed"}, nontrivial=nontriv, evals=evals, outcome=outc)
