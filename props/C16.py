"""C16 — detector reductions are consistent with their spatial records.

Engine E1: spatial and reduced variants of every detector kind are placed on the same sub-box and updated together by
the real `update_detector_states`.
* linear detectors (Field, Phasor): the record maps are tabulated on 0 and every basis state of (E,H_prev,H); the
  reduced matrix must equal the cell-volume weighted mean of the spatial matrix; an inverse phasor detector must
  subtract exactly what the forward one adds (from a sentinel state).
* quadratic detectors (Energy, PoyntingFlux, ClosedSurfacePoyntingFlux): a quadratic form is determined by its values
  on all basis singles and pairs, so the identities (volume-weighted sum, area-weighted sum, minus direction, single vs
  all components, closed surface = signed sum of six face detectors, inward = -outward, axes subsets) are evaluated on
  every single and every pair of the basis supported on the box, plus dense states on which quadraticity itself is
  checked by reconstruction from the singles/pairs table.
Weights come from the edge coordinates the check set, never from fdtdx.
"""
import itertools

import numpy as np

ID = "C16"
LEVEL = "model_checking"
MANIFEST = {
    "engine": "E1-linsys (record maps) + polarization identities",
    "technique": "explicit-state model checking: exhaustive tabulation of real detector record maps on all basis states (linear detectors: matrix identities) and on all basis singles and pairs (quadratic detectors: polarization identity), for all sub-boxes of a small domain",
    "text": "For all sub-boxes of a small domain, grids (uniform/non-uniform), material tiers and detector options, spatial and reduced Field/Phasor/Energy/PoyntingFlux/ClosedSurface detectors are updated together through update_detector_states; reduced = volume-weighted mean (fields, phasors) / volume-weighted sum (energy) / area-weighted sum (flux) of the spatial record, '-' negates, single component = propagation component of all components, closed surface = signed sum of six face detectors, inverse phasor = minus forward phasor; linear identities as matrix identities on all basis states, quadratic ones on all basis singles and pairs of the box support.",
    "note": "Quadratic detectors with exact interpolation are covered on all singles, the pairs of a 16-state block and dense states (their record is the same function of the co-located fields whose all-pairs table is checked with raw detectors). Material/grid values from finite alphabets.",
}
RULE = (
    "case = (part, grid, material tier, exact flag, chunk of sub-boxes / component subsets); inside a case each (box, detector option set) "
    "is one element. Linear part: all boxes x 3 component subsets and all 63 subsets x 3 boxes, tabulated on all 9N basis states. "
    "Quadratic part: all boxes of the domain, all singles of the whole domain and all pairs of the basis supported on the box. "
    "An element is non-trivial when the box has more than one cell (a real reduction) and the spatial record is non-zero on the basis."
)
ASSUMPTIONS = [
    "float64 evaluation is representative of the float32 default",
    "material and grid-edge values come from finite alphabets (all-distinct, VERIF_SEED pattern)",
    "eager (disable_jit) jax.vmap over basis states evaluates the same Python code as the jitted driver (checked by conformance replays through custom_fdtd_forward)",
]
TOL = 1e-9
ALL = ("Ex", "Ey", "Ez", "Hx", "Hy", "Hz")
SUBSETS3 = [ALL, ("Ey", "Hx", "Hz"), ("Ez",)]
WAVES = [{"wavelength": 4.1e-7}, {"wavelength": 7.7e-7}]


def _subsets():
    out = []
    for r in range(1, 7):
        for c in itertools.combinations(range(6), r):
            out.append(tuple(ALL[i] for i in c))
    return out


def _shapes(tier):
    return ((3, 4, 3), (3, 2, 2)) if tier == "quick" else ((4, 4, 3), (3, 3, 3))


def cases(tier, seed):
    from math import prod

    shape_l, shape_q = _shapes(tier)
    grids = ["uniform", "rect_distinct"] + (["rect_seed"] if (tier == "thorough" or seed) else [])
    out = []
    nb_l = prod(n * (n + 1) // 2 for n in shape_l)
    nb_q = prod(n * (n + 1) // 2 for n in shape_q)
    chunk_l = 45 if tier == "thorough" else 60
    chunk_q = 6
    for g in grids:
        for exact in (False, True):
            for c0 in range(0, nb_l, chunk_l):
                out.append(dict(part="lin", shape=shape_l, grid=g, exact=exact, boxes=[c0, min(nb_l, c0 + chunk_l)], conf=(c0 == 0), tier=tier, seed=seed))
            out.append(dict(part="lin-subsets", shape=shape_l, grid=g, exact=exact, tier=tier, seed=seed))
    mats = [("iso", None), ("diag", "diag"), ("full", "iso")] if tier == "quick" else [("iso", None), ("diag", "diag"), ("full", "iso"), ("full", "full"), ("diag", "iso")]
    quick_menu = {("uniform", 0, False), ("uniform", 2, True), ("rect_distinct", 1, False), ("rect_distinct", 2, False), ("rect_distinct", 1, True), ("rect_seed", 1, False), ("rect_seed", 2, True)}
    for gi, g in enumerate(grids):
        for mi, (eps, mu) in enumerate(mats):
            for exact in (False, True):
                if exact and (mi + gi) % 2:
                    continue  # the exact-interpolation variant rotates through the material/grid menu
                if tier == "quick" and (g, mi, exact) not in quick_menu:
                    continue  # quick: every grid, material tier and interpolation mode occurs, not their full product
                for c0 in range(0, nb_q, chunk_q):
                    out.append(dict(part="quad", shape=shape_q, grid=g, eps=eps, mu=mu, exact=exact, cplx=False, boxes=[c0, min(nb_q, c0 + chunk_q)], conf=(c0 == 0 and mi == 1), seed=seed))
    # complex fields (sesquilinear forms): singles e, i*e and pairs e_i+e_j, e_i+i*e_j
    for c0 in range(0, nb_q, chunk_q * 3):
        out.append(dict(part="quad", shape=shape_q, grid="rect_distinct", eps="diag", mu=None, exact=False, cplx=True, boxes=[c0, min(nb_q, c0 + chunk_q * 3)], stride=3 if tier == "quick" else 1, conf=False, seed=seed))
    return out


def bounds(tier, seed):
    shape_l, shape_q = _shapes(tier)
    return {
        "linear": {"domain": shape_l, "boxes": "all sub-boxes", "component_subsets": "3 subsets on every box; all 63 subsets on 3 boxes", "detectors": "Field spatial/reduced; Phasor spatial/reduced/inverse (2 frequencies, continuous+pulse)", "basis": "all 9N basis states + 0"},
        "quadratic": {
            "domain": shape_q,
            "boxes": "all sub-boxes",
            "detectors": "Energy spatial/reduced/slices; PoyntingFlux 3 axes x direction x keep_all x reduce; ClosedSurface outward/inward/axes subsets vs six face detectors",
            "basis": "all singles of the domain, all pairs supported on the box, 3 dense states (quadraticity)",
            "materials": "eps iso|diag|full, mu scalar|iso|diag|full",
        },
        "grids": ["uniform", "rect_distinct"] + (["rect_seed"] if (tier == "thorough" or seed) else []),
        "tolerance": TOL,
        "seed": seed,
    }


# ------------------------------------------------------------------------------------------------ helpers
def _scene(case, steps):
    from mc.oracles import det_scenes as DS

    shape = tuple(case["shape"])
    spec, info = DS.halo_spec(shape, ("none", "periodic", "pec-pmc"), case["grid"], case["seed"], steps=steps)
    if case.get("eps"):
        spec["eps"] = {"tier": case["eps"], "pat": "distinct", "lo": 1.0, "hi": 3.0}
    if case.get("mu"):
        spec["mu"] = {"tier": case["mu"], "pat": "seed" if case["seed"] else "distinct", "lo": 1.0, "hi": 2.0}
    if case.get("cplx"):
        spec["complex"] = True
    sc = DS.build(spec)
    return sc, info


def _rel(a, b):
    s = max(float(np.max(np.abs(b))) if np.size(b) else 0.0, float(np.max(np.abs(a))) if np.size(a) else 0.0, 1e-300)
    return float(np.max(np.abs(a - b))) / s if np.size(a) else 0.0


# ------------------------------------------------------------------------------------------------ linear part
def _run_lin(case):
    from mc import guard
    from mc.oracles import det_scenes as DS
    from mc.oracles import detectors as O

    fdtdx = guard.import_fdtdx()
    import jax
    import jax.numpy as jnp

    shape = tuple(case["shape"])
    sc, info = _scene(case, steps=3)
    boxes = DS.all_boxes(shape)
    quick = case.get("tier", "thorough") == "quick"
    if case["part"] == "lin":
        if quick:  # every box: the full component set (field pair) and one rotating proper subset (phasor triple)
            todo = [(b, cs) for k, b in enumerate(boxes[case["boxes"][0] : case["boxes"][1]]) for cs in (SUBSETS3[0], SUBSETS3[1 + (k + case["boxes"][0]) % 2])]
        else:
            todo = [(b, cs) for b in boxes[case["boxes"][0] : case["boxes"][1]] for cs in SUBSETS3]
    else:
        pick = [((0, 1), (1, 2), (2, 3)), tuple((0, shape[a]) for a in range(3)), ((1, 3), (0, 3), (0, 2))]
        if quick:
            pick = pick[1:]
        todo = [(b, cs) for b in pick for cs in _subsets()]
    ex = bool(case["exact"])
    dets = []
    meta = []
    wcs = tuple(fdtdx.WaveCharacter(**w) for w in WAVES)
    for i, (b, cs) in enumerate(todo):
        common = dict(exact_interpolation=ex, components=cs)
        if case["part"] == "lin":
            field_only = quick and len(cs) == 6
            phasor_only = quick and len(cs) != 6
        else:  # quick subsets case: field pair on the first box, phasor triple on the second
            field_only = quick and i < 63
            phasor_only = quick and i >= 63
        pulse = bool((i // 2 if quick else i) % 2)
        group = {
            "fs": fdtdx.FieldDetector(name=f"fs{i}", dtype=jnp.float64, plot=False, **common),
            "fr": fdtdx.FieldDetector(name=f"fr{i}", dtype=jnp.float64, plot=False, reduce_volume=True, **common),
            "ps": fdtdx.PhasorDetector(name=f"ps{i}", dtype=jnp.complex128, wave_characters=wcs, **common),
            "pr": fdtdx.PhasorDetector(name=f"pr{i}", dtype=jnp.complex128, wave_characters=wcs, reduce_volume=True, scaling_mode="pulse" if pulse else "continuous", **common),
            "pi": fdtdx.PhasorDetector(name=f"pi{i}", dtype=jnp.complex128, wave_characters=wcs, inverse=True, **common),
        }
        if pulse:
            group["ps2"] = fdtdx.PhasorDetector(name=f"pq{i}", dtype=jnp.complex128, wave_characters=wcs, scaling_mode="pulse", **common)
        if field_only:
            group = {k: v for k, v in group.items() if k in ("fs", "fr")}
        if phasor_only:
            group = {k: v for k, v in group.items() if k not in ("fs", "fr")}
        placed = {k: DS.place(d, b, sc.config) for k, d in group.items()}
        dets += list(placed.values())
        meta.append((b, cs, placed))
    objs, arrays = DS.with_detectors(sc, dets)
    # sentinel phasor states, so that "adds" / "subtracts" is observable
    states = dict(arrays.detector_states)
    sent = {}
    for d in dets:
        st = states[d.name]
        if "phasor" in st:
            v = st["phasor"]
            s = (0.21 + 0.013 * np.arange(v.size)).reshape(v.shape) * (1 + 0.3j)
            sent[d.name] = s
            states[d.name] = {"phasor": jnp.asarray(s, dtype=v.dtype)}
    arrays = arrays.aset("detector_states", states)
    n, _ = DS.field_codec(shape)
    X = jnp.concatenate([jnp.zeros((1, n)), jnp.eye(n)], axis=0)
    t = 1

    def pick(st):
        return {k: (v["fields"][t] if "fields" in v else v["phasor"][0]) for k, v in st.items()}

    with jax.disable_jit():
        fw = jax.vmap(DS.record_fn(arrays, objs, sc.config, shape, t=t, inverse=False, pick=pick))(X)
        bw = jax.vmap(DS.record_fn(arrays, objs, sc.config, shape, t=t, inverse=True, pick=pick))(X)
    fw = {k: np.asarray(v) for k, v in fw.items()}
    bw = {k: np.asarray(v) for k, v in bw.items()}
    fails = {}
    nontriv = 0
    worst = 0.0

    def fail(sig, detail):
        fails.setdefault(sig, dict(sig=sig, detail=detail))

    tag = f"{'exact' if ex else 'raw'}:{'uniform' if info['uniform'] else 'nonuniform'}"
    for b, cs, placed in meta:
        w = O.cell_volumes(info["widths"], b)
        wn = w / w.sum()
        ncell = int(np.prod(w.shape))
        desc = dict(box=b, components=cs, grid=case["grid"], exact=ex)
        if "fs" in placed:
            # Field: reduced == volume-weighted mean of spatial, as matrices (rows = basis states)
            S = fw[placed["fs"].name]  # (B, k, bx,by,bz)
            R = fw[placed["fr"].name]  # (B, k)
            exp = np.einsum("bkxyz,xyz->bk", S, wn)
            r = _rel(R, exp)
            worst = max(worst, r)
            if r > TOL:
                fail(f"field:reduced!=volume-weighted-mean:{tag}", dict(desc, rel=r, cells=ncell))
            if np.max(np.abs(S[0])) != 0 or np.max(np.abs(R[0])) != 0:
                fail("field:nonzero-record-of-zero-state", desc)
            if ncell > 1 and np.max(np.abs(S)) > 0:
                nontriv += 1
            # the inverse call must not touch forward detectors and vice versa
            if not np.array_equal(bw[placed["fs"].name], np.zeros_like(S)):
                fail("field:forward-detector-updated-by-inverse-call", desc)
        if "ps" not in placed:
            continue
        if "fs" not in placed and ncell > 1:
            nontriv += 1
        # Phasor: reduced == weighted mean of spatial (same scaling mode), increment relative to the sentinel
        key_sp = "ps2" if "ps2" in placed else "ps"
        Ps = fw[placed[key_sp].name] - sent[placed[key_sp].name][0][None]
        Pr = fw[placed["pr"].name] - sent[placed["pr"].name][0][None]
        exp = np.einsum("bfkxyz,xyz->bfk", Ps, wn)
        r = _rel(Pr, exp)
        worst = max(worst, r)
        if r > TOL:
            fail(f"phasor:reduced!=volume-weighted-mean:{tag}", dict(desc, rel=r, cells=ncell))
        # inverse subtracts what forward adds
        Pf = fw[placed["ps"].name] - sent[placed["ps"].name][0][None]
        Pi = bw[placed["pi"].name] - sent[placed["pi"].name][0][None]
        r = _rel(Pi, -Pf)
        worst = max(worst, r)
        if r > TOL or np.max(np.abs(Pf)) == 0:
            fail(f"phasor:inverse!=minus-forward:{tag}", dict(desc, rel=r, max_forward=float(np.max(np.abs(Pf)))))
        if not np.array_equal(fw[placed["pi"].name], np.broadcast_to(sent[placed["pi"].name][0][None], fw[placed["pi"].name].shape)):
            fail("phasor:inverse-detector-updated-by-forward-call", desc)
        if np.max(np.abs(Pf[0])) != 0:
            fail("phasor:nonzero-increment-for-zero-state", desc)
    traces = 0
    if case.get("conf") and not fails:
        tr, tf = _conf_lin(case, info)
        traces += tr
        for f_ in tf:
            fails.setdefault(f_["sig"], f_)
    return dict(
        ok=not fails,
        failures=list(fails.values()),
        detail=dict(worst_rel=worst, elements=len(meta), detectors=len(dets)),
        nontrivial=nontriv,
        evals=2 * len(dets) * (n + 1),
        states=n + 1,
        transitions=2 * len(dets) * (n + 1),
        traces=traces,
        outcome={f"lin:{tag}": len(meta)},
    )


def _conf_lin(case, info):
    """Replay through the jitted driver: reduced records of a multi-step run equal the weighted mean of the spatial
    records of the same run (Field per slot; Phasor accumulated; inverse run via backward not needed here)."""
    from mc import linsys
    from mc.oracles import det_scenes as DS
    from mc.oracles import detectors as O

    import jax
    import jax.numpy as jnp
    from fdtdx.fdtd.fdtd import custom_fdtd_forward

    shape = tuple(case["shape"])
    T = 4
    spec, _ = DS.halo_spec(shape, ("none", "periodic", "pec-pmc"), case["grid"], case["seed"], steps=T)
    box = [[1, 3], [0, 3], [0, 2]]
    ex = bool(case["exact"])
    spec["detectors"] = [
        dict(kind="field", name="fs", box=box, exact_interpolation=ex),
        dict(kind="field", name="fr", box=box, exact_interpolation=ex, reduce_volume=True),
        dict(kind="phasor", name="ps", box=box, exact_interpolation=ex, wave_characters=WAVES),
        dict(kind="phasor", name="pr", box=box, exact_interpolation=ex, wave_characters=WAVES, reduce_volume=True),
    ]
    spec["sources"] = [dict(kind="dipole", box=[[1, 2], [1, 2], [1, 2]], polarization=2, wave={"wavelength": 4.3e-7})]
    sc = DS.build(spec)
    codec = linsys.Codec(sc.arrays)
    s0 = linsys.dense_state(codec.n, "distinct", case["seed"]) * 1e-3
    a0 = codec.unpack(sc.arrays, jnp.asarray(s0, dtype=codec.dtype))
    _, aT = custom_fdtd_forward(a0, sc.objects, sc.config, jax.random.PRNGKey(0), reset_container=False, record_detectors=True, start_time=0, end_time=T, show_progress=False)
    st = {k: {kk: np.asarray(vv) for kk, vv in v.items()} for k, v in aT.detector_states.items()}
    w = O.cell_volumes(info["widths"], box)
    wn = w / w.sum()
    fails = []
    r1 = _rel(st["fr"]["fields"], np.einsum("tkxyz,xyz->tk", st["fs"]["fields"], wn))
    r2 = _rel(st["pr"]["phasor"], np.einsum("tfkxyz,xyz->tfk", st["ps"]["phasor"], wn))
    if max(r1, r2) > TOL or np.max(np.abs(st["fs"]["fields"])) == 0:
        fails.append(dict(sig="conformance:driver-run-reduced!=weighted-mean", detail=dict(field=r1, phasor=r2)))
    return 1, fails


# ------------------------------------------------------------------------------------------------ quadratic part
def _support(shape, box, exact):
    """Flat indices (into the (E,H_prev,H) layout) of the basis states a detector on `box` can depend on."""
    N = int(np.prod(shape))
    idx = []
    grid = np.arange(N).reshape(shape)
    lo = [box[a][0] for a in range(3)]
    hi = [box[a][1] for a in range(3)]
    cells = grid[lo[0] : hi[0], lo[1] : hi[1], lo[2] : hi[2]].ravel()
    for blk in (0, 2):  # E and H (H_prev only matters with exact interpolation; covered by the singles)
        for c in range(3):
            idx += [blk * 3 * N + c * N + int(k) for k in cells]
    return idx


def _run_quad(case):
    from mc import guard
    from mc.oracles import det_scenes as DS
    from mc.oracles import detectors as O

    fdtdx = guard.import_fdtdx()
    import jax
    import jax.numpy as jnp

    shape = tuple(case["shape"])
    sc, info = _scene(case, steps=1)
    cplx = bool(case.get("cplx"))
    boxes = DS.all_boxes(shape)[case["boxes"][0] : case["boxes"][1] : case.get("stride", 1)]
    ex = bool(case["exact"])
    n, _ = DS.field_codec(shape)
    N = int(np.prod(shape))
    fails = {}
    nontriv = 0
    worst = 0.0
    evals = 0
    states = 0

    def fail(sig, detail):
        fails.setdefault(sig, dict(sig=sig, detail=detail))

    tag = f"{'exact' if ex else 'raw'}:{'uniform' if info['uniform'] else 'nonuniform'}:{'complex' if cplx else 'real'}"
    rng = np.random.default_rng(77 + case["seed"])
    for b in boxes:
        common = dict(exact_interpolation=ex, dtype=jnp.float64)
        group = {
            "es": fdtdx.EnergyDetector(name="es", plot=False, **common),
            "er": fdtdx.EnergyDetector(name="er", plot=False, reduce_volume=True, **common),
            "el": fdtdx.EnergyDetector(name="el", plot=False, as_slices=True, **common),
        }
        for a in range(3):
            for dr in "+-":
                for keep in (False, True):
                    for red in (False, True):
                        group[f"p{a}{dr}{int(keep)}{int(red)}"] = fdtdx.PoyntingFluxDetector(
                            name=f"p{a}{'p' if dr == '+' else 'm'}{int(keep)}{int(red)}", plot=False, direction=dr, fixed_propagation_axis=a, keep_all_components=keep, reduce_volume=red, **common
                        )
        thin = [a for a in range(3) if b[a][1] - b[a][0] == 1]
        if len(thin) == 1:  # default propagation axis
            group["pd"] = fdtdx.PoyntingFluxDetector(name="pd", plot=False, direction="+", **common)
        group["co"] = fdtdx.ClosedSurfacePoyntingFluxDetector(name="co", plot=False, **common)
        group["ci"] = fdtdx.ClosedSurfacePoyntingFluxDetector(name="ci", plot=False, orientation="inward", **common)
        axes_sets = [(0,), (1, 2), (0, 1, 2), (2, 0)]
        for k, ax in enumerate(axes_sets):
            group[f"ca{k}"] = fdtdx.ClosedSurfacePoyntingFluxDetector(name=f"ca{k}", plot=False, axes=ax, **common)
        placed = {}
        for k, d in group.items():
            try:
                placed[k] = DS.place(d, b, sc.config)
            except Exception as e:  # placement of a documented option must not raise
                opt = "keep_all_components" if getattr(d, "keep_all_components", False) else type(d).__name__
                fail(f"placement-raises:{type(d).__name__}:{opt}:{type(e).__name__}", dict(box=b, grid=case["grid"], error=repr(e)[:300]))
        have_all = all(f"p{a}+1{r}" in placed and f"p{a}-1{r}" in placed for a in range(3) for r in (0, 1))
        # six face detectors: one-cell slabs at the min / max end of every axis, outward normal
        faces = {}
        for a in range(3):
            for side in ("min", "max"):
                fb = [list(p) for p in b]
                fb[a] = [b[a][0], b[a][0] + 1] if side == "min" else [b[a][1] - 1, b[a][1]]
                d = fdtdx.PoyntingFluxDetector(name=f"f{a}{side}", plot=False, direction="-" if side == "min" else "+", fixed_propagation_axis=a, reduce_volume=True, **common)
                faces[(a, side)] = DS.place(d, fb, sc.config)
        dets = list(placed.values()) + list(faces.values())
        objs, arrays = DS.with_detectors(sc, dets)
        # rows: 0, singles of the whole domain, pairs on the box support, dense states
        sup = _support(shape, b, ex)
        if ex:
            sup_pairs = sup[:: max(1, len(sup) // 16)][:16]
        else:
            sup_pairs = sup
        rows = [np.zeros(n, dtype=np.complex128 if cplx else np.float64)]
        eye = np.eye(n)
        rows += list(eye)
        if cplx:
            rows += [1j * eye[i] for i in sup]
        pairs = [(i, j) for k, i in enumerate(sup_pairs) for j in sup_pairs[k + 1 :]]
        for i, j in pairs:
            rows.append(eye[i] + eye[j])
            if cplx:
                rows.append(eye[i] + 1j * eye[j])
        dense = []
        for k in range(3):
            v = rng.uniform(-1, 1, size=n) if k else (np.mod(0.173 + np.arange(n) * 0.6180339887498949, 1.0) - 0.5)
            if cplx:
                v = v + 1j * rng.uniform(-1, 1, size=n)
            dense.append(v)
        dense.append(2.0 * dense[0])
        rows += dense
        X = np.array(rows)
        f = DS.record_fn(arrays, objs, sc.config, shape, t=0, pick=lambda st: {k: {kk: vv[0] for kk, vv in v.items()} for k, v in st.items()})
        with jax.disable_jit():
            out = jax.vmap(f)(jnp.asarray(X, dtype=jnp.complex128 if cplx else jnp.float64))
        out = {k: {kk: np.asarray(vv) for kk, vv in v.items()} for k, v in out.items()}
        evals += len(dets) * X.shape[0]
        states += X.shape[0]
        desc = dict(box=b, grid=case["grid"], eps=case.get("eps"), mu=case.get("mu"), exact=ex, rows=int(X.shape[0]))
        vol = O.cell_volumes(info["widths"], b)
        ncell = vol.size

        def chk(name, got, exp, extra=None):
            nonlocal worst
            if got.shape != exp.shape:
                fail(f"{name}:shape:{tag}", dict(desc, got=list(got.shape), expected=list(exp.shape)))
                return
            r = _rel(got, exp)
            worst = max(worst, r)
            if r > TOL:
                row = int(np.argmax(np.max(np.abs(got - exp).reshape(got.shape[0], -1), axis=1)))
                kind = "zero" if row == 0 else ("single" if row <= n else ("dense" if row >= X.shape[0] - len(dense) else "pair"))
                fail(f"{name}:{tag}", dict(desc, rel=r, row_kind=kind, cells=int(ncell), **(extra or {})))

        # ---- energy
        Es = out["es"]["energy"]  # (B, bx,by,bz)
        Er = out["er"]["energy"]  # (B, 1)
        chk("energy:reduced!=volume-weighted-sum", Er[:, 0], np.einsum("bxyz,xyz->b", Es, vol))
        sl = out["el"]
        chk("energy:slices!=mean-of-spatial", sl["XY Plane"], Es.mean(axis=3))
        chk("energy:slices!=mean-of-spatial", sl["XZ Plane"], Es.mean(axis=2))
        chk("energy:slices!=mean-of-spatial", sl["YZ Plane"], Es.mean(axis=1))
        if np.min(Es[1 : n + 1].sum(axis=(1, 2, 3))[sup]) <= 0:
            fail(f"energy:not-positive-on-a-supported-single:{tag}", desc)
        # ---- poynting
        def P(a, dr, keep, red):
            return out[placed[f"p{a}{dr}{int(keep)}{int(red)}"].name]["poynting_flux"]

        for a in range(3):
            area = O.face_areas(info["widths"], b, a)
            sp = P(a, "+", False, False)  # (B, bx,by,bz)
            chk(f"poynting:reduced!=area-weighted-sum:axis{a}", P(a, "+", False, True)[:, 0], np.einsum("bxyz,xyz->b", sp, area))
            chk(f"poynting:minus!=-plus:axis{a}", P(a, "-", False, False), -sp)
            chk(f"poynting:minus!=-plus:reduced:axis{a}", P(a, "-", False, True), -P(a, "+", False, True))
            if not have_all:
                continue
            spa = P(a, "+", True, False)  # (B, 3, bx,by,bz)
            chk(f"poynting:minus!=-plus:all-components:axis{a}", P(a, "-", True, False), -spa)
            chk(f"poynting:single!=component-of-all:axis{a}", sp, spa[:, a])
            areas3 = np.stack([O.face_areas(info["widths"], b, i) for i in range(3)])
            chk(f"poynting:all-components-reduced!=area-weighted-sum:axis{a}", P(a, "+", True, True), np.einsum("bixyz,ixyz->bi", spa, areas3))
            chk(f"poynting:single-reduced!=component-of-all-reduced:axis{a}", P(a, "+", False, True)[:, 0], P(a, "+", True, True)[:, a])
            chk(f"poynting:minus!=-plus:all-components-reduced:axis{a}", P(a, "-", True, True), -P(a, "+", True, True))
        if "pd" in placed:
            chk("poynting:default-axis!=thin-axis", out["pd"]["poynting_flux"], P(thin[0], "+", False, True))
        # ---- closed surface = signed sum of the six (outward) face detectors
        F = {k: out[d.name]["poynting_flux"][:, 0] for k, d in faces.items()}
        default_axes = [a for a in range(3) if b[a][1] - b[a][0] > 1]

        def faces_sum(axes):
            tot = np.zeros(X.shape[0])
            for a in axes:
                tot = tot + F[(a, "max")] + F[(a, "min")]
            return tot

        co = out["co"]["poynting_flux"][:, 0]
        chk("closed:outward!=signed-sum-of-face-fluxes", co, faces_sum(default_axes))
        chk("closed:all-six-faces!=default-axes", out["ca2"]["poynting_flux"][:, 0], faces_sum([0, 1, 2]))
        chk("closed:inward!=-outward", out["ci"]["poynting_flux"][:, 0], -co)
        for k, ax in enumerate(axes_sets):
            chk(f"closed:axes-subset!=sum-of-those-faces:{len(ax)}", out[f"ca{k}"]["poynting_flux"][:, 0], faces_sum(list(ax)))
        # ---- quadraticity: dense rows reconstructed from the singles / pairs table (raw: complete table)
        if not ex and not cplx:
            pos = {i: k for k, i in enumerate(sup)}
            x = dense[0]
            for nm, arr in (("energy", Es), ("poynting", P(0, "+", True, False) if have_all else P(0, "+", False, False)), ("closed", out["co"]["poynting_flux"])):
                q1 = arr[1 : n + 1]
                qp = arr[n + 1 : n + 1 + len(pairs)]
                rec = np.zeros_like(arr[0])
                for i in sup:
                    rec = rec + x[i] ** 2 * q1[i]
                for k, (i, j) in enumerate(pairs):
                    rec = rec + x[i] * x[j] * (qp[k] - q1[i] - q1[j])
                got = arr[X.shape[0] - len(dense)]
                # scale: the size of the table entries (the dense value itself may cancel to ~0)
                r = float(np.max(np.abs(got - rec))) / max(1e-300, float(np.max(np.abs(arr[1 : n + 1 + len(pairs)]))))
                worst = max(worst, r)
                if r > TOL:
                    fail(f"{nm}:not-a-quadratic-form-of-the-box-fields:{tag}", dict(desc, rel=r))
            hom = _rel(Es[-1], 4.0 * Es[X.shape[0] - len(dense)])
            if hom > TOL:
                fail(f"energy:not-homogeneous-of-degree-2:{tag}", dict(desc, rel=hom))
        if ncell > 1 and np.max(np.abs(Es)) > 0 and np.max(np.abs(P(0, "+", False, False))) > 0:
            nontriv += 1
    traces = 0
    if case.get("conf") and not fails:
        tr, tf = _conf_quad(case, info)
        traces += tr
        for f_ in tf:
            fails.setdefault(f_["sig"], f_)
    return dict(
        ok=not fails,
        failures=list(fails.values()),
        detail=dict(worst_rel=worst, boxes=len(boxes)),
        nontrivial=nontriv,
        evals=evals,
        states=states,
        transitions=evals,
        traces=traces,
        outcome={f"quad:{tag}": len(boxes)},
    )


def _conf_quad(case, info):
    from mc import linsys
    from mc.oracles import det_scenes as DS
    from mc.oracles import detectors as O

    import jax
    import jax.numpy as jnp
    from fdtdx.fdtd.fdtd import custom_fdtd_forward

    shape = tuple(case["shape"])
    T = 4
    spec, _ = DS.halo_spec(shape, ("none", "periodic", "pec-pmc"), case["grid"], case["seed"], steps=T)
    if case.get("eps"):
        spec["eps"] = {"tier": case["eps"], "pat": "distinct", "lo": 1.0, "hi": 3.0}
    if case.get("mu"):
        spec["mu"] = {"tier": case["mu"], "pat": "distinct", "lo": 1.0, "hi": 2.0}
    box = [[1, 3], [0, 2], [0, 2]]
    ex = bool(case["exact"])
    dets = [
        dict(kind="energy", name="es", box=box, exact_interpolation=ex),
        dict(kind="energy", name="er", box=box, exact_interpolation=ex, reduce_volume=True),
        dict(kind="closed", name="co", box=box, exact_interpolation=ex),
    ]
    for a in range(3):
        for side in ("min", "max"):
            fb = [list(p) for p in box]
            fb[a] = [box[a][0], box[a][0] + 1] if side == "min" else [box[a][1] - 1, box[a][1]]
            dets.append(dict(kind="poynting", name=f"f{a}{side}", box=fb, exact_interpolation=ex, direction="-" if side == "min" else "+", fixed_propagation_axis=a, reduce_volume=True))
    spec["detectors"] = dets
    spec["sources"] = [dict(kind="dipole", box=[[1, 2], [1, 2], [1, 2]], polarization=0, wave={"wavelength": 4.3e-7})]
    sc = DS.build(spec)
    codec = linsys.Codec(sc.arrays)
    s0 = linsys.dense_state(codec.n, "distinct", case["seed"]) * 1e-3
    a0 = codec.unpack(sc.arrays, jnp.asarray(s0, dtype=codec.dtype))
    _, aT = custom_fdtd_forward(a0, sc.objects, sc.config, jax.random.PRNGKey(0), reset_container=False, record_detectors=True, start_time=0, end_time=T, show_progress=False)
    st = {k: {kk: np.asarray(vv) for kk, vv in v.items()} for k, v in aT.detector_states.items()}
    vol = O.cell_volumes(info["widths"], box)
    fails = []
    r1 = _rel(st["er"]["energy"][:, 0], np.einsum("txyz,xyz->t", st["es"]["energy"], vol))
    tot = sum(st[f"f{a}{side}"]["poynting_flux"][:, 0] for a in range(3) for side in ("min", "max"))
    r2 = _rel(st["co"]["poynting_flux"][:, 0], tot)
    if max(r1, r2) > TOL or np.max(np.abs(st["es"]["energy"])) == 0:
        fails.append(dict(sig="conformance:driver-run-quadratic-identities", detail=dict(energy=r1, closed=r2)))
    return 1, fails


def run_case(case):
    if case["part"].startswith("lin"):
        return _run_lin(case)
    return _run_quad(case)
