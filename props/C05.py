"""C05 — forward results do not depend on the gradient strategy; the reversible slice partition is a partition.

(a) `_reversible_slice_boundaries(T, k)` for ALL 1 <= k <= T <= bound: exact-integer oracle (starts at 0, ends at T,
    strictly increasing, k+1 integers).
(b) for every scene of a small menu and every T in 1..Tmax: `run_fdtd` with gradient_config None, with
    GradientConfig(checkpointed, c) for EVERY c in 1..T and GradientConfig(reversible, r) for EVERY r in 0..T-1 must
    give the same final fields (E, H, every PML psi), the same detector states and the same final step count as the
    None run (1e-12 relative); r in {T, T+1} must raise the documented error.
"""

ID = "C05"
LEVEL = "exploration"
MANIFEST = {
    "engine": "E2-enum + E4-scenes",
    "technique": "bounded exhaustive enumeration: every (T,k) pair of the slice partition against an exact integer oracle; every (gradient method, checkpoint count) x every T up to the bound on a finite scene menu through the public run_fdtd, compared with the gradient-free run",
    "text": "The slice-boundary function is evaluated on every admissible (time_steps_total, num_slices) pair up to the bound and judged with exact integer arithmetic. For every scene of a finite menu and every total step count up to the bound, run_fdtd is executed under every gradient configuration (None, checkpointed with every checkpoint count 1..T, reversible with every reversible checkpoint count 0..T-1) and the final step count, fields, PML auxiliaries and detector states are compared with the gradient-free run; the documented error for too many reversible checkpoints is demanded.",
    "note": "Scenes are a finite menu (PML/periodic/PEC walls, dipole and plane sources, conductivity, Field/Energy/Poynting/Phasor detectors with switches); inside each scene the quantifier over methods and checkpoint counts is enumerated completely. float64. The JIT/while_loop/custom_vjp layers are executed, not modelled.",
}
RULE = (
    "part a: one case per block of T values, every k in 1..T evaluated (evals = pairs); a pair is non-trivial when k>=2 and T is not a "
    "multiple of k (rounding is exercised). part b: case = (scene, T, method) and inside it EVERY admissible checkpoint count is run (evals = runs incl. the reference); "
    "a configuration is non-trivial when the reference run ends with non-zero E, H and at least one non-zero detector record (and non-zero psi in PML "
    "scenes once T>=3) and, for reversible r>=1, the partition really has r+1 segments; error cases (r>=T) are non-trivial when the documented exception is raised."
)
ASSUMPTIONS = [
    "float64 evaluation is representative of the float32 default",
    "scenes come from a finite menu; material values from the all-distinct / VERIF_SEED patterns",
]
TOL = 1e-12

_DIP = dict(kind="dipole", polarization=2, wave={"wavelength": 4e-7})


def _scene_specs():
    pml_x = {"min_x": "pml", "max_x": "pml", "min_y": "periodic", "max_y": "periodic", "min_z": "periodic", "max_z": "periodic"}
    all_pml = {k: "pml" for k in ("min_x", "max_x", "min_y", "max_y", "min_z", "max_z")}
    walls = {"min_x": "pec", "max_x": "pmc", "min_y": "periodic", "max_y": "periodic", "min_z": "pmc", "max_z": "pec"}
    sw_int = {"interval": 2}
    S = {}
    # A: PML on x, periodic elsewhere, dipole next to the PML, detectors of every kind incl. a switched one
    S["pmlx_dipole"] = dict(
        shape=[6, 3, 3], faces=pml_x, pml=2, eps={"tier": "iso", "pat": "distinct"},
        sources=[dict(_DIP, box=[[2, 3], [1, 2], [1, 2]])],
        detectors=[
            dict(kind="field", box=[[3, 4], [1, 2], [1, 2]], reduce_volume=False),
            dict(kind="energy", box=[[2, 4], [0, 3], [0, 3]], reduce_volume=True),
            dict(kind="phasor", box=[[3, 4], [1, 2], [0, 1]], wave_characters=[{"wavelength": 4e-7}]),
            dict(kind="field", box=[[2, 3], [0, 1], [1, 2]], reduce_volume=True, switch=sw_int),
        ],
    )
    # B: lossy medium between mixed walls, plane source, flux detector
    S["walls_plane_sigma"] = dict(
        shape=[3, 3, 5], faces=walls, eps={"tier": "iso", "pat": "distinct"}, mu={"tier": "iso", "pat": "distinct", "lo": 1.0, "hi": 2.0},
        sig_e={"tier": "iso", "pat": "some"},
        sources=[dict(kind="plane", box=[[0, 3], [0, 3], [1, 2]], direction="+", fixed_E_polarization_vector=[1, 0, 0], wave={"wavelength": 5e-7})],
        detectors=[
            dict(kind="poynting", box=[[0, 3], [0, 3], [3, 4]], direction="+"),
            dict(kind="energy", box=[[0, 3], [0, 3], [0, 5]], reduce_volume=True),
        ],
    )
    # C: PML on every face
    S["pml_all"] = dict(
        shape=[7, 7, 7], faces=all_pml, pml=2, eps={"tier": "iso", "pat": "seed"},
        sources=[dict(_DIP, box=[[3, 4], [3, 4], [2, 3]], polarization=0)],
        detectors=[
            dict(kind="field", box=[[2, 3], [3, 4], [4, 5]], reduce_volume=False),
            dict(kind="poynting", box=[[2, 5], [2, 5], [4, 5]], direction="+"),
        ],
    )
    # D: no boundary objects at all (zero halo), magnetic dipole, switched source
    S["open_mdipole_switched"] = dict(
        shape=[3, 4, 3], faces={}, eps={"tier": "iso", "pat": "distinct"}, mu={"tier": "diag", "pat": "seed", "lo": 1.0, "hi": 2.0},
        sources=[dict(_DIP, box=[[1, 2], [2, 3], [1, 2]], source_type="magnetic", polarization=1, switch={"fixed_on_time_steps": [0, 2, 3, 6]})],
        detectors=[dict(kind="field", box=[[0, 2], [1, 2], [1, 2]], reduce_volume=False), dict(kind="energy", box=[[0, 3], [0, 4], [0, 3]], reduce_volume=True)],
    )
    # E: one-sided thick PML on z, plane source propagating into it
    S["pmlz3_plane"] = dict(
        shape=[3, 3, 8], faces={"max_z": "pml", "min_z": "pec", "min_x": "periodic", "max_x": "periodic", "min_y": "periodic", "max_y": "periodic"}, pml=3,
        eps={"tier": "iso", "pat": "distinct"},
        sources=[dict(kind="plane", box=[[0, 3], [0, 3], [2, 3]], direction="+", fixed_E_polarization_vector=[0, 1, 0], wave={"wavelength": 4e-7})],
        detectors=[dict(kind="phasor", box=[[1, 2], [1, 2], [3, 4]], wave_characters=[{"wavelength": 4e-7}]), dict(kind="poynting", box=[[0, 3], [0, 3], [4, 5]], direction="+")],
    )
    # F: two sources, magnetic conductivity
    S["two_sources_sigh"] = dict(
        shape=[4, 4, 4], faces={"min_x": "pml", "max_x": "pec"}, pml=2, eps={"tier": "diag", "pat": "seed"}, sig_h={"tier": "iso", "pat": "some"},
        sources=[dict(_DIP, box=[[2, 3], [1, 2], [1, 2]]), dict(_DIP, box=[[3, 4], [2, 3], [2, 3]], polarization=1, source_type="magnetic", switch={"interval": 2})],
        detectors=[dict(kind="field", box=[[2, 3], [2, 3], [2, 3]], reduce_volume=False), dict(kind="energy", box=[[2, 4], [0, 4], [0, 4]], reduce_volume=True)],
    )
    return S


QUICK_SCENES = ["pmlx_dipole", "walls_plane_sigma"]
THOROUGH_SCENES = ["pmlx_dipole", "walls_plane_sigma", "pml_all", "open_mdipole_switched", "pmlz3_plane", "two_sources_sigh"]


def _tmax(tier):
    return 5 if tier == "quick" else 8


def _amax(tier):
    return 150 if tier == "quick" else 600


def cases(tier, seed):
    out = []
    amax = _amax(tier)
    blk = 25 if tier == "quick" else 50
    for lo in range(1, amax + 1, blk):
        out.append(dict(part="a", T_lo=lo, T_hi=min(amax, lo + blk - 1)))
    scs = QUICK_SCENES if tier == "quick" else THOROUGH_SCENES
    for T in range(1, _tmax(tier) + 1):
        for s in scs:
            out.append(dict(part="b", scene=s, T=T, method="checkpointed", counts=list(range(1, T + 1)), error_counts=[], seed=seed))
            out.append(dict(part="b", scene=s, T=T, method="reversible", counts=list(range(0, T)), error_counts=[T, T + 1], seed=seed))
    return out


def bounds(tier, seed):
    amax, tmax = _amax(tier), _tmax(tier)
    scs = QUICK_SCENES if tier == "quick" else THOROUGH_SCENES
    return {
        "slice_partition": f"all (T,k) with 1<=k<=T<={amax}: {amax * (amax + 1) // 2} pairs, exact integers",
        "scenes": scs,
        "T": f"1..{tmax}",
        "configurations_per_T": "None (reference), checkpointed c=1..T, reversible r=0..T-1, reversible r in {T,T+1} (documented error)",
        "runs": sum((2 * T + 2 + 2) for T in range(1, tmax + 1)) * len(scs),
        "tolerance": TOL,
        "seed": seed,
    }


# ----------------------------------------------------------------------------------------------- part a
def _run_a(case):
    from fdtdx.fdtd.fdtd import _reversible_slice_boundaries

    fails, evals, nontriv = [], 0, 0
    for T in range(case["T_lo"], case["T_hi"] + 1):
        for k in range(1, T + 1):
            s = _reversible_slice_boundaries(T, k)
            evals += 1
            bad = None
            if not isinstance(s, list) or len(s) != k + 1:
                bad = "length"
            elif not all(type(v) is int for v in s):
                bad = "non-integer"
            elif s[0] != 0:
                bad = "start"
            elif s[-1] != T:
                bad = "end"
            elif not all(s[i] < s[i + 1] for i in range(k)):
                bad = "not-strictly-increasing"
            if bad:
                fails.append(dict(sig=f"slice-partition:{bad}", detail=dict(T=T, k=k, boundaries=s[:40])))
                if len(fails) > 20:
                    break
            if k >= 2 and T % k != 0:
                nontriv += 1
    return dict(ok=not fails, failures=fails[:5], evals=evals, nontrivial=nontriv, detail=dict(pairs=evals), outcome="partition-ok" if not fails else "partition-bad")


# ----------------------------------------------------------------------------------------------- part b
def _spec(case, gradient):
    import copy

    sp = copy.deepcopy(_scene_specs()[case["scene"]])
    sp["steps"] = case["T"]
    for o in sp.get("sources", []) + sp.get("detectors", []):  # explicit on-step lists are cut to the run length
        sw = o.get("switch")
        if sw and "fixed_on_time_steps" in sw:
            sw["fixed_on_time_steps"] = [t for t in sw["fixed_on_time_steps"] if t < case["T"]]
    sp["seed"] = case.get("seed", 0)
    sp["gradient"] = gradient
    return sp


def _grad(method, count):
    if method == "checkpointed":
        return {"method": "checkpointed", "num_checkpoints": count}
    return {"method": "reversible", "ckpt_rev": count, "recorder": []}


def _run(sc):
    import jax

    fdtdx = __import__("fdtdx")
    t, arrs = fdtdx.run_fdtd(sc.arrays, sc.objects, sc.config, jax.random.PRNGKey(0), show_progress=False)
    return int(t), arrs


def _run_b(case):
    from mc import scenes
    from mc.oracles import drivers as D

    T, method = case["T"], case["method"]
    fails, outcomes = [], {}
    evals = nontriv_n = 0
    detail = {}

    # ---- reference: gradient_config=None
    t0, a0 = _run(scenes.build(_spec(case, None)))
    evals += 1
    ref = D.snapshot(a0)
    if t0 != T:
        fails.append(dict(sig="reference-run:step-count", detail=dict(final=t0, T=T)))
    nz = D.nonzero_groups(ref)
    has_pml = any(k.startswith("psi") for k in ref)
    base_nt = "E" in nz and "H" in nz and any(g.startswith("det/") for g in nz)
    if has_pml and T >= 3:
        base_nt = base_nt and any(g.startswith("psi") for g in nz)
    detail["nonzero"] = nz[:8]

    worst_all = 0.0
    for count in case["counts"]:
        tg, ag = _run(scenes.build(_spec(case, _grad(method, count))))
        evals += 1
        got = D.snapshot(ag)
        bad = False
        if tg != t0:
            fails.append(dict(sig=f"{method}:step-count-differs", detail=dict(final=tg, reference=t0, count=count, T=T)))
            bad = True
        worst, wkey, problems = D.compare(ref, got, TOL)
        worst_all = max(worst_all, worst)
        if problems:
            fails.append(dict(sig=f"{method}:structure-differs", detail=dict(problems=problems[:5], count=count, T=T)))
            bad = True
        if worst > TOL:
            kind = "detectors" if wkey.startswith("det/") else ("psi" if wkey.startswith("psi") else "fields")
            fails.append(dict(sig=f"{method}:{kind}-differ", detail=dict(rel=worst, key=wkey, count=count, T=T)))
            bad = True
        nt = base_nt
        if method == "reversible" and count >= 1:
            # the run really is segmented: count+1 non-empty segments (integer reasoning of the check, not the code's)
            nt = nt and count + 1 <= T
        nontriv_n += int(bool(nt))
        oc = "differs" if bad else f"equal:{method}"
        outcomes[oc] = outcomes.get(oc, 0) + 1

    for count in case.get("error_counts", []):
        evals += 1
        sc_g = scenes.build(_spec(case, _grad(method, count)))
        try:
            t, _ = _run(sc_g)
        except Exception as e:  # documented: "Must not exceed time_steps_total - 1"
            msg = str(e)
            if "num_checkpoints_reversible" in msg and "time_steps_total" in msg:
                nontriv_n += 1
                outcomes["documented-error"] = outcomes.get("documented-error", 0) + 1
                detail["error"] = msg[:160]
            else:
                fails.append(dict(sig="too-many-reversible-checkpoints:undocumented-error", detail=dict(error=repr(e)[:400], count=count, T=T)))
            continue
        fails.append(dict(sig="too-many-reversible-checkpoints:no-error", detail=dict(final_step=t, T=T, count=count)))
    detail["worst_rel"] = worst_all
    return dict(ok=not fails, failures=fails, evals=evals, nontrivial=nontriv_n, detail=detail, outcome=outcomes)


def run_case(case):
    if case["part"] == "a":
        return _run_a(case)
    return _run_b(case)
