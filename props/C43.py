"""C43 — spheres/ellipsoids, cylinders and extruded polygons are rasterised by cell-centre inclusion.

Engine E2: shape menus (radii incl. exact-boundary values, ellipsoid triples, cylinder axes, convex/concave polygons) x
placements x uniform and non-uniform grids <= 8^3; the objects are placed by the real `place_objects`, the mask is read from
`get_voxel_mask_for_shape()` and every cell of the object's region is compared with an oracle in exact rational arithmetic
(fractions) on the cell centres; cells within 1e-9 (relative) of the analytic boundary accept either answer.
"""
from fractions import Fraction as F

ID = "C43"
LEVEL = "exploration"
MANIFEST = {
    "engine": "E2-enum",
    "technique": "bounded exhaustive enumeration of shape menus x placements x grids, every cell compared with an exact rational-arithmetic inclusion oracle",
    "text": "Every sphere/ellipsoid, cylinder and extruded polygon of the menus (radii including values that put cell centres exactly on the surface, all three axes, convex and concave polygons, closed and unclosed vertex lists) is placed by place_objects at every placement of the menu on uniform and non-uniform grids up to 8x8x8; each cell of the voxel mask is compared with 'cell centre strictly inside the analytic shape' evaluated in exact rational arithmetic, with the shape centred on the object's grid region.",
    "note": "Radii, vertices and cell widths come from finite menus (plus one VERIF_SEED-derived radius and grid). The statement is judged on the cells of the object's own region; analytic shapes that stick out of that region (size snapping) are counted as observations.",
}
RULE = (
    "case = (grid kind, volume shape, shape family, placement); every object of the family menu is one element and every cell of its "
    "mask one comparison. An element is non-trivial when its mask contains both marked and unmarked cells (the boundary passes through "
    "the region); distinct = distinct (grid, shape parameters, placement) tuples."
)
ASSUMPTIONS = [
    "radii / polygon vertices / cell widths from finite menus (exact-boundary values, non-integer multiples, one VERIF_SEED-derived value)",
    "cells whose centre is within 1e-9 (relative) of the analytic boundary accept either answer",
    "the analytic shape is centred on the centre of the grid region allocated to the object (ExtrudedPolygon docstring; same convention in sphere.py / cylinder.py)",
]
SP = 50e-9
TOL = 1e-9
RADII = [0.3, 0.5, 0.75, 1.0, 1.25, 1.5, 2.0**0.5, 2.0, 2.5, 3.0, 3.5]
PLACEMENTS = ["centre", "low", "off"]


def _seed_radius(seed):
    return 0.6 + 2.7 * float((0.137 + (seed + 1) * 0.6180339887498949) % 1.0)


def _polygons():
    """Vertex lists in units of SP, bounding box centred on the origin."""
    return {
        "square2": [(-1, -1), (1, -1), (1, 1), (-1, 1)],
        "rect3x2": [(-1.5, -1), (1.5, -1), (1.5, 1), (-1.5, 1)],
        "diamond": [(0, -2), (2, 0), (0, 2), (-2, 0)],
        "triangle": [(-2, -1.5), (2, -1.5), (0, 1.5)],
        "ell": [(-2, -2), (2, -2), (2, 0), (0, 0), (0, 2), (-2, 2)],
        "arrow": [(-2.5, 0), (0, -2), (0, -0.75), (2.5, -0.75), (2.5, 0.75), (0, 0.75), (0, 2)],
        "skew": [(-1.7, -1.2), (1.7, -0.4), (1.1, 1.2), (-0.9, 0.8)],
        "hexagon": [(-2, 0), (-1, -1.75), (1, -1.75), (2, 0), (1, 1.75), (-1, 1.75)],
    }


def cases(tier, seed):
    grids = ["uniform", "rect_distinct"] + (["rect_seed"] if tier == "thorough" or seed else [])
    shapes = [(8, 8, 8), (7, 8, 6)] + ([(5, 6, 7), (8, 5, 8)] if tier == "thorough" else [])
    fams = ["sphere", "ellipsoid", "cylinder", "polygon"]
    out = []
    for g in grids:
        for sh in shapes:
            for fam in fams:
                for pl in PLACEMENTS:
                    if tier == "quick" and fam == "ellipsoid" and pl == "off":
                        continue
                    out.append(dict(grid=g, shape=list(sh), family=fam, placement=pl, seed=seed, tier=tier))
    return out


def bounds(tier, seed):
    return {
        "grids": ["uniform", "rect_distinct"] + (["rect_seed"] if tier == "thorough" or seed else []),
        "volume_shapes": [(8, 8, 8), (7, 8, 6)] + ([(5, 6, 7), (8, 5, 8)] if tier == "thorough" else []),
        "radii_in_cells": RADII + [_seed_radius(seed)],
        "ellipsoids": "all ordered triples of {0.75, 1.5, 2.5} (quick) / {0.5, 0.75, 1.5, 2.5} (thorough) cells",
        "cylinders": "radii menu x 3 axes x axial size {1 cell, whole volume}",
        "polygons": sorted(_polygons()) + ["x scale {1, 1.5}", "x 3 extrusion axes", "closed and unclosed vertex lists"],
        "placements": PLACEMENTS,
        "tolerance": TOL,
        "seed": seed,
    }


def _menu(case):
    """List of element descriptors for the case."""
    fam, seed = case["family"], case["seed"]
    radii = RADII + [_seed_radius(seed)]
    out = []
    if fam == "sphere":
        for r in radii:
            out.append(dict(kind="sphere", r=[r, r, r]))
    elif fam == "ellipsoid":
        import itertools

        vals = [0.75, 1.5, 2.5] if case["tier"] == "quick" else [0.5, 0.75, 1.5, 2.5]
        for t in itertools.product(vals, repeat=3):
            if len(set(t)) > 1:
                out.append(dict(kind="sphere", r=list(t)))
    elif fam == "cylinder":
        for r in radii:
            for ax in range(3):
                for ln in (1, None):
                    out.append(dict(kind="cylinder", r=r, axis=ax, length=ln))
    else:
        for name, v in _polygons().items():
            for ax in range(3):
                for sc in (1.0, 1.5):
                    for closed in (False, True):
                        if closed and (sc != 1.0):
                            continue
                        out.append(dict(kind="polygon", name=name, axis=ax, scale=sc, closed=closed, length=2 if ax != 1 else None))
    return out


# ------------------------------------------------------------------------------------------------ exact oracle
def _frac_edges(e):
    return [F(float(x)) for x in e]


def _inside_ellipse(dx, radii):
    """dx, radii: lists of Fractions (same length). Returns (+1 inside, -1 outside, 0 within tolerance)."""
    f = sum((d / r) ** 2 for d, r in zip(dx, radii))
    if abs(f - 1) <= F(TOL):
        return 0
    return 1 if f < 1 else -1


def _point_in_polygon(px, py, verts, tol):
    """Exact crossing-number test; 0 if within tol of an edge."""
    n = len(verts)
    inside = False
    for i in range(n):
        x1, y1 = verts[i]
        x2, y2 = verts[(i + 1) % n]
        # distance to the segment (squared), exact
        vx, vy = x2 - x1, y2 - y1
        wx, wy = px - x1, py - y1
        L2 = vx * vx + vy * vy
        if L2 == 0:
            d2 = wx * wx + wy * wy
        else:
            t = max(F(0), min(F(1), (wx * vx + wy * vy) / L2))
            ex, ey = wx - t * vx, wy - t * vy
            d2 = ex * ex + ey * ey
        if d2 <= tol * tol:
            return 0
        if (y1 > py) != (y2 > py):
            xint = x1 + (py - y1) * (x2 - x1) / (y2 - y1)
            if px < xint:
                inside = not inside
    return 1 if inside else -1


def expected_mask(el, sl, E):
    """Tri-state expectation (+1/-1/0) for every cell of the object's region, plus 'sticks out' flag.

    el: element descriptor, sl: placed slice [(lo,hi)]*3, E: float edge arrays of the whole grid (my own)."""
    import numpy as np

    FE = [_frac_edges(E[a]) for a in range(3)]
    cen = [[(FE[a][i] + FE[a][i + 1]) / 2 for i in range(sl[a][0], sl[a][1])] for a in range(3)]
    c0 = [(FE[a][sl[a][0]] + FE[a][sl[a][1]]) / 2 for a in range(3)]
    shape = tuple(sl[a][1] - sl[a][0] for a in range(3))
    out = np.zeros(shape, dtype=np.int8)
    sp = F(SP)
    if el["kind"] == "sphere":
        rad = [F(float(r * SP)) for r in el["r"]]
        for i in range(shape[0]):
            for j in range(shape[1]):
                for k in range(shape[2]):
                    out[i, j, k] = _inside_ellipse([cen[0][i] - c0[0], cen[1][j] - c0[1], cen[2][k] - c0[2]], rad)
    elif el["kind"] == "cylinder":
        ax = el["axis"]
        h, v = [a for a in range(3) if a != ax]
        r = F(float(el["r"] * SP))
        plane = np.zeros((shape[h], shape[v]), dtype=np.int8)
        for i in range(shape[h]):
            for j in range(shape[v]):
                plane[i, j] = _inside_ellipse([cen[h][i] - c0[h], cen[v][j] - c0[v]], [r, r])
        out = np.broadcast_to(np.expand_dims(plane, ax), shape).copy()
    else:
        ax = el["axis"]
        h, v = [a for a in range(3) if a != ax]
        verts = [(F(float(x * el["scale"] * SP)), F(float(y * el["scale"] * SP))) for x, y in _polygons()[el["name"]]]
        plane = np.zeros((shape[h], shape[v]), dtype=np.int8)
        for i in range(shape[h]):
            for j in range(shape[v]):
                plane[i, j] = _point_in_polygon(cen[h][i] - c0[h], cen[v][j] - c0[v], verts, F(TOL) * sp)
        out = np.broadcast_to(np.expand_dims(plane, ax), shape).copy()
    return out


def _sticks_out(el, sl, E):
    """Does the analytic shape contain a cell centre of the grid outside the object's region (along the transverse axes)?"""
    import numpy as np

    for a in range(3):
        if el["kind"] != "sphere" and a == el["axis"]:
            continue
        c0 = 0.5 * (E[a][sl[a][0]] + E[a][sl[a][1]])
        if el["kind"] == "sphere":
            r = el["r"][a] * SP
        elif el["kind"] == "cylinder":
            r = el["r"] * SP
        else:
            vs = np.asarray(_polygons()[el["name"]], dtype=float) * el["scale"] * SP
            tr = [x for x in range(3) if x != el["axis"]]
            r = 0.5 * (vs[:, tr.index(a)].max() - vs[:, tr.index(a)].min())
        cc = 0.5 * (E[a][:-1] + E[a][1:])
        outside = np.concatenate([cc[: sl[a][0]], cc[sl[a][1] :]])
        if outside.size and np.any(np.abs(outside - c0) < r * (1 - 1e-9)):
            return True
    return False


# ------------------------------------------------------------------------------------------------ real code
def run_case(case):
    import jax
    import jax.numpy as jnp
    import numpy as np

    from mc import guard
    from mc.oracles import placement as P

    fdtdx = guard.import_fdtdx()
    shape = tuple(case["shape"])
    seed = case["seed"]
    E = [P.axis_edges(case["grid"], shape[a], SP, seed, a) for a in range(3)]
    if case["grid"] == "uniform":
        grid = fdtdx.UniformGrid(spacing=SP)
    else:
        grid = fdtdx.RectilinearGrid.custom(jnp.asarray(E[0]), jnp.asarray(E[1]), jnp.asarray(E[2]))
    cfg = fdtdx.SimulationConfig(time=1e-15, grid=grid, backend="cpu", dtype=jnp.float64)
    vol = fdtdx.SimulationVolume(name="volume", partial_grid_shape=shape)
    mats = {"air": fdtdx.Material(permittivity=1.0), "m": fdtdx.Material(permittivity=4.0)}
    menu = _menu(case)
    fails = []
    outcome = {}
    evals = nontriv = 0

    def tally(k):
        outcome[k] = outcome.get(k, 0) + 1

    def position(o):
        pl = case["placement"]
        if pl == "centre":
            return [o.place_at_center(vol, axes=(0, 1, 2))]
        if pl == "low":
            return [o.place_relative_to(vol, axes=(0, 1, 2), own_positions=(-1, -1, -1), other_positions=(-1, -1, -1))]
        return [o.place_relative_to(vol, axes=(0, 1, 2), own_positions=(0, 0, 0), other_positions=(0, 0, 0), margins=(0.7 * SP, -1.3 * SP, 0.4 * SP))]

    # each element gets its own place_objects call when the batch fails to resolve (documented rejections are per element)
    def build(el, idx):
        nm = f"s{idx}"
        if el["kind"] == "sphere":
            r = el["r"]
            o = fdtdx.Sphere(name=nm, materials=mats, material_name="m", radius=r[0] * SP, radius_x=r[0] * SP, radius_y=r[1] * SP, radius_z=r[2] * SP)
            return o, position(o)
        if el["kind"] == "cylinder":
            kw = {}
            if el["length"] is not None:
                gs = [None, None, None]
                gs[el["axis"]] = el["length"]
                kw["partial_grid_shape"] = tuple(gs)
            o = fdtdx.Cylinder(name=nm, materials=mats, material_name="m", radius=el["r"] * SP, axis=el["axis"], **kw)
        else:
            v = np.asarray(_polygons()[el["name"]], dtype=float) * el["scale"] * SP
            if el["closed"]:
                v = np.concatenate([v, v[:1]])
            kw = {}
            if el["length"] is not None:
                gs = [None, None, None]
                gs[el["axis"]] = el["length"]
                kw["partial_grid_shape"] = tuple(gs)
            o = fdtdx.ExtrudedPolygon(name=nm, materials=mats, material_name="m", axis=el["axis"], vertices=v, **kw)
        cons = position(o)
        if el["length"] is None:
            # the extrusion axis is left to span the volume: position only the two transverse axes
            tr = tuple(a for a in range(3) if a != el["axis"])
            c = cons[0]
            from fdtdx.objects.object import PositionConstraint

            keep = [i for i, a in enumerate(c.axes) if a in tr]
            cons = [PositionConstraint(object=c.object, other_object=c.other_object, axes=tuple(c.axes[i] for i in keep), object_positions=tuple(c.object_positions[i] for i in keep), other_object_positions=tuple(c.other_object_positions[i] for i in keep), margins=tuple(c.margins[i] for i in keep), grid_margins=tuple(c.grid_margins[i] for i in keep))]
        return o, cons

    built = [build(el, i) for i, el in enumerate(menu)]

    def place(indices):
        objs = [vol] + [built[i][0] for i in indices]
        cons = [c for i in indices for c in built[i][1]]
        oc, *_ = fdtdx.place_objects(objs, cfg, cons, key=jax.random.PRNGKey(0))
        return oc

    placed = {}
    try:
        oc = place(list(range(len(menu))))
        for i in range(len(menu)):
            placed[i] = oc[f"s{i}"]
    except ValueError:
        for i in range(len(menu)):
            try:
                placed[i] = place([i])[f"s{i}"]
            except ValueError as e:
                if "Failed to resolve object constraints" not in str(e):
                    raise
                placed[i] = None
    for i, el in enumerate(menu):
        o = placed[i]
        evals += 1
        if o is None:
            tally("rejected-by-placement")
            continue
        g = o._config.resolved_grid
        for a in range(3):
            if float(np.max(np.abs(np.asarray(g.edges(a)) - E[a]))) > 1e-12 * SP:
                raise RuntimeError("harness: grid edges differ from the edges the check supplied")
        sl = [tuple(x) for x in o.grid_slice_tuple]
        got = np.asarray(o.get_voxel_mask_for_shape())
        want = expected_mask(el, sl, E)
        desc = dict(el, grid=case["grid"], volume=shape, placement=case["placement"], slice=sl)
        try:
            # the mask is used by broadcasting against the object's region (Cylinder returns extent 1 along its axis)
            got = np.broadcast_to(got, want.shape)
        except ValueError:
            pass
        if got.shape != want.shape:
            fails.append(dict(sig=f"{el['kind']}:mask-shape", detail=dict(desc, got=got.shape, want=want.shape)))
            continue
        if got.dtype != np.bool_:
            fails.append(dict(sig=f"{el['kind']}:mask-not-boolean", detail=dict(desc, dtype=str(got.dtype))))
        marked_wrong = np.argwhere((want == -1) & got)
        missed = np.argwhere((want == 1) & ~got)
        if len(marked_wrong) or len(missed):
            cls = "closed" if el.get("closed") else "open"
            sig = f"{el['kind']}:" + ("cell-outside-shape-marked" if len(marked_wrong) else "cell-inside-shape-not-marked")
            if el["kind"] == "polygon":
                sig += f":{cls}-vertex-list"
            sig += ":uniform" if case["grid"] == "uniform" else ":nonuniform"
            fails.append(dict(sig=sig, detail=dict(desc, marked_but_outside=marked_wrong[:5].tolist(), inside_but_unmarked=missed[:5].tolist(), got=got.astype(int).tolist() if got.size <= 64 else None)))
        n1, n0 = int(got.sum()), int(got.size - got.sum())
        if n1 and n0:
            nontriv += 1
        tally("mixed" if n1 and n0 else ("all-marked" if n1 else "none-marked"))
        if int((want == 0).sum()):
            tally("has-boundary-cells")
        if _sticks_out(el, sl, E):
            tally("obs:analytic-shape-exceeds-object-region")
    return dict(ok=not fails, failures=fails[:12], nontrivial=nontriv, evals=evals, outcome=outcome, detail=dict(outcome, elements=len(menu)))
