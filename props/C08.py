"""C08 — the solver is equivariant under cyclic permutation of the axes (x->y, y->z, z->x).

Engine E1, three-system comparison. A scene spec is relabelled cyclically once and twice (volume shape, grid edges, material
arrays incl. tensor components, faces, PML, plane/dipole/TFSF sources with their polarizations and tilt angles, detectors
without co-location). The real forward step + detector update of every orientation is evaluated on the complete row set
(zero, every basis state of (E,H,psi), affinity rows, pairs over detector cells, zero/dense probes at every time index):
    step_sigma(P s) == P step(s)        and        records_sigma(P s) == P_R records(s).
"""
import numpy as np

ID = "C08"
LEVEL = "model_checking"
MANIFEST = {
    "engine": "E1-linsys",
    "technique": "explicit-state model checking: transition tables of the three cyclic orientations of each scene tabulated on all basis states and compared through the component+axis permutation",
    "text": "Each scene of the menu (all boundary kinds incl. PML subsets, full-tensor permittivity with distinct components, plane/Gaussian/dipole/TFSF sources with polarizations and tilts, raw-component detectors) is relabelled cyclically once and twice; all three real forward steps are tabulated on every basis state and at every time index for the source offsets, and must be conjugate under the permutation, which decides equivariance for every field and any number of steps.",
    "note": "Materials are set per cell (all-distinct) in orientation 0 and permuted into the other two; psi auxiliaries are matched through the PML face relabelling; float64.",
}
RULE = (
    "case = (faces, source, detector set, materials, grid) index tuple with deviation bound; three orientations per case. Non-trivial = the scene "
    "is not invariant under the relabelling (asymmetric shape/materials, always true here) and has a source offset or a record (measured); "
    "distinct = distinct tuples."
)
ASSUMPTIONS = ["float64 representative of float32", "values from finite alphabets", "detectors without co-location (exact_interpolation=False) as the property states"]
TOL = 1e-9
T = 6
SHAPE = [3, 4, 5]
W = {"wavelength": 0.6e-6}

FACES = [
    ("periodic/pecpmc/none", ["periodic", ("pec", "pmc"), "none"], 1),
    ("pmlx1/periodic/pmc-pec", ["pml", "periodic", ("pmc", "pec")], 1),
    ("pml-minx2,maxz1/none/..", [("pml", "none"), ("pec", "none"), ("none", "pml")], 1),
    ("bloch/periodic/pml", ["bloch", "periodic", "pml"], 1),
    ("none3", ["none", "none", "none"], 1),
    ("pml-all", ["pml", "pml", "pml"], 1),
]
SOURCES = [
    ("plane+z-polx", dict(kind="plane", box=[[0, 3], [0, 4], [2, 3]], direction="+", fixed_E_polarization_vector=[1, 0, 0], wave=W)),
    ("none", None),
    ("plane-x-pol(0,1,2)", dict(kind="plane", box=[[1, 2], [0, 4], [0, 5]], direction="-", fixed_E_polarization_vector=[0, 1, 2], wave=W)),
    ("plane+y-Hpol-tilt", dict(kind="plane", box=[[0, 3], [2, 3], [0, 5]], direction="+", fixed_H_polarization_vector=[1, 0, 0], azimuth_angle=20.0, elevation_angle=-10.0, wave=W)),
    ("gauss+z", dict(kind="gauss", box=[[0, 3], [0, 4], [1, 2]], direction="+", fixed_E_polarization_vector=[0, 1, 0], radius=90e-9, wave=W)),
    ("dipEy", dict(kind="dipole", box=[[1, 2], [2, 3], [3, 4]], polarization=1, wave=W)),
    ("dipMz-tilt", dict(kind="dipole", box=[[1, 2], [1, 2], [2, 3]], polarization=2, source_type="magnetic", azimuth_angle=25.0, elevation_angle=15.0, wave=W)),
    ("tfsf+y", dict(kind="tfsf", box=[[1, 2], [1, 3], [1, 4]], direction="+", propagation_axis=1, fixed_E_polarization_vector=[0, 0, 1], wave=W)),
]
DETS = [
    ("field-raw", [dict(kind="field", box=[[0, 2], [1, 3], [2, 4]], exact_interpolation=False, components=["Ex", "Hy", "Hz"])]),
    ("field-raw-reduced+energy", [dict(kind="field", box=[[1, 3], [0, 4], [0, 2]], exact_interpolation=False, reduce_volume=True), dict(kind="energy", box=[[0, 2], [1, 2], [3, 5]], exact_interpolation=False)]),
    ("poynting-raw", [dict(kind="poynting", box=[[0, 3], [1, 3], [3, 4]], direction="+", exact_interpolation=False), dict(kind="poynting", box=[[1, 2], [0, 4], [0, 5]], direction="-", exact_interpolation=False, reduce_volume=False, keep_all_components=True)]),
]
MATS = [
    ("iso+mu-iso", dict(eps={"tier": "iso", "pat": "distinct", "lo": 1.0, "hi": 3.0}, mu={"tier": "iso", "pat": "seed", "lo": 1.0, "hi": 2.0})),
    ("full", dict(eps={"tier": "full", "pat": "distinct", "lo": 1.0, "hi": 3.0})),
    ("diag+mu-diag", dict(eps={"tier": "diag", "pat": "distinct", "lo": 1.0, "hi": 3.0}, mu={"tier": "diag", "pat": "seed", "lo": 1.0, "hi": 2.0})),
    ("iso+sigE-diag", dict(eps={"tier": "iso", "pat": "distinct", "lo": 1.0, "hi": 3.0}, sig_e={"tier": "diag", "pat": "distinct"})),
    ("full-eps-mu", dict(eps={"tier": "full", "pat": "seed", "lo": 1.0, "hi": 3.0}, mu={"tier": "full", "pat": "distinct", "lo": 1.0, "hi": 2.0})),
]
GRIDS = [("uniform", "uniform"), ("rect_distinct", "rect_distinct")]
DIMS = ["faces", "src", "dets", "mats", "grid"]
MENUS = [FACES, SOURCES, DETS, MATS, GRIDS]


def cases(tier, seed):
    from mc import menus as m

    sizes = [len(x) for x in MENUS]
    if tier == "quick":
        idx = m.enumerate_deviations(sizes, 2, pairs_only={frozenset((0, 1)), frozenset((1, 3))})
    else:
        idx = m.enumerate_deviations(sizes, 3)
    return [dict(idx=list(t), seed=seed) for t in idx]


def bounds(tier, seed):
    return {
        "menus": {d: [e[0] for e in mm] for d, mm in zip(DIMS, MENUS)},
        "deviation_bound": "quick: <=1 + (faces,src),(src,mats) pairs; thorough: <=3",
        "orientations": 3,
        "rows": "zero + all basis states (E,H,psi) + affinity + detector-cell pairs + zero/dense probes at every t",
        "tolerance": TOL,
    }


# ------------------------------------------------------------------ relabelling x->y, y->z, z->x
def cyc(a):
    return (a + 1) % 3


def perm_vec(v):
    """vector components: new[cyc(a)] = old[a]"""
    out = [0, 0, 0]
    for a in range(3):
        out[cyc(a)] = v[a]
    return out


def perm_box(b):
    return perm_vec(b)


COMP = {"x": "y", "y": "z", "z": "x"}


def permute_spec(spec):
    s = dict(spec)
    s["shape"] = perm_vec(spec["shape"])
    f = {}
    for k, v in spec.get("faces", {}).items():
        side, ax = k.split("_")
        f[f"{side}_{COMP[ax]}"] = v
    s["faces"] = f
    if isinstance(spec.get("pml"), dict):
        s["pml"] = {f"{k.split('_')[0]}_{COMP[k.split('_')[1]]}": v for k, v in spec["pml"].items()}
    if "bloch" in spec:
        s["bloch"] = perm_vec(spec["bloch"])
    if isinstance(spec.get("grid"), dict):
        s["grid"] = {"edges": perm_vec(spec["grid"]["edges"])}
    srcs = []
    for o in spec.get("sources", []) or []:
        o = dict(o)
        o["box"] = perm_box(o["box"])
        for k in ("fixed_E_polarization_vector", "fixed_H_polarization_vector"):
            if o.get(k) is not None:
                o[k] = perm_vec(o[k])
        if "polarization" in o:
            o["polarization"] = cyc(o["polarization"])
        if "propagation_axis" in o:
            o["propagation_axis"] = cyc(o["propagation_axis"])
        if "periodic_axes" in o:
            o["periodic_axes"] = [cyc(a) for a in o["periodic_axes"]]
        srcs.append(o)
    if srcs:
        s["sources"] = srcs
    dets = []
    for o in spec.get("detectors", []) or []:
        o = dict(o)
        o["box"] = perm_box(o["box"])
        if "components" in o:
            o["components"] = [c[0] + COMP[c[1]] for c in o["components"]]
        if o.get("fixed_propagation_axis") is not None:
            o["fixed_propagation_axis"] = cyc(o["fixed_propagation_axis"])
        dets.append(o)
    if dets:
        s["detectors"] = dets
    for k in ("eps", "mu", "sig_e", "sig_h"):
        s.pop(k, None)  # materials are permuted from orientation 0 arrays
    return s


def perm_field(a):
    """(3, nx, ny, nz) -> relabelled: new[cyc(c)][k, i, j] = old[c][i, j, k]"""
    out = [None, None, None]
    for c in range(3):
        out[cyc(c)] = np.transpose(a[c], (2, 0, 1))
    return np.stack(out)


def perm_material(a):
    nc = a.shape[0]
    if nc == 1:
        return np.transpose(a, (0, 3, 1, 2))
    if nc == 3:
        return perm_field(a)
    t = a.reshape(3, 3, *a.shape[1:])
    out = np.zeros((3, 3, a.shape[3], a.shape[1], a.shape[2]), dtype=a.dtype)
    for i in range(3):
        for j in range(3):
            out[cyc(i), cyc(j)] = np.transpose(t[i, j], (2, 0, 1))
    return out.reshape(9, *out.shape[2:])


def base_spec(case):
    from mc import scenes

    i = case["idx"]
    fname, fax, th = FACES[i[0]]
    spec = dict(shape=SHAPE, faces=scenes.faces_from_axes(fax), pml=th, steps=T, seed=case["seed"], grid=GRIDS[i[4]][1])
    if GRIDS[i[4]][1] != "uniform":
        spec["grid"] = {"edges": [list(map(float, scenes.edges_for(GRIDS[i[4]][1], SHAPE[a], 50e-9, case["seed"], a))) for a in range(3)]}
    if any(v == "bloch" for v in spec["faces"].values()):
        spec["bloch"] = [0.8 / (50e-9 * 3), 0.0, 0.0]
    spec.update(MATS[i[3]][1])
    if SOURCES[i[1]][1] is not None:
        spec["sources"] = [dict(SOURCES[i[1]][1])]
    spec["detectors"] = [dict(d) for d in DETS[i[2]][1]]
    return spec


def state_perm(scA, cA, scB, cB):
    """Index permutation p with s_B = s_A[p] (flat states), matching psi slots through the PML face relabelling."""
    n = cA.n
    idxA = np.arange(n)
    vals = {}
    for (path, shp), off in zip(cA.slots, cA.offsets):
        vals[path] = idxA[off : off + int(np.prod(shp))].reshape(shp)
    p = np.zeros(cB.n, dtype=np.int64)
    for (path, shp), off in zip(cB.slots, cB.offsets):
        if path[0] in ("E", "H"):
            src = perm_field(vals[path])
        else:
            # psi: boundary name b_min_x in A corresponds to b_min_y in B
            side, ax = path[1].split("_")[1:]
            inv = {"y": "x", "z": "y", "x": "z"}[ax]
            src = np.transpose(vals[(path[0], f"b_{side}_{inv}", path[2])], (2, 0, 1))
        assert tuple(src.shape) == tuple(shp), (path, src.shape, shp)
        p[off : off + int(np.prod(shp))] = src.ravel()
    return p


def obs_perm(scA, scB):
    """Index permutation q with O_B = O_A[q]: arrays whose trailing three dims are the detector's grid shape are relabelled,
    a trailing axis of length 3 holding vector components is cycled."""
    from mc import tables
    import fdtdx

    layA = tables.det_layout(scA.arrays.detector_states)
    layB = tables.det_layout(scB.arrays.detector_states)
    offA, o = {}, 0
    for name, k, shp, dt in layA:
        sz = int(np.prod(shp)) if len(shp) else 1
        offA[(name, k)] = (o, shp)
        o += sz
    q = []
    for name, k, shpB, dt in layB:
        o, shpA = offA[(name, k)]
        idx = np.arange(o, o + (int(np.prod(shpA)) if len(shpA) else 1)).reshape(shpA)
        det = scA.objects[name]
        gsA = tuple(det.grid_shape)
        nd = len(shpA)
        spatial = nd >= 3 and tuple(shpA[-3:]) == gsA
        comp_axis = None
        if isinstance(det, fdtdx.FieldDetector) or isinstance(det, fdtdx.PhasorDetector):
            comp_axis = nd - 4 if spatial else nd - 1
            canon = ["Ex", "Ey", "Ez", "Hx", "Hy", "Hz"]
            compsA = [c for c in canon if c in det.components]
            compsB = [c for c in canon if c in [x[0] + COMP[x[1]] for x in det.components]]
            inv = {v: k2 for k2, v in COMP.items()}
            take = [compsA.index(c[0] + inv[c[1]]) for c in compsB]
            idx = np.take(idx, take, axis=comp_axis)
        elif getattr(det, "keep_all_components", False):
            comp_axis = nd - 4 if spatial else nd - 1
            if shpA[comp_axis] == 3:
                idx = np.roll(idx, 1, axis=comp_axis)
        if spatial:
            idx = np.transpose(idx, tuple(range(nd - 3)) + (nd - 1, nd - 3, nd - 2))
        assert tuple(idx.shape) == tuple(shpB), (name, k, idx.shape, shpB)
        q.extend(idx.ravel().tolist())
    return np.asarray(q, dtype=np.int64)


def run_case(case):
    from mc import linsys, scenes, tables
    import jax.numpy as jnp
    import props.C11 as c11

    names = {d: m[i][0] for d, m, i in zip(DIMS, MENUS, case["idx"])}
    specs = [base_spec(case)]
    specs.append(permute_spec(specs[0]))
    specs.append(permute_spec(specs[1]))
    try:
        scs = [scenes.build(specs[0])]
        for k in (1, 2):
            sc = scenes.build(specs[k])
            prev = scs[k - 1].arrays
            arr = sc.arrays.aset("inv_permittivities", jnp.asarray(perm_material(np.asarray(prev.inv_permittivities))))
            if hasattr(prev.inv_permeabilities, "shape") and np.ndim(prev.inv_permeabilities) > 0:
                arr = arr.aset("inv_permeabilities", jnp.asarray(perm_material(np.asarray(prev.inv_permeabilities))))
            if prev.electric_conductivity is not None:
                arr = arr.aset("electric_conductivity", jnp.asarray(perm_material(np.asarray(prev.electric_conductivity))))
            sc.arrays = arr
            scenes.reapply(sc)
            scs.append(sc)
    except Exception as e:
        if not (isinstance(e, (ValueError, NotImplementedError)) or "not supported" in repr(e) or "NotImplementedError" in repr(e)):
            raise
        return dict(ok=True, detail={"rejected": repr(e)[:300], "names": names}, nontrivial=0, evals=1, states=1, transitions=1, traces=0, outcome="rejected-by-placement")
    codecs = [linsys.Codec(s.arrays) for s in scs]
    n = codecs[0].n
    isc = bool(codecs[0].is_complex)
    keep = linsys.wall_keep(scs[0], codecs[0])
    rows = tables.Rows(n, isc, T, t0s=(0,), pair_idx=c11.det_cells_index_set(scs[0], codecs[0], limit=24), seed=case["seed"], keep=keep)
    X = [rows.X]
    Ys, Os = [], []
    Y0, O0 = tables.run(scs[0], codecs[0], rows.tvec, rows.X)
    Ys.append(Y0)
    Os.append(O0)
    fails = []
    detail = dict(names=names, n=n, rows=len(rows.tvec))
    sY = max(1.0, float(np.max(np.abs(Y0))))
    sO = max(1e-300, float(np.max(np.abs(O0)))) if O0.size else 1.0
    for k in (1, 2):
        p = state_perm(scs[k - 1], codecs[k - 1], scs[k], codecs[k])
        q = obs_perm(scs[k - 1], scs[k]) if O0.size else np.zeros(0, dtype=np.int64)
        Xk = X[k - 1][:, p]
        X.append(Xk)
        Yk, Ok = tables.run(scs[k], codecs[k], rows.tvec, Xk)
        expY = Ys[k - 1][:, p]
        expO = Os[k - 1][:, q] if O0.size else Ok
        dY = float(np.max(np.abs(Yk - expY))) / sY
        dO = float(np.max(np.abs(Ok - expO))) / sO if O0.size else 0.0
        detail[f"state_defect_rot{k}"] = dY
        detail[f"record_defect_rot{k}"] = dO
        if dY > TOL:
            r = int(np.argmax(np.max(np.abs(Yk - expY), axis=1)))
            fails.append(dict(sig=f"fields-not-equivariant:src={names['src'].split('-')[0].split('+')[0]}", detail=dict(detail, worst_row=str(rows.labels[r]))))
        if dO > TOL:
            fails.append(dict(sig="records-not-equivariant", detail=dict(detail)))
        Ys.append(Yk)
        Os.append(Ok)
    daff = tables.affinity_defect(rows, Y0, 0) / sY
    detail["affinity_defect"] = daff
    if daff > TOL:
        fails.append(dict(sig="step-not-affine", detail=detail))
    bmax = max(float(np.max(np.abs(Y0[rows.index[("zero_t", t)]]))) for t in range(T))
    ev = 3 * len(rows.tvec)
    return dict(ok=not fails, failures=fails, detail=detail, nontrivial=int(bmax > 0 or (O0.size and sO > 1e-200)), evals=ev, states=ev, transitions=ev, traces=0, outcome=f"src={'y' if bmax > 0 else 'n'}")
