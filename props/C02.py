"""C02 — one backward step exactly undoes one forward step (no absorbing layers, non-dispersive).

Engine E1. For each scene of the deviation-bounded menu: the real `forward` and `backward` are tabulated on all
basis states (M_f, M_b), the source offsets b_f(t) = forward_t(0), b_b(t+1) = backward_{t+1}(0) are evaluated at
EVERY time index of the run, and time-independence of the linear part is checked with dense probes at every t.
Oracle:  Pi M_b M_f Pi = Pi  (wall-consistent states)   and   M_b b_f(t) + b_b(t+1) = 0  for all t.
"""
import numpy as np

ID = "C02"
LEVEL = "model_checking"
MANIFEST = {
    "engine": "E1-linsys",
    "technique": "explicit-state model checking: exhaustive tabulation of real forward/backward steps on all basis states, inverse identity on the tables at every time index",
    "text": "Every scene within a deviation bound of the menus (all public source kinds, switches, temporal profiles, amplitude, PEC/PMC/periodic/Bloch faces, iso/diag/conductive/full-tensor materials, uniform and non-uniform grids) has its forward and backward step tabulated on every basis state; M_b M_f = I on wall-consistent states and exact cancellation of the source injection are checked at every time index, which covers every field input.",
    "note": "Material/grid values from finite alphabets; linear part verified time-independent with dense probes at each t; float64; conformance: forward trajectory + full_backward through the JIT drivers on dense states for a subset of scenes.",
}
RULE = (
    "case = index tuple over (source, switch, profile, amplitude, faces, materials, grid) menus with at most d non-base entries "
    "(quick: d<=1 plus all source x {faces, materials, grid} pairs; thorough: d<=2 plus source x faces x materials triples). "
    "Non-trivial = the scene's source injects a non-zero offset at >=1 time index of the run or the scene has walls/Bloch/"
    "conductivity/full tensors; distinct = distinct index tuples."
)
ASSUMPTIONS = [
    "float64 evaluation is representative of the float32 default",
    "material, grid-edge, amplitude and schedule values come from finite menus (degenerate + all-distinct + VERIF_SEED pattern)",
    "ModePlaneSource is excluded (needs the tidy3d mode solver on a tiny inhomogeneous cross-section; not a linear-table question)",
]
TOL = 1e-9
T = 10
DIMS = ["src", "switch", "profile", "amp", "faces", "mats", "grid"]


def _menus(dt):
    from mc import menus as m

    return [m.sources_menu(), m.switch_menu(dt, T), m.profile_menu(dt, T), m.AMP_MENU, m.FACES_MENU, m.MATS_MENU, m.GRID_MENU]


def _sizes():
    return [len(x) for x in _menus(1e-16)]


def cases(tier, seed):
    from mc import menus as m

    sizes = _sizes()
    S, SW, P, A, F, M, G = range(7)
    if tier == "quick":
        pairs = {frozenset((S, F)), frozenset((S, M)), frozenset((S, G)), frozenset((SW, P))}
        idx = m.enumerate_deviations(sizes, 2, pairs_only=pairs)
    else:
        idx = m.enumerate_deviations(sizes, 2)
        seen = set(idx)
        for s in range(1, sizes[S]):
            for f in range(1, sizes[F]):
                for mm in range(1, sizes[M]):
                    t = (s, 0, 0, 0, f, mm, 0)
                    if t not in seen:
                        idx.append(t)
    out = []
    for k, t in enumerate(idx):
        out.append(dict(idx=list(t), seed=seed, conf=(k % 29 == 0)))
    return out


def bounds(tier, seed):
    ms = _menus(1e-16)
    return {
        "menus": {d: [e[0] for e in mm] for d, mm in zip(DIMS, ms)},
        "deviation_bound": "quick: <=1 + pairs (src,faces),(src,mats),(src,grid),(switch,profile); thorough: <=2 + (src,faces,mats) triples",
        "time_indices": f"every t in [0,{T})",
        "basis": "all basis states of (E,H) for forward and backward; dense probes at every t",
        "tolerance": TOL,
        "seed": seed,
    }


def spec_of(case):
    from mc import menus as m
    from mc import scenes

    idx = case["idx"]
    grid = m.GRID_MENU[idx[6]][1]
    base = dict(shape=m.SHAPE, grid=grid, seed=case["seed"], steps=T, gradient={"method": "reversible", "recorder": []})
    dt = scenes.time_step_of(base)
    ms = _menus(dt)
    src = ms[0][idx[0]][1]
    spec = dict(base)
    spec["faces"] = scenes.faces_from_axes(m.FACES_MENU[idx[4]][1])
    if any(v == "bloch" for v in spec["faces"].values()):
        spec["bloch"] = [(0.9 + 0.1 * (case["seed"] % 5)) / (50e-9 * 4) * (1 + 0.37 * a) for a in range(3)]
    spec.update(m.MATS_MENU[idx[5]][1])
    if src is not None:
        s = dict(src)
        if ms[1][idx[1]][1] is not None:
            s["switch"] = ms[1][idx[1]][1]
        if ms[2][idx[2]][1] is not None:
            s["profile"] = ms[2][idx[2]][1]
        if m.AMP_MENU[idx[3]][1] is not None:
            s["amp"] = m.AMP_MENU[idx[3]][1]
        spec["sources"] = [s]
    names = {d: mm[i][0] for d, mm, i in zip(DIMS, ms, idx)}
    return spec, names


def run_case(case):
    from mc import linsys, scenes
    import jax
    import jax.numpy as jnp

    spec, names = spec_of(case)
    try:
        sc = scenes.build(spec)
    except Exception as e:
        # the library itself rejects this combination at placement (documented ValueError/NotImplementedError, the
        # latter also surfacing through jax.debug.callback): outside the property's domain. Anything else is a failure.
        if not (isinstance(e, (ValueError, NotImplementedError)) or "not supported" in repr(e) or "NotImplementedError" in repr(e)):
            raise
        return dict(ok=True, detail={"rejected": repr(e)[:300], "names": names}, nontrivial=0, evals=1, states=1, transitions=1, traces=0, outcome="rejected-by-placement")
    codec = linsys.Codec(sc.arrays)
    n = codec.n
    keep = linsys.wall_keep(sc, codec)
    fails = []
    detail = {"names": names}
    block = list(range(0, n, max(1, n // 8)))[:8]
    B = n + 1 + len(linsys.affinity_rows(n, block, codec.is_complex))
    F = linsys.Stepper(sc, codec, "forward", B)
    G = linsys.Stepper(sc, codec, "backward", B)
    Mf, bf0, daf, ev1 = F.tabulate(0, block)
    Mb, bb1, dab, ev2 = G.tabulate(1, block)
    evals = ev1 + ev2
    if max(daf, dab) > TOL:
        fails.append(dict(sig="step-not-affine", detail={"forward": daf, "backward": dab}))
    # inverse identity on wall-consistent states
    P = keep
    R = (Mb @ Mf) * P[None, :]  # columns restricted to wall-consistent inputs
    I = np.diag(P)
    scale = max(1.0, float(np.max(np.abs(Mf))))
    r_lin = float(np.max(np.abs(R - I))) / scale
    detail["inverse_residual"] = r_lin
    if r_lin > TOL:
        j = int(np.argmax(np.max(np.abs(R - I), axis=0)))
        fails.append(dict(sig="backward-forward-not-identity", detail={"residual": r_lin, "worst_input_index": j}))
    # every time index: offsets and time-independence of the linear part (one batched evaluation per direction)
    cd = np.complex128 if codec.is_complex else np.float64
    probes = np.stack([linsys.dense_state(n, "distinct", 0, codec.is_complex) * P, linsys.dense_state(n, "seed", case["seed"], codec.is_complex) * P, np.zeros(n)]).astype(cd)
    tt = np.repeat(np.arange(T), 3)
    of = F(tt, np.tile(probes, (T, 1))).reshape(T, 3, n)
    # backward at t+1 applied to: the three forward outputs, the zero state, probe 0
    rows = np.concatenate([of, np.zeros((T, 1, n), dtype=cd), np.tile(probes[:1], (T, 1))[:, None, :]], axis=1)
    og = G(np.repeat(np.arange(1, T + 1), 5), rows.reshape(T * 5, n)).reshape(T, 5, n)
    evals += T * 8
    bfs = of[:, 2, :]
    bbs = og[:, 3, :]
    bscale = float(np.max(np.abs(bfs)))
    active = int(np.sum(np.max(np.abs(bfs), axis=1) > 0))
    lin_f = (Mf @ probes[:2].T).T
    r_ti = float(np.max(np.abs((of[:, :2, :] - bfs[:, None, :]) - lin_f[None])))
    r_ti = max(r_ti, float(np.max(np.abs(og[:, 4, :] - bbs - (Mb @ probes[0])[None, :]))))
    r_src = float(np.max(np.abs(og[:, :3, :] - probes[None])))
    r_src = max(r_src, float(np.max(np.abs((Mb @ bfs.T).T + bbs))))
    detail.update(source_residual=r_src, time_independence_residual=r_ti, active_steps=active, offset_scale=bscale)
    sc_b = max(1.0, bscale)
    if r_src / sc_b > TOL:
        fails.append(dict(sig="source-injection-not-undone", detail={"residual": r_src, "names": names}))
    if r_ti / sc_b > TOL:
        fails.append(dict(sig="linear-part-depends-on-time", detail={"residual": r_ti}))
    traces = 0
    if case.get("conf"):
        from fdtdx.fdtd.backward import full_backward
        from fdtdx.fdtd.fdtd import custom_fdtd_forward

        s0 = probes[0]
        a0 = codec.unpack(sc.arrays, jnp.asarray(s0, dtype=codec.dtype))
        k = 5
        _, ak = custom_fdtd_forward(a0, sc.objects, sc.config, jax.random.PRNGKey(0), reset_container=False, record_detectors=False, start_time=0, end_time=k, show_progress=False)
        got = np.asarray(codec.pack(ak))
        exp = s0.copy()
        for t in range(k):
            exp = Mf @ exp + bfs[t]
        d1 = float(np.max(np.abs(got - exp))) / max(1.0, float(np.max(np.abs(exp))))
        tb, a_back = full_backward((jnp.asarray(k, dtype=jnp.int32), ak), sc.objects, sc.config, record_detectors=False, reset_fields=True, start_time_step=0)
        back = np.asarray(codec.pack(a_back))
        d2 = float(np.max(np.abs(back - s0)))
        detail["conformance"] = {"forward_table_vs_driver": d1, "full_backward_returns_s0": d2, "final_time": int(tb)}
        traces = 2
        if d1 > TOL:
            fails.append(dict(sig="conformance:table-vs-driver-diverge", detail={"defect": d1}))
        if d2 > TOL or int(tb) != 0:
            fails.append(dict(sig="full-backward-does-not-return-initial-state", detail={"defect": d2, "t": int(tb)}))
    nontriv = active > 0 or case["idx"][4] != 0 or case["idx"][5] not in (0, 7)
    return dict(
        ok=not fails,
        failures=fails,
        detail=detail,
        nontrivial=int(nontriv),
        evals=evals,
        states=2 * (n + 1) + 3 * T,
        transitions=evals,
        traces=traces,
        outcome=f"active_steps={active}",
    )
