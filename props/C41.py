"""C41 — wave descriptions and temporal profiles are self-consistent.

Bounded exhaustive enumeration (E2) of parameter menus x dense time grids:
  wave      WaveCharacter given by period | wavelength | frequency x value menu x phase: period*frequency = 1,
            wavelength = c*period, the given quantity is returned unchanged; not-exactly-one-given is rejected
  custom    CustomTimeSignalProfile over signals x n x dt x start_time x interpolation x outside_value: exact at every
            sample time, linear at midpoints/quarter points (nearest: the nearer sample), outside value far outside,
            independent of the (ignored) period / phase arguments
  cw        SingleFrequencyProfile over num_startup_periods x period x phases on a 4k-point grid: starts at 0,
            |amplitude| <= 1, the ramp factor amplitude/carrier is non-decreasing in [0,1] and equals 1 after start-up
  gauss     GaussianPulseProfile over spectral widths x centre waves (given in all three ways) on a 4k-point grid:
            |amplitude| <= 1, the pulse does reach ~1, starts negligibly small; phase on spectral_width rejected
  window    linear_rampup / gaussian_envelope / tukey_envelope and the window classes: range [0,1], shape landmarks
"""
import math

import numpy as np

ID = "C41"
LEVEL = "exploration"
MANIFEST = {
    "engine": "E2-enum",
    "technique": "bounded exhaustive enumeration of wave/profile parameter menus with dense time grids (every sample time, midpoint and quarter point; 4096-point grids) against closed-form identities and bounds",
    "text": "Every WaveCharacter of the menu (three ways of giving it x values x phases) is converted in all directions; every custom signal of the menu is evaluated at every sample time, midpoint, quarter point and outside point for both interpolation modes; every continuous-wave and Gaussian profile of the menu is evaluated on a 4096-point grid and checked for the unit bound, the ramp shape and the landmarks of the envelope.",
    "note": "Values from finite menus (1 fs .. 1 ms periods, degenerate phases, num_startup_periods including 0, VERIF_SEED generic values).",
}
RULE = (
    "case = (part, parameter tuple); inside a case every time of the grid is one evaluation. Non-trivial: wave - the queried "
    "quantity is not the given one; custom - the time is not a sample time; cw - the time lies inside the ramp; gauss - the "
    "envelope is above 1e-3 at that time. Distinct = distinct (parameters, time)."
)
ASSUMPTIONS = [
    "float64 times; identities at 1e-9 relative, bounds with 1e-12 slack",
    "between the last sample and one step after it the custom profile's value is not specified by the property and is only recorded",
]
TOL = 1e-9
C0 = 299792458.0


def _vals(seed):
    rng = np.random.default_rng(17 + seed)
    return [1e-15, 3.3356409519815204e-15, 2.5e-12, 1e-9, 1e-3, float(10 ** rng.uniform(-15, -6))]


def cases(tier, seed):
    out = []
    for given in ("period", "wavelength", "frequency"):
        out.append(dict(part="wave", given=given))
    for interp in ("linear", "nearest"):
        for n in (2, 3, 8) if tier == "quick" else (2, 3, 5, 8, 33):
            out.append(dict(part="custom", interp=interp, n=n))
    for nsp in (0, 1, 2, 4, 10) if tier == "quick" else (0, 1, 2, 3, 4, 7, 10, 50):
        out.append(dict(part="cw", nsp=nsp))
    for wgiven in ("frequency", "wavelength", "period"):
        out.append(dict(part="gauss", wgiven=wgiven))
    out.append(dict(part="window"))
    for c in out:
        c["seed"] = seed
    return out


def bounds(tier, seed):
    return {
        "wave_values_as_period_s": _vals(seed),
        "phases": [0.0, math.pi, -1.0, 7.5],
        "custom": {"signals": ["ramp", "alternating", "distinct", "seed", "constant", "single-spike"], "n": [2, 3, 8] if tier == "quick" else [2, 3, 5, 8, 33], "dt": [1e-17, 3.3e-17], "start_time": ["0", "5dt", "-2.5dt", "1e-15"], "outside_value": [0.0, -7.0]},
        "cw": {"num_startup_periods": [0, 1, 2, 4, 10] if tier == "quick" else [0, 1, 2, 3, 4, 7, 10, 50], "grid_points": 4096},
        "gauss": {"relative_spectral_width": [0.02, 0.1, 0.5, 1.0], "grid_points": 4096},
        "tolerance": TOL,
        "seed": seed,
    }


def _part_wave(case):
    from mc import guard

    fdtdx = guard.import_fdtdx()
    W = fdtdx.WaveCharacter
    given, seed = case["given"], case["seed"]
    fails, evals, nontriv, oc = [], 0, 0, {}
    c = fdtdx.constants.c
    if abs(c - C0) > 0:
        fails.append(dict(sig="wave:speed-of-light-constant-differs", detail=dict(got=c)))
    for T in _vals(seed):
        v = {"period": T, "wavelength": C0 * T, "frequency": 1.0 / T}[given]
        for ph in (0.0, math.pi, -1.0, 7.5):
            w = W(**{given: v}, phase_shift=ph)
            p, f, lam = w.get_period(), w.get_frequency(), w.get_wavelength()
            evals += 3
            nontriv += 2
            meta = dict(given=given, value=v, phase=ph, period=p, frequency=f, wavelength=lam)
            if abs(p * f - 1.0) > TOL:
                fails.append(dict(sig=f"wave:{given}:period*frequency!=1", detail=meta))
            if abs(lam - C0 * p) > TOL * lam:
                fails.append(dict(sig=f"wave:{given}:wavelength!=c*period", detail=meta))
            if {"period": p, "wavelength": lam, "frequency": f}[given] != v:
                fails.append(dict(sig=f"wave:{given}:given-quantity-not-returned-unchanged", detail=meta))
            if abs(p - T) > TOL * T:
                fails.append(dict(sig=f"wave:{given}:period-wrong", detail=dict(meta, want=T)))
            if w.phase_shift != ph:
                fails.append(dict(sig="wave:phase-changed", detail=meta))
            oc["consistent"] = oc.get("consistent", 0) + 1
    for kw in ({}, dict(period=1e-15, frequency=1e15), dict(wavelength=1e-6, period=1e-15), dict(wavelength=1e-6, frequency=3e14), dict(wavelength=1e-6, frequency=3e14, period=1e-15)):
        evals += 1
        try:
            W(**kw)
            fails.append(dict(sig="wave:not-exactly-one-quantity-accepted", detail=dict(kw=sorted(kw))))
        except Exception:
            oc["rejected"] = oc.get("rejected", 0) + 1
    return fails, evals, nontriv, oc


def _signals(n, seed):
    k = np.arange(n, dtype=np.float64)
    return {
        "ramp": 1.0 + 2.0 * k,
        "alternating": np.where(k % 2 == 0, 1.0, -1.0) * (1 + 0.1 * k),
        "distinct": -1.0 + 2.0 * np.mod(0.137 + k * 0.6180339887498949, 1.0),
        "seed": np.random.default_rng(3 + seed).uniform(-5, 5, size=n),
        "constant": np.full(n, 0.75),
        "single-spike": np.where(k == n // 2, 1e3, 0.0),
    }


def _part_custom(case):
    from mc import guard

    fdtdx = guard.import_fdtdx()
    import jax.numpy as jnp

    interp, n, seed = case["interp"], case["n"], case["seed"]
    fails, evals, nontriv, oc = [], 0, 0, {}
    for sname, sig in _signals(n, seed).items():
        scale = float(np.max(np.abs(sig))) or 1.0
        for dt in (1e-17, 3.3e-17):
            for st_name, st in (("0", 0.0), ("5dt", 5 * dt), ("-2.5dt", -2.5 * dt), ("1e-15", 1e-15)):
                for outside in (0.0, -7.0):
                    prof = fdtdx.CustomTimeSignalProfile(signal=jnp.asarray(sig), time_step_duration=dt, start_time=st, interpolation=interp, outside_value=outside)
                    meta = dict(signal=sname, n=n, dt=dt, start=st_name, interp=interp, outside=outside)
                    k = np.arange(n)
                    pts = [("sample", st + k * dt, sig.copy())]
                    km = np.arange(n - 1)
                    if interp == "linear":
                        pts.append(("mid", st + (km + 0.5) * dt, 0.5 * (sig[:-1] + sig[1:])))
                        pts.append(("quarter", st + (km + 0.25) * dt, 0.75 * sig[:-1] + 0.25 * sig[1:]))
                        pts.append(("0.9", st + (km + 0.9) * dt, 0.1 * sig[:-1] + 0.9 * sig[1:]))
                    else:
                        pts.append(("quarter", st + (km + 0.25) * dt, sig[:-1].copy()))
                        pts.append(("0.9", st + (km + 0.9) * dt, sig[1:].copy()))
                    far = np.array([st - 0.25 * dt, st - 3 * dt, st - 1e3 * dt, st + (n - 1 + 1.25) * dt, st + (n + 5) * dt, st + 1e3 * dt])
                    pts.append(("outside", far, np.full(far.shape, outside)))
                    for tag, t, want in pts:
                        got = np.asarray(prof.get_amplitude(jnp.asarray(t), 1e-15))
                        evals += len(t)
                        if tag != "sample":
                            nontriv += len(t)
                        tol = TOL * scale if tag != "outside" else 0.0
                        badi = np.nonzero(~(np.abs(got - want) <= tol))[0]
                        if len(badi):
                            i = int(badi[0])
                            fails.append(dict(sig=f"custom:{interp}:{tag}-time-value-wrong", detail=dict(meta, t=float(t[i]), index=i, got=float(got[i]), want=float(want[i]))))
                        # the carrier period / phase arguments are documented as ignored
                        got2 = np.asarray(prof.get_amplitude(jnp.asarray(t), 7e-15, 1.234))
                        evals += len(t)
                        if not np.array_equal(got, got2):
                            fails.append(dict(sig="custom:period-or-phase-argument-changes-the-signal", detail=meta))
                    if interp == "nearest":
                        t = st + (km + 0.5) * dt
                        got = np.asarray(prof.get_amplitude(jnp.asarray(t), 1e-15))
                        evals += len(t)
                        if not np.all((got == sig[:-1]) | (got == sig[1:])):
                            fails.append(dict(sig="custom:nearest:midpoint-is-neither-neighbour", detail=meta))
                    # scalar time (as the time loop calls it)
                    g0 = float(prof.get_amplitude(jnp.asarray(st + dt), 1e-15))
                    evals += 1
                    if abs(g0 - sig[1]) > TOL * scale:
                        fails.append(dict(sig="custom:scalar-time-value-wrong", detail=dict(meta, got=g0, want=float(sig[1]))))
                    # the step after the last sample: unspecified, recorded
                    gl = float(prof.get_amplitude(jnp.asarray(st + (n - 1 + 0.5) * dt), 1e-15))
                    key = "after-last-sample:" + ("holds-last-value" if gl == sig[-1] else ("outside-value" if gl == outside else "other"))
                    oc[key] = oc.get(key, 0) + 1
    for bad in (dict(signal=np.ones((2, 2)), time_step_duration=1e-17), dict(signal=np.ones(1), time_step_duration=1e-17), dict(signal=np.ones(3), time_step_duration=0.0), dict(signal=np.ones(3), time_step_duration=1e-17, interpolation="cubic")):
        evals += 1
        try:
            fdtdx.CustomTimeSignalProfile(**{k: (jnp.asarray(v) if k == "signal" else v) for k, v in bad.items()})
            fails.append(dict(sig="custom:invalid-arguments-accepted", detail=dict(kw=str({k: str(v) for k, v in bad.items()}))))
        except ValueError:
            oc["invalid-rejected"] = oc.get("invalid-rejected", 0) + 1
    return fails, evals, nontriv, oc


def _part_cw(case):
    from mc import guard

    fdtdx = guard.import_fdtdx()
    import jax.numpy as jnp

    nsp, seed = case["nsp"], case["seed"]
    fails, evals, nontriv, oc = [], 0, 0, {}
    for T in _vals(seed)[:4] + [_vals(seed)[-1]]:
        for pph in (math.pi, 0.0, 1.0):
            for cph in (0.0, 0.7):
                prof = fdtdx.SingleFrequencyProfile(phase_shift=pph, num_startup_periods=nsp)
                meta = dict(num_startup_periods=nsp, period=T, profile_phase=pph, call_phase=cph)
                tend = max(3 * nsp, 6) * T
                t = np.linspace(0.0, tend, 4096)
                # exact landmarks: t=0, end of start-up, carrier extrema
                # (fixed array length within a case: clip instead of filtering, so the eager per-shape op cache is reused)
                t = np.sort(np.clip(np.concatenate([t, [0.0, nsp * T, nsp * T * (1 + 1e-12)], (np.arange(0, 2 * max(3 * nsp, 6) + 1) * math.pi - pph - cph) * T / (2 * math.pi)]), 0.0, tend))
                a = np.asarray(prof.get_amplitude(jnp.asarray(t), T, cph))
                evals += len(t)
                if not np.all(np.isfinite(a)):
                    i = int(np.nonzero(~np.isfinite(a))[0][0])
                    fails.append(dict(sig=f"cw:non-finite-amplitude:num_startup_periods={'0' if nsp == 0 else '>0'}:t={'0' if t[i] == 0 else '>0'}", detail=dict(meta, t=float(t[i]), got=str(a[i]))))
                    a = np.where(np.isfinite(a), a, 0.0)
                if np.max(np.abs(a)) > 1.0 + 1e-12:
                    i = int(np.argmax(np.abs(a)))
                    fails.append(dict(sig="cw:amplitude-exceeds-one", detail=dict(meta, t=float(t[i]), got=float(a[i]))))
                carrier = np.cos(2 * math.pi * t / T + pph + cph)
                ramp_region = t < nsp * T
                nontriv += int(np.count_nonzero(ramp_region))
                if nsp > 0 and abs(a[0]) > 1e-12:
                    fails.append(dict(sig="cw:does-not-start-at-zero", detail=dict(meta, got=float(a[0]))))
                after = t >= nsp * T * (1 + 1e-12)
                if nsp == 0:
                    after = t > 0
                d = np.abs(a[after] - carrier[after])
                if len(d) and np.max(d) > TOL * 10:  # phase 2 pi t/T at t ~ 30 T carries ~1e-14 absolute error
                    i = int(np.argmax(d))
                    fails.append(dict(sig="cw:not-the-unit-carrier-after-start-up", detail=dict(meta, t=float(t[after][i]), got=float(a[after][i]), want=float(carrier[after][i]))))
                sel = np.abs(carrier) > 0.2
                r = a[sel] / carrier[sel]
                if len(r) > 1 and (np.min(r) < -1e-9 or np.max(r) > 1 + 1e-9 or np.min(np.diff(r)) < -1e-7):
                    fails.append(dict(sig="cw:ramp-factor-not-monotone-in-[0,1]", detail=dict(meta, min=float(np.min(r)), max=float(np.max(r)), min_step=float(np.min(np.diff(r))))))
                oc["ramp" if nsp > 0 else "no-ramp"] = oc.get("ramp" if nsp > 0 else "no-ramp", 0) + 1
    return fails, evals, nontriv, oc


def _part_gauss(case):
    from mc import guard

    fdtdx = guard.import_fdtdx()
    import jax.numpy as jnp

    W = fdtdx.WaveCharacter
    wgiven, seed = case["wgiven"], case["seed"]
    fails, evals, nontriv, oc = [], 0, 0, {}

    def wc(kind, f, **kw):
        return W(**{kind: {"frequency": f, "period": 1.0 / f, "wavelength": C0 / f}[kind]}, **kw)

    for T in _vals(seed)[:4] + [_vals(seed)[-1]]:
        fc = 1.0 / T
        for rel in (0.02, 0.1, 0.5, 1.0):
            fw = rel * fc
            for cph in (0.0, math.pi / 2, -1.0):
                ref = None
                for cgiven in ("frequency", "wavelength", "period"):
                    prof = fdtdx.GaussianPulseProfile(spectral_width=wc(wgiven, fw), center_wave=wc(cgiven, fc, phase_shift=cph))
                    meta = dict(period=T, rel_width=rel, width_given=wgiven, centre_given=cgiven, phase=cph)
                    sig_t = 1.0 / (2 * math.pi * fw)
                    t = np.sort(np.concatenate([np.linspace(0.0, 14 * sig_t, 4096), [6 * sig_t]]))
                    a = np.asarray(prof.get_amplitude(jnp.asarray(t), 123.0, 0.0))
                    evals += len(t)
                    if not np.all(np.isfinite(a)):
                        fails.append(dict(sig="gauss:non-finite-amplitude", detail=meta))
                        continue
                    if np.max(np.abs(a)) > 1.0 + 1e-12:
                        i = int(np.argmax(np.abs(a)))
                        fails.append(dict(sig="gauss:amplitude-exceeds-one", detail=dict(meta, t=float(t[i]), got=float(a[i]))))
                    # non-vacuous: with >= 3 carrier cycles under the envelope the pulse reaches ~1; always > 0.3
                    peak = float(np.max(np.abs(a)))
                    if peak < (0.95 if rel <= 0.1 else 0.3):
                        fails.append(dict(sig="gauss:pulse-never-reaches-unit-scale", detail=dict(meta, peak=peak)))
                    if abs(a[0]) > 1e-6 or abs(a[-1]) > 1e-6:
                        fails.append(dict(sig="gauss:pulse-not-negligible-at-start-or-end-of-window", detail=dict(meta, first=float(a[0]), last=float(a[-1]))))
                    nontriv += int(np.count_nonzero(np.abs(a) > 1e-3))
                    # the three ways of writing the same waves must give the same pulse
                    if ref is None:
                        ref = a
                    elif np.max(np.abs(a - ref)) > 1e-7:  # 2 pi f t with f from c/(c/f): 1e-16 relative on a phase of ~1e3
                        fails.append(dict(sig="gauss:pulse-depends-on-how-the-wave-is-written", detail=dict(meta, defect=float(np.max(np.abs(a - ref))))))
                    # call-level phase shift adds to the carrier phase: |a| envelope bound unchanged
                    a2 = np.asarray(prof.get_amplitude(jnp.asarray(t), 123.0, 0.9))
                    evals += len(t)
                    if np.max(np.abs(a2)) > 1.0 + 1e-12:
                        fails.append(dict(sig="gauss:amplitude-exceeds-one", detail=dict(meta, call_phase=0.9)))
                    oc["pulse"] = oc.get("pulse", 0) + 1
    evals += 1
    try:
        fdtdx.GaussianPulseProfile(spectral_width=W(frequency=1e13, phase_shift=0.1), center_wave=W(frequency=1e14))
        fails.append(dict(sig="gauss:phase-on-spectral-width-accepted", detail={}))
    except ValueError:
        oc["phase-on-width-rejected"] = 1
    return fails, evals, nontriv, oc


def _part_window(case):
    from mc import guard

    fdtdx = guard.import_fdtdx()
    import jax.numpy as jnp
    from fdtdx.core import window as Wn

    fails, evals, nontriv, oc = [], 0, 0, {}
    t = np.linspace(-2.0, 3.0, 4097)
    tj = jnp.asarray(t)
    for dur in (1e-3, 0.5, 1.0, 2.5):
        r = np.asarray(Wn.linear_rampup(tj, dur))
        evals += len(t)
        nontriv += int(np.count_nonzero((t > 0) & (t < dur)))
        want = np.clip(t / dur, 0, 1)
        if np.max(np.abs(r - want)) > 1e-12 or np.min(np.diff(r)) < 0 or r.min() < 0 or r.max() > 1:
            fails.append(dict(sig="window:linear_rampup-is-not-the-clamped-ramp", detail=dict(duration=dur)))
    for c0 in (-1.0, 0.0, 0.7):
        for s in (1e-3, 0.3, 5.0):
            g = np.asarray(Wn.gaussian_envelope(tj, c0, s))
            gw = np.asarray(fdtdx.GaussianWindow(center_time=c0, sigma_time=s).get_window(tj))
            evals += 2 * len(t)
            want = np.exp(-((t - c0) ** 2) / (2 * s * s))
            if np.max(np.abs(g - want)) > 1e-12 or g.max() > 1.0 or g.min() < 0 or not np.array_equal(g, gw):
                fails.append(dict(sig="window:gaussian-envelope-wrong-or-above-one", detail=dict(center=c0, sigma=s)))
    for st, en in ((0.0, 1.0), (-1.0, 2.0), (0.5, 0.75)):
        for alpha in (0.0, 0.25, 0.5, 1.0):
            w = np.asarray(fdtdx.TukeyWindow(start_time=st, end_time=en, alpha=alpha).get_window(tj))
            evals += len(t)
            x = (t - st) / (en - st)
            inside = (x >= 0) & (x <= 1)
            nontriv += int(np.count_nonzero(inside))
            ok = w.min() >= 0 and w.max() <= 1 + 1e-12 and np.all(w[~inside] == 0)
            flat = inside & (x >= alpha / 2 + 1e-9) & (x <= 1 - alpha / 2 - 1e-9)
            ok = ok and np.all(np.abs(w[flat] - 1.0) <= 1e-12)
            if alpha > 0:
                tl = inside & (x < alpha / 2)
                ok = ok and np.allclose(w[tl], 0.5 * (1 - np.cos(2 * math.pi * x[tl] / alpha)), atol=1e-9)
                tr = inside & (x > 1 - alpha / 2)
                ok = ok and np.allclose(w[tr], 0.5 * (1 - np.cos(2 * math.pi * (1 - x[tr]) / alpha)), atol=1e-9)
            if not ok:
                fails.append(dict(sig="window:tukey-window-shape-wrong", detail=dict(start=st, end=en, alpha=alpha)))
    for kw in (dict(start_time=1.0, end_time=1.0), dict(start_time=0.0, end_time=1.0, alpha=1.5), dict(start_time=0.0, end_time=1.0, alpha=-0.1)):
        evals += 1
        try:
            fdtdx.TukeyWindow(**kw)
            fails.append(dict(sig="window:invalid-tukey-accepted", detail=kw))
        except ValueError:
            oc["invalid-rejected"] = oc.get("invalid-rejected", 0) + 1
    for s in (0.0, -1.0):
        evals += 1
        try:
            fdtdx.GaussianWindow(center_time=0.0, sigma_time=s)
            fails.append(dict(sig="window:non-positive-sigma-accepted", detail=dict(sigma=s)))
        except ValueError:
            oc["invalid-rejected"] = oc.get("invalid-rejected", 0) + 1
    return fails, evals, nontriv, oc


def run_case(case):
    import warnings

    fn = {"wave": _part_wave, "custom": _part_custom, "cw": _part_cw, "gauss": _part_gauss, "window": _part_window}[case["part"]]
    with warnings.catch_warnings():
        warnings.simplefilter("ignore")
        with np.errstate(all="ignore"):
            fails, evals, nontriv, oc = fn(case)
    seen, out = {}, []
    for f in fails:
        seen[f["sig"]] = seen.get(f["sig"], 0) + 1
        if seen[f["sig"]] <= 3:
            out.append(f)
    return dict(ok=not fails, failures=out, detail={"failing_elements": len(fails), "by_sig": seen}, nontrivial=nontriv, evals=evals, outcome=oc)
