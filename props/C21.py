"""C21 — design symmetry transforms produce symmetric designs.

Bounded exhaustive enumeration (engine E2): for every symmetry transform and every option, **all** binary arrays of
every admissible small shape (2D: in-plane shapes {2,3,4}^2 with the singleton axis in each of the three positions;
3D: 2x2x2, 3x3x2, 2x3x3, 3x2x3 and the singleton shapes 4x4x1 / 1x4x4 / 4x1x4) are pushed through the real transform
(`init_module`/`init_type` like `Device.place_on_grid`, then `__call__`) in `jax.vmap` batches. Oracle (numpy, written
from the class docstrings): the reflection / rotation / transposition as an explicit cell permutation P;
    P(out) == out,   T(out) == out,   P(x) == x  =>  out == x,   sum(out) == sum(x),   out == sum_i x_i T(e_i)
all exact (`==`; binary inputs give multiples of 1/2).  The last identity (linearity on the whole binary cube, which
contains every basis vector and every basis pair) makes the binary cube span the input space.  Two real-valued
patterns (all-distinct, VERIF_SEED) and their symmetrisations widen the value alphabet.
"""
import itertools

import numpy as np

ID = "C21"
LEVEL = "exploration"
MANIFEST = {
    "engine": "E2-enum",
    "technique": "bounded exhaustive enumeration of all binary arrays (<= 18 cells quick, <= 27 cells thorough) of every admissible shape and option against an explicit cell-permutation reference model of each reflection/rotation/transposition",
    "text": "Every 2D and 3D symmetry transform with every option is evaluated on all binary arrays of all admissible small shapes (singleton axis in each position, square where required); exact invariance under the reference permutation, idempotence, fixed points for symmetric inputs, mean preservation and linearity (out equals the superposition of the basis responses) are checked on every array.",
    "note": "The transforms are linear, so the binary cube (which contains all basis vectors and pairs) spans the input space; two real-valued generic patterns per shape (all-distinct, VERIF_SEED) are added. float64.",
}
RULE = (
    "case = (transform variant, shape, index range of binary arrays); every binary array of the shape is evaluated through the real "
    "transform __call__ under jax.vmap (three plain un-vmapped calls per case as conformance). An array is non-trivial when it is not "
    "already symmetric (P(x) != x), i.e. the transform has to change it; distinct = distinct (variant, shape, array)."
)
ASSUMPTIONS = [
    "jax.vmap over a batch evaluates the same Python code as a plain call (three plain calls per case are compared bit-for-bit)",
    "real-valued inputs beyond the binary cube are covered by linearity (checked exactly on the cube) plus two generic real patterns per shape",
]

CHUNK = 1 << 16
V2D = ["diag2d:T", "diag2d:F", "h2d", "v2d", "p2d"]
V3D = ["h3d:x", "h3d:y", "v3d", "p3d"] + [f"d3d:{pl}:{m}" for pl in ("xy", "xz", "yz") for m in ("T", "F")]


def _shapes(tier):
    plane = [(p, q) for p in (2, 3, 4) for q in (2, 3, 4)]
    if tier == "thorough":
        plane += [(4, 5), (5, 4), (2, 5), (5, 2), (3, 5), (5, 3)]
    s2 = []
    for p, q in plane:
        s2 += [(1, p, q), (p, 1, q), (p, q, 1)]
    if tier == "thorough":
        s2 += [(5, 5, 1)]
    s3 = [(2, 2, 2), (3, 3, 2), (2, 3, 3), (3, 2, 3), (4, 4, 1), (1, 4, 4), (4, 1, 4), (2, 2, 3), (1, 1, 1)]
    if tier == "thorough":
        s3 += [(2, 3, 4), (3, 3, 3)]
    return s2, s3


def _applicable(variant, shape):
    if variant.startswith("diag2d"):
        p, q = [n for n in shape if n != 1]
        return p == q
    if variant.startswith("d3d"):
        a, b = {"xy": (0, 1), "xz": (0, 2), "yz": (1, 2)}[variant.split(":")[1]]
        return shape[a] == shape[b]
    return True


def cases(tier, seed):
    s2, s3 = _shapes(tier)
    out = []
    for variants, shapes in ((V2D, s2), (V3D, s3)):
        for shape in shapes:
            ncell = int(np.prod(shape))
            for v in variants:
                if not _applicable(v, shape):
                    continue
                if shape == (3, 3, 3) and v != "d3d:xz:F":
                    continue  # 2^27 volumes: one variant (anti-diagonal, needs flips and a transposition) keeps the thorough tier within budget
                total = 1 << ncell
                for lo in range(0, total, CHUNK * 8):
                    out.append(dict(variant=v, shape=list(shape), lo=lo, hi=min(total, lo + CHUNK * 8), seed=seed))
    out.sort(key=lambda c: (int(np.prod(c["shape"])), c["lo"]))
    return out


def bounds(tier, seed):
    s2, s3 = _shapes(tier)
    return {
        "variants_2d": V2D,
        "variants_3d": V3D,
        "shapes_2d": s2,
        "shapes_3d": s3,
        "restriction": "3x3x3 (2^27 arrays) only for the variant d3d:xz:F",
        "arrays": "all 2^cells binary arrays per (variant, shape) + all-distinct and seed real patterns and their symmetrisations",
        "seed": seed,
    }


# ------------------------------------------------------------------------------------------ reference model
def perm(variant, shape):
    """Cell permutation P of the symmetry operation: (P x)[c] = x[src[c]] on C-order flattened cells, from the docstrings."""
    shape = tuple(shape)
    idx = np.arange(int(np.prod(shape))).reshape(shape)
    src = np.empty(shape, dtype=np.int64)
    if variant.endswith("2d") or variant.startswith("diag2d"):
        ax = shape.index(1)
        inpl = [a for a in range(3) if a != ax]
        p, q = shape[inpl[0]], shape[inpl[1]]
        for i in range(p):
            for j in range(q):
                if variant == "diag2d:T":  # mirror across the (min,min)-(max,max) diagonal
                    si, sj = j, i
                elif variant == "diag2d:F":  # mirror across the (min,max)-(max,min) diagonal
                    si, sj = p - 1 - j, q - 1 - i
                elif variant == "h2d":  # mirror the first in-plane axis
                    si, sj = p - 1 - i, j
                elif variant == "v2d":  # mirror the second in-plane axis
                    si, sj = i, q - 1 - j
                elif variant == "p2d":  # 180 degree rotation
                    si, sj = p - 1 - i, q - 1 - j
                else:
                    raise ValueError(variant)
                dst = [0, 0, 0]
                s_ = [0, 0, 0]
                dst[inpl[0]], dst[inpl[1]] = i, j
                s_[inpl[0]], s_[inpl[1]] = si, sj
                src[tuple(dst)] = idx[tuple(s_)]
        return src.ravel()
    for c in itertools.product(*[range(n) for n in shape]):
        c = list(c)
        s_ = list(c)
        if variant == "h3d:x":
            s_[0] = shape[0] - 1 - c[0]
        elif variant == "h3d:y":
            s_[1] = shape[1] - 1 - c[1]
        elif variant == "v3d":
            s_[2] = shape[2] - 1 - c[2]
        elif variant == "p3d":
            s_ = [shape[a] - 1 - c[a] for a in range(3)]
        elif variant.startswith("d3d"):
            _, pl, m = variant.split(":")
            a, b = {"xy": (0, 1), "xz": (0, 2), "yz": (1, 2)}[pl]
            if m == "T":
                s_[a], s_[b] = c[b], c[a]
            else:
                s_[a], s_[b] = shape[a] - 1 - c[b], shape[b] - 1 - c[a]
        else:
            raise ValueError(variant)
        src[tuple(c)] = idx[tuple(s_)]
    return src.ravel()


def _transform(variant):
    from fdtdx.objects.device.parameters import symmetries as S

    if variant.startswith("diag2d"):
        return S.DiagonalSymmetry2D(min_min_to_max_max=variant.endswith(":T"))
    if variant == "h2d":
        return S.HorizontalSymmetry2D()
    if variant == "v2d":
        return S.VerticalSymmetry2D()
    if variant == "p2d":
        return S.PointSymmetry2D()
    if variant.startswith("h3d"):
        return S.HorizontalSymmetry3D(mirror_axis=variant.split(":")[1])
    if variant == "v3d":
        return S.VerticalSymmetry3D()
    if variant == "p3d":
        return S.PointSymmetry3D()
    _, pl, m = variant.split(":")
    return S.DiagonalSymmetry3D(diagonal_plane=pl, min_min_to_max_max=(m == "T"))


def run_case(case):
    from mc import guard

    guard.import_fdtdx()
    import jax
    import jax.numpy as jnp
    from mc.oracles import ptransform as PT

    variant, shape = case["variant"], tuple(case["shape"])
    ncell = int(np.prod(shape))
    P = perm(variant, shape)
    assert np.array_equal(P[P], np.arange(ncell)), "reference permutation must be an involution"
    t = PT.make(_transform(variant), PT.materials([1.0, 2.25]), shape)
    f = lambda x: t({"params": x})["params"]  # noqa: E731
    fb = jax.vmap(f)
    fails, seen = [], set()

    def fail(sig, detail):
        if sig not in seen:
            seen.add(sig)
            fails.append(dict(sig=f"{variant.split(':')[0]}:{sig}", detail=dict(detail, variant=variant, shape=list(shape))))

    def run(Xflat):
        out = np.asarray(fb(jnp.asarray(Xflat.reshape((-1, *shape)), dtype=jnp.float64)))
        return out.reshape(len(Xflat), -1) if out.shape == (len(Xflat), *shape) else out

    # basis responses (for the linearity identity)
    Mb = run(np.eye(ncell))
    evals, nontriv, outc = ncell, 0, {"changed": 0, "fixed-point": 0}
    for lo, hi in PT.chunks(case["hi"] - case["lo"], CHUNK):
        X = PT.all_binary(ncell, case["lo"] + lo, case["lo"] + hi).astype(np.float64)
        O = run(X)
        evals += 2 * len(X)
        if O.shape != X.shape:
            fail("shape-changed", dict(got=list(O.shape)))
            break
        sym_in = np.all(X[:, P] == X, axis=1)
        nontriv += int((~sym_in).sum())
        outc["changed"] += int(np.any(O != X, axis=1).sum())
        outc["fixed-point"] += int(np.all(O == X, axis=1).sum())
        bad = ~np.all(O[:, P] == O, axis=1)
        if bad.any():
            r = int(np.argmax(bad))
            fail("output-not-invariant", dict(x=X[r].tolist(), out=O[r].tolist(), reflected_out=O[r, P].tolist()))
        bad = sym_in & ~np.all(O == X, axis=1)
        if bad.any():
            r = int(np.argmax(bad))
            fail("symmetric-input-changed", dict(x=X[r].tolist(), out=O[r].tolist()))
        bad = O.sum(axis=1) != X.sum(axis=1)
        if bad.any():
            r = int(np.argmax(bad))
            fail("mean-not-preserved", dict(x=X[r].tolist(), out=O[r].tolist()))
        bad = ~np.all(O == X @ Mb, axis=1)
        if bad.any():
            r = int(np.argmax(bad))
            fail("not-linear", dict(x=X[r].tolist(), out=O[r].tolist(), superposition=(X[r] @ Mb).tolist()))
        O2 = run(O)
        bad = ~np.all(O2 == O, axis=1)
        if bad.any():
            r = int(np.argmax(bad))
            fail("not-idempotent", dict(x=X[r].tolist(), out=O[r].tolist(), out2=O2[r].tolist()))
        if lo == 0:
            for r in sorted({0, len(X) // 3, len(X) - 1}):
                o1 = np.asarray(f(jnp.asarray(X[r].reshape(shape))))
                evals += 1
                if o1.shape != shape or not np.array_equal(o1.ravel(), O[r]):
                    fail("harness:vmap-differs-from-plain-call", dict(x=X[r].tolist()))
    # real-valued generic patterns (first chunk of each (variant, shape) only)
    if case["lo"] == 0 and not fails:
        rng = np.random.default_rng(2100 + case["seed"])
        pats = [np.arange(1, ncell + 1) * 0.37 + 0.11, rng.standard_normal(ncell), rng.uniform(0, 1, ncell)]
        pats += [0.5 * (p + p[P]) for p in list(pats)]  # symmetric by construction (exact: a+b == b+a)
        X = np.asarray(pats)
        O = run(X)
        O2 = run(O)
        evals += 2 * len(X)
        sym_in = np.all(X[:, P] == X, axis=1)
        nontriv += int((~sym_in).sum())
        if not np.all(O[:, P] == O):
            fail("output-not-invariant:real-pattern", dict(x=X[0].tolist()))
        if not np.all(O2 == O):
            fail("not-idempotent:real-pattern", dict(x=X[0].tolist()))
        if not np.all(O[sym_in] == X[sym_in]):
            fail("symmetric-input-changed:real-pattern", dict(x=X[3].tolist()))
        if np.max(np.abs(O.mean(axis=1) - X.mean(axis=1))) > 1e-12 * max(1.0, float(np.max(np.abs(X)))):
            fail("mean-not-preserved:real-pattern", dict(x=X[0].tolist()))
        if np.max(np.abs(O - X @ Mb)) > 1e-12 * max(1.0, float(np.max(np.abs(X)))):
            fail("not-linear:real-pattern", dict(x=X[0].tolist()))
    return dict(ok=not fails, failures=fails, detail=dict(cells=ncell, arrays=case["hi"] - case["lo"]), nontrivial=nontriv, evals=evals, outcome=outc)
