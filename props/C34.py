"""C34 — symmetric placement keeps the upper half and clips objects consistently.

Engine E2 (exact): every volume shape with 2..7 cells per axis x all 27 symmetry tuples x every object interval per axis.
Two observation points on the real code:
  * "place": the public `place_objects` with `config.symmetry` (uniform and mirror-symmetric non-uniform grids); objects are
    pinned to their interval by coordinate constraints; checked: odd counts raise, reduced volume/grid/array shapes, per
    object clipped slice and recorded unclipped extent, dropped objects absent, PEC walls only on -1 axes;
  * "direct": `fdtdx.fdtd.symmetry.reduce_resolved_slices` on the complete interval product of the shape menu (cheap).
Oracle: integer arithmetic written from the property statement.
"""
import itertools

ID = "C34"
LEVEL = "exploration"
MANIFEST = {
    "engine": "E2-enum",
    "technique": "bounded exhaustive enumeration of volume shapes x all 27 symmetry tuples x all object intervals against an integer clip/shift/drop table",
    "text": "For every volume shape with 2..7 cells per axis, each of the 27 symmetry tuples and every object interval on every axis (other axes from a menu: full, strictly lower half, strictly upper half, straddling), placement is executed by the real code and compared exactly with an integer oracle: an odd count on a symmetric axis raises, the upper half is kept, objects are clipped to it or dropped when entirely in the lower half, the unclipped extent is recorded shifted by the plane index, and a PEC wall object exists exactly on the -1 axes.",
    "note": "place_objects is run on a shape family in which every axis takes every length 2..7 (quick) or on all 216 shapes (thorough); reduce_resolved_slices is called directly for all 216 shapes in both tiers. Non-uniform grids are mirror-symmetric (a precondition of the reduction).",
}
RULE = (
    "case = (mode, volume shape, symmetry tuple, grid kind); inside a case every object of the menu (all intervals on one axis x menu "
    "intervals on the other two) is one element. An element is non-trivial when its box meets a symmetry plane decision: it is clipped, "
    "dropped, or starts exactly on the plane; distinct = distinct (shape, symmetry, box) triples."
)
ASSUMPTIONS = [
    "objects are axis-aligned boxes given by integer intervals (UniformMaterialObject and FieldDetector); the interval on one axis ranges over all intervals, the two others over a 4-element menu",
    "non-uniform grids are mirror-symmetric about the centre of every axis (required by the reduction)",
]
SIZES = (2, 3, 4, 5, 6, 7)


def _intervals(n):
    return [(lo, hi) for lo in range(n) for hi in range(lo + 1, n + 1)]


def _menu(n):
    m = n // 2
    out = [(0, n)]
    for iv in ((0, max(1, m)), (min(n - 1, m if n % 2 == 0 else m + 1), n), (max(0, m - 1), min(n, m + 2))):
        if iv not in out:
            out.append(iv)
    return out


def boxes(shape, full_product=False):
    """All boxes of the bounded space for one volume shape (deterministic order, no repetition)."""
    seen, out = set(), []
    if full_product:
        for b in itertools.product(*[_intervals(n) for n in shape]):
            out.append(b)
        return out
    for a in range(3):
        o1, o2 = [x for x in range(3) if x != a]
        for iv in _intervals(shape[a]):
            for m1 in _menu(shape[o1]):
                for m2 in _menu(shape[o2]):
                    b = [None] * 3
                    b[a], b[o1], b[o2] = iv, m1, m2
                    b = tuple(b)
                    if b not in seen:
                        seen.add(b)
                        out.append(b)
    return out


def place_boxes(shape):
    """Smaller menu for the place_objects route: every interval on one axis, the others full / strictly lower / straddling."""
    seen, out = set(), []
    for a in range(3):
        o1, o2 = [x for x in range(3) if x != a]
        for iv in _intervals(shape[a]):
            for m1, m2 in ((0, 0), (1, 0), (0, 3), (2, 2)):
                M1, M2 = _menu(shape[o1]), _menu(shape[o2])
                b = [None] * 3
                b[a], b[o1], b[o2] = iv, M1[min(m1, len(M1) - 1)], M2[min(m2, len(M2) - 1)]
                b = tuple(b)
                if b not in seen:
                    seen.add(b)
                    out.append(b)
    return out


def _place_shapes(tier):
    if tier == "thorough":
        return list(itertools.product(SIZES, repeat=3))
    return [(SIZES[i], SIZES[(i + 1) % 6], SIZES[(i + 2) % 6]) for i in range(6)] + [(4, 4, 4), (2, 2, 2), (6, 4, 2)]


def cases(tier, seed):
    syms = sorted(itertools.product((0, -1, 1), repeat=3), key=lambda s: (sum(x != 0 for x in s), s))
    out = []
    for shape in _place_shapes(tier):
        for sym in syms:
            for grid in ("uniform", "rect_sym"):
                if grid == "rect_sym" and tier == "quick" and sum(shape) % 2:
                    continue
                out.append(dict(mode="place", shape=list(shape), sym=list(sym), grid=grid, seed=seed))
    for shape in itertools.product(SIZES, repeat=3):
        for sym in syms:
            out.append(dict(mode="direct", shape=list(shape), sym=list(sym), grid="uniform", seed=seed, full=(tier == "thorough" and max(shape) <= 5)))
    out.sort(key=lambda c: (c["mode"] != "place", sum(x != 0 for x in c["sym"]), sum(c["shape"])))
    return out


def bounds(tier, seed):
    return {
        "volume_shapes_direct": "all 216 shapes with 2..7 cells per axis",
        "volume_shapes_place_objects": len(_place_shapes(tier)),
        "symmetry_tuples": 27,
        "boxes": "every interval on one axis x 4-interval menu on the two others (direct; thorough: full interval product for shapes <=5^3); place_objects: every interval on one axis x 4 menu pairs",
        "grids": ["uniform", "rect_sym (mirror-symmetric non-uniform)"],
        "object_kinds": ["UniformMaterialObject", "FieldDetector (every 7th box)"],
        "seed": seed,
    }


# ------------------------------------------------------------------------------------------------ oracle (integers)
def expect(shape, sym, box):
    """(dropped, clipped, unclipped_shifted) of one box; None if the configuration must raise."""
    clipped, unclipped, drop = [], [], False
    for a in range(3):
        s0, s1 = box[a]
        n = shape[a]
        if sym[a] != 0:
            if n % 2 or n < 2:
                return None
            m = n // 2
            lo, hi = max(s0, m) - m, s1 - m
            if hi <= lo:
                drop = True
            clipped.append([lo, hi])
            unclipped.append([s0 - m, s1 - m])
        else:
            clipped.append([s0, s1])
            unclipped.append([s0, s1])
    return drop, clipped, unclipped


def expect_volume(shape, sym):
    red, unred = [], []
    for a in range(3):
        n = shape[a]
        if sym[a] != 0:
            if n % 2 or n < 2:
                return None
            m = n // 2
            red.append([0, n - m])
            unred.append([-m, n - m])
        else:
            red.append([0, n])
            unred.append([0, n])
    return red, unred


def _nontrivial(shape, sym, box):
    for a in range(3):
        if sym[a] != 0 and shape[a] % 2 == 0:
            m = shape[a] // 2
            if box[a][0] <= m:
                return True
    return False


def _sig_axis(sym, a):
    return {0: "none", -1: "pec", 1: "pmc"}[sym[a]]


# ------------------------------------------------------------------------------------------------ real code
def _edges_sym(n, sp, axis):
    import numpy as np

    k = np.minimum(np.arange(n), n - 1 - np.arange(n)) + 3 * axis
    w = sp * (0.7 + 0.9 * np.mod(0.211 + k * 0.6180339887498949, 1.0))
    e = np.concatenate([[0.0], np.cumsum(w)])
    return e - 0.5 * e[-1]


def run_place(case):
    import jax
    import jax.numpy as jnp

    from mc import guard

    fdtdx = guard.import_fdtdx()
    shape, sym = tuple(case["shape"]), tuple(case["sym"])
    sp = 50e-9
    if case["grid"] == "uniform":
        grid = fdtdx.UniformGrid(spacing=sp)
        E = None
    else:
        E = [_edges_sym(shape[a], sp, a) for a in range(3)]
        grid = fdtdx.RectilinearGrid.custom(jnp.asarray(E[0]), jnp.asarray(E[1]), jnp.asarray(E[2]))
    cfg = fdtdx.SimulationConfig(time=1e-15, grid=grid, backend="cpu", dtype=jnp.float64, symmetry=sym)
    vol = fdtdx.SimulationVolume(name="volume", partial_grid_shape=shape)
    bxs = place_boxes(shape)
    objs, cons = [vol], []
    mat = fdtdx.Material(permittivity=2.0)
    for i, b in enumerate(bxs):
        if i % 7 == 3:
            o = fdtdx.FieldDetector(name=f"o{i}", plot=False, dtype=jnp.float64)
        else:
            o = fdtdx.UniformMaterialObject(name=f"o{i}", material=mat)
        objs.append(o)
        if E is None:
            cons.append(o.set_grid_coordinates(axes=(0, 1, 2), sides=("-", "-", "-"), coordinates=tuple(b[a][0] for a in range(3))))
            cons.append(o.set_grid_coordinates(axes=(0, 1, 2), sides=("+", "+", "+"), coordinates=tuple(b[a][1] for a in range(3))))
        else:
            from fdtdx.objects.object import RealCoordinateConstraint

            cons.append(RealCoordinateConstraint(object=o.name, axes=(0, 1, 2), sides=("-", "-", "-"), coordinates=tuple(float(E[a][b[a][0]]) for a in range(3))))
            cons.append(RealCoordinateConstraint(object=o.name, axes=(0, 1, 2), sides=("+", "+", "+"), coordinates=tuple(float(E[a][b[a][1]]) for a in range(3))))
    fails = []
    symclass = "/".join(_sig_axis(sym, a) for a in range(3))
    ev = expect_volume(shape, sym)
    try:
        oc, arrays, _params, config, _info = fdtdx.place_objects(objs, cfg, cons, key=jax.random.PRNGKey(0))
    except ValueError as e:
        if ev is None and "even number of cells" in str(e):
            return dict(ok=True, failures=[], nontrivial=1, evals=1, outcome="odd-count-raises", detail={"error": str(e)[:120]})
        raise
    except StopIteration:
        # array allocation cannot build a 1x1x1 domain at all (with or without symmetry): outside this property
        if ev is not None and all(r[1] - r[0] == 1 for r in ev[0]):
            return dict(ok=True, failures=[], nontrivial=0, evals=1, outcome="reduced-domain-1x1x1-not-allocatable", detail={})
        raise
    if ev is None:
        return dict(ok=False, failures=[dict(sig="odd-cell-count-on-symmetric-axis-accepted", detail=dict(shape=shape, sym=sym, grid=case["grid"]))], nontrivial=1, evals=1, outcome="odd-count-accepted")
    red, unred = ev
    rshape = tuple(r[1] - r[0] for r in red)
    got = {o.name: o for o in oc.objects}
    v = oc.volume
    if [list(x) for x in v.grid_slice_tuple] != red:
        fails.append(dict(sig="reduced-volume-slice", detail=dict(got=v.grid_slice_tuple, want=red)))
    if any(s != 0 for s in sym) and [list(x) for x in v.unreduced_grid_slice_tuple] != unred:
        fails.append(dict(sig="volume-unreduced-extent", detail=dict(got=v.unreduced_grid_slice_tuple, want=unred)))
    if tuple(config.resolved_grid.shape) != rshape:
        fails.append(dict(sig="reduced-grid-shape", detail=dict(got=config.resolved_grid.shape, want=rshape)))
    if tuple(arrays.inv_permittivities.shape[1:]) != rshape or tuple(arrays.fields.E.shape[1:]) != rshape:
        fails.append(dict(sig="array-shape-not-reduced", detail=dict(got=arrays.fields.E.shape, want=rshape)))
    if E is not None:
        import numpy as np

        for a in range(3):
            want = E[a][shape[a] // 2 :] if sym[a] != 0 else E[a]
            ge = np.asarray(config.resolved_grid.edges(a))
            if ge.shape != want.shape or np.max(np.abs(np.diff(ge) - np.diff(want))) > 1e-9 * sp:
                fails.append(dict(sig="reduced-grid-edges-not-upper-half", detail=dict(axis=a)))
    nontriv = 0
    counts = {"kept": 0, "clipped": 0, "dropped": 0}
    for i, b in enumerate(bxs):
        drop, clipped, unclipped = expect(shape, sym, b)
        nontriv += int(_nontrivial(shape, sym, b))
        o = got.get(f"o{i}")
        if drop:
            counts["dropped"] += 1
            if o is not None:
                fails.append(dict(sig=f"object-in-lower-half-not-dropped:{symclass}", detail=dict(box=b, shape=shape, sym=sym, got=o.grid_slice_tuple)))
            continue
        if o is None:
            fails.append(dict(sig=f"surviving-object-missing:{symclass}", detail=dict(box=b, shape=shape, sym=sym, want=clipped)))
            continue
        counts["clipped" if clipped != [list(x) for x in b] else "kept"] += 1
        if [list(x) for x in o.grid_slice_tuple] != clipped:
            fails.append(dict(sig=f"clipped-slice:{symclass}", detail=dict(box=b, shape=shape, sym=sym, got=o.grid_slice_tuple, want=clipped)))
        if [list(x) for x in o.unreduced_grid_slice_tuple] != unclipped:
            fails.append(dict(sig=f"unclipped-extent-record:{symclass}", detail=dict(box=b, shape=shape, sym=sym, got=o.unreduced_grid_slice_tuple, want=unclipped)))
        if any(s != 0 for s in sym) and [list(x) for x in o._unreduced_grid_slice_tuple] != unclipped:
            fails.append(dict(sig=f"unclipped-extent-not-recorded:{symclass}", detail=dict(box=b, got=o._unreduced_grid_slice_tuple, want=unclipped)))
    # walls
    walls = [o for o in oc.objects if getattr(o, "_is_symmetry_wall", False)]
    extra = [o for o in oc.objects if o.name not in {f"o{i}" for i in range(len(bxs))} | {"volume"} and o not in walls]
    if extra:
        fails.append(dict(sig="unexpected-extra-objects", detail=dict(names=[o.name for o in extra])))
    want_axes = [a for a in range(3) if sym[a] == -1]
    if sorted(w.axis for w in walls) != want_axes:
        fails.append(dict(sig=f"symmetry-walls-on-wrong-axes:{symclass}", detail=dict(got=[(w.name, w.axis) for w in walls], want_axes=want_axes)))
    for w in walls:
        ws = [[0, rshape[b2]] for b2 in range(3)]
        ws[w.axis] = [0, 1]
        if not isinstance(w, fdtdx.PerfectElectricConductor) or w.direction != "-" or [list(x) for x in w.grid_slice_tuple] != ws:
            fails.append(dict(sig="symmetry-wall-geometry", detail=dict(name=w.name, cls=type(w).__name__, slice=w.grid_slice_tuple, want=ws)))
    if any(isinstance(o, fdtdx.PerfectMagneticConductor) for o in oc.objects):
        fails.append(dict(sig="pmc-wall-object-created", detail={}))
    return dict(ok=not fails, failures=fails[:12], nontrivial=nontriv, evals=len(bxs) + 1, outcome=counts, detail=dict(counts, objects=len(bxs)))


_OBJ = []


def run_direct(case):
    import jax.numpy as jnp

    from mc import guard

    fdtdx = guard.import_fdtdx()
    from fdtdx.fdtd.symmetry import reduce_resolved_slices

    shape, sym = tuple(case["shape"]), tuple(case["sym"])
    if not _OBJ:
        _OBJ.append(fdtdx.UniformMaterialObject(name="o", material=fdtdx.Material(permittivity=2.0)))
        _OBJ.append(fdtdx.SimulationVolume(name="volume", partial_grid_shape=(2, 2, 2)))
    cfg = fdtdx.SimulationConfig(time=1e-15, grid=fdtdx.UniformGrid(spacing=50e-9), backend="cpu", dtype=jnp.float64, symmetry=sym)
    bxs = boxes(shape, full_product=case.get("full", False))
    resolved = {"volume": tuple((0, n) for n in shape)}
    omap = {"volume": _OBJ[1]}
    for i, b in enumerate(bxs):
        resolved[f"o{i}"] = tuple(tuple(x) for x in b)
        omap[f"o{i}"] = _OBJ[0]
    ev = expect_volume(shape, sym)
    symclass = "/".join(_sig_axis(sym, a) for a in range(3))
    if not any(sym):
        # the reduction is only invoked when config.has_symmetry; identity is the expectation
        if cfg.has_symmetry:
            return dict(ok=False, failures=[dict(sig="has_symmetry-true-for-zero-tuple", detail={})], nontrivial=0, evals=1)
        return dict(ok=True, failures=[], nontrivial=0, evals=1, outcome="no-symmetry")
    try:
        new, unred, dropped, rshape = reduce_resolved_slices(resolved, omap, cfg, "volume")
    except ValueError as e:
        if ev is None and "even number of cells" in str(e):
            return dict(ok=True, failures=[], nontrivial=1, evals=1, outcome="odd-count-raises")
        raise
    if ev is None:
        return dict(ok=False, failures=[dict(sig="odd-cell-count-on-symmetric-axis-accepted", detail=dict(shape=shape, sym=sym))], nontrivial=1, evals=1)
    fails = []
    red, unr = ev
    if [list(x) for x in new["volume"]] != red or tuple(rshape) != tuple(r[1] - r[0] for r in red):
        fails.append(dict(sig="reduced-volume-slice", detail=dict(got=new["volume"], shape=rshape, want=red)))
    if [list(x) for x in unred["volume"]] != unr:
        fails.append(dict(sig="volume-unreduced-extent", detail=dict(got=unred["volume"], want=unr)))
    nontriv = 0
    counts = {"kept": 0, "clipped": 0, "dropped": 0}
    for i, b in enumerate(bxs):
        nm = f"o{i}"
        drop, clipped, unclipped = expect(shape, sym, b)
        nontriv += int(_nontrivial(shape, sym, b))
        if drop:
            counts["dropped"] += 1
            if nm not in dropped or nm in new or nm in unred:
                fails.append(dict(sig=f"object-in-lower-half-not-dropped:{symclass}", detail=dict(box=b, shape=shape, sym=sym)))
            continue
        if nm in dropped or nm not in new:
            fails.append(dict(sig=f"surviving-object-missing:{symclass}", detail=dict(box=b, shape=shape, sym=sym)))
            continue
        counts["clipped" if clipped != [list(x) for x in b] else "kept"] += 1
        if [list(x) for x in new[nm]] != clipped:
            fails.append(dict(sig=f"clipped-slice:{symclass}", detail=dict(box=b, shape=shape, sym=sym, got=new[nm], want=clipped)))
        if [list(x) for x in unred[nm]] != unclipped:
            fails.append(dict(sig=f"unclipped-extent-record:{symclass}", detail=dict(box=b, shape=shape, sym=sym, got=unred[nm], want=unclipped)))
    return dict(ok=not fails, failures=fails[:12], nontrivial=nontriv, evals=len(bxs), outcome=counts, detail=dict(counts, objects=len(bxs)))


def run_case(case):
    return run_place(case) if case["mode"] == "place" else run_direct(case)
