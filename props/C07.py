"""C07 — stopping conditions stop exactly where documented.

The plain T-step trajectory of a scene is recorded once (state_0 .. state_T through the public partial-run driver).
tab cases: for EVERY parameter combination (min_steps in {None,0..T}, max_steps in {None,0..T+2}, every threshold class
    of the trace = one threshold between each pair of consecutive sorted trace values + below the smallest positive value
    + above the largest; DetectorConvergenceCondition additionally prev_periods in {1,2} x two source periods) the real
    condition object is set up and its continue-predicate is evaluated on EVERY trajectory state; the first state on
    which it reports "stop" (bounded by the loop bound time_steps_total) is compared with an independent numpy reading
    of the class docstrings:
        stop = first t with  t >= min(max_steps, time_steps_total)  or  (t >= min_steps and criterion(t))
    and the three inequalities of the statement are checked separately (never later than max_steps / total steps, never
    before min_steps unless the hard cut-off comes first). Invalid parameters must raise the documented ValueError.
conf cases: for every distinct predicted stop step s (and every reason: hard cut-off, criterion met exactly at min_steps,
    criterion met later, total step count) one real `run_fdtd(stopping_condition=...)` is executed; its final step must be
    the predicted one and its final state must equal state_s of the plain trajectory.
"""

ID = "C07"
LEVEL = "model_checking"
MANIFEST = {
    "engine": "E2-enum + E4-conformance",
    "technique": "explicit-state model checking of the stop rule: the real continue-predicate of every stopping condition is tabulated on every state of the recorded trajectory for every (min_steps, max_steps, threshold class, prev_periods, period) combination and compared with an independent reading of the documented rule; every distinct predicted stop step is confirmed by a real run_fdtd(stopping_condition=...) whose final state is compared with the plain trajectory",
    "text": "The trajectory states are the states of the model; the transition relation is the driver loop 'continue while the condition says so, at most time_steps_total steps'. The condition's continue-predicate is evaluated on every trajectory state for the complete parameter grid (thresholds taken from every class the trace can distinguish), which determines the stop step of every configuration; it is compared with the documented rule and with the three bounds of the statement, and each distinct stop step (per reason) is replayed through run_fdtd and compared with the plain run of that many steps.",
    "note": "One scene per tier (PML, pulsed magnetic dipole: energy rises then decays, so the trace is non-monotone); thresholds are exhaustive over the behaviours thresholds can induce on that trace, not over the reals. float64; DetectorConvergenceCondition cannot be traced under jax_enable_x64 on the unchanged tree (reported as a finding by the x64 case), its rule is then explored in float32 with state comparisons at 1e-5.",
}
RULE = (
    "tab case = (condition kind, block of parameters); every parameter combination of the block is an element (evals), evaluated on all T+1 trajectory states (transitions). "
    "An element is non-trivial when the documented stop step is < T (the condition really stops the run early) or the parameters are invalid and must raise; distinct = distinct parameter tuples. "
    "conf case = (condition kind, stop step s): one real run per reason class that predicts s."
)
ASSUMPTIONS = [
    "float64 evaluation is representative of the float32 default",
    "thresholds are exhaustive over the classes the recorded trace can distinguish (one per gap between consecutive sorted trace values, below the smallest, above the largest), not over the reals",
    "one scene per tier",
]
TOL = 1e-12
_F32 = False  # set per case inside the worker (detector-convergence fallback mode)


def _T(tier):
    return 10 if tier == "quick" else 14


def _scene_spec(T, seed, f32=False):
    per_yz = {"min_y": "periodic", "max_y": "periodic", "min_z": "periodic", "max_z": "periodic"}
    W = {"wavelength": 4e-7, "phase_shift": 1.0}
    return dict(
        shape=[7, 3, 3], faces={"min_x": "pml", "max_x": "pml", **per_yz}, pml=2, eps={"tier": "iso", "pat": "distinct"}, steps=T, seed=seed, dtype="f32" if f32 else "f64",
        sources=[dict(kind="dipole", box=[[3, 4], [1, 2], [1, 2]], polarization=2, source_type="magnetic", wave=W, switch={"fixed_on_time_steps": [0, 1, 2, 4]})],
        detectors=[
            # convergence detector: O(1e-3) readings (an EnergyDetector reads ~1e-26 J here, whose squares underflow in float32)
            dict(kind="field", name="conv", box=[[3, 5], [1, 2], [1, 2]], components=["Hz"], reduce_volume=True),
            dict(kind="energy", name="energy", box=[[2, 5], [0, 3], [0, 3]], reduce_volume=True),
            dict(kind="field", name="probe", box=[[4, 5], [1, 2], [1, 2]], reduce_volume=False),
            dict(kind="phasor", name="acc", box=[[2, 3], [1, 2], [1, 2]], wave_characters=[W]),
        ],
    )


DET_GRID = [(1, 2), (1, 3), (2, 2), (2, 3)]  # (prev_periods, samples per period)


def cases(tier, seed):
    T = _T(tier)
    out = []
    ms_all = [None] + list(range(0, T + 1)) + [-1]
    blk = 5
    for i in range(0, len(ms_all), blk):
        out.append(dict(kind="tab", cond="energy", T=T, min_steps=ms_all[i : i + blk], seed=seed))
    ms_det = [None] + list(range(0, T + 1))
    for pp, spp in DET_GRID:
        for i in range(0, len(ms_det), 4):
            out.append(dict(kind="tab", cond="detector", T=T, prev_periods=pp, spp=spp, min_steps=ms_det[i : i + 4], seed=seed))
    for cond in ("energy", "detector"):
        for s in range(0, T + 1):
            out.append(dict(kind="conf", cond=cond, T=T, stop=s, seed=seed))
    out.append(dict(kind="conf", cond="timestep", T=T, stop=T, seed=seed))
    out.append(dict(kind="x64", cond="detector", T=T, seed=seed))
    return out


def bounds(tier, seed):
    T = _T(tier)
    return {
        "T": T,
        "min_steps": f"None, 0..{T}, and -1 (documented ValueError for the energy condition)",
        "max_steps": f"None, 0..{T + 2}",
        "thresholds": "every class of the trace: between consecutive sorted trace values, below the smallest positive, above the largest; invalid: 0 and -1 (energy), -1 (detector)",
        "detector_condition": "prev_periods in {1,2} x samples-per-period in {2,3}",
        "trajectory_states": T + 1,
        "confirmation": "every distinct predicted stop step x reason class through run_fdtd(stopping_condition=...)",
        "tolerance": TOL,
        "seed": seed,
    }


# ------------------------------------------------------------------------------------------------------------
class _Traj:
    def __init__(self, T, seed, f32=False):
        import jax
        import jax.numpy as jnp
        import numpy as np

        from mc import scenes
        from mc.oracles import drivers as D
        from fdtdx.fdtd.fdtd import custom_fdtd_forward

        self.sc = sc = scenes.build(_scene_spec(T, seed, f32))
        self.T = T
        self.tol = 1e-5 if f32 else TOL
        key = jax.random.PRNGKey(0)
        fwd = jax.jit(lambda a, s, e: custom_fdtd_forward(a, sc.objects, sc.config, key, reset_container=False, record_detectors=True, start_time=s, end_time=e, show_progress=False))
        self.states = [sc.arrays]
        a = sc.arrays
        for t in range(T):
            _, a = fwd(a, jnp.asarray(t, dtype=jnp.int32), jnp.asarray(t + 1, dtype=jnp.int32))
            self.states.append(a)
        self.snaps = [D.snapshot(s) for s in self.states]
        self.scale = {}
        for r in self.snaps:
            for g, v in D.scales(r).items():
                self.scale[g] = max(self.scale.get(g, 0.0), v)
        self.stacked = jax.tree.map(lambda *xs: jnp.stack(xs), *self.states)
        self.ts = jnp.arange(T + 1, dtype=jnp.int32)
        # independent numpy traces
        ie = np.asarray(sc.arrays.inv_permittivities, dtype=np.float64)
        im = sc.arrays.inv_permeabilities
        im = np.asarray(im, dtype=np.float64) if np.ndim(im) > 0 else float(im)
        self.energy = []
        for s in self.snaps:
            E, H = s["E"], s["H"]
            self.energy.append(float(np.sum(0.5 * (np.abs(E) ** 2 / ie + np.abs(H) ** 2 / im))))
        self.readings = [np.asarray(s["det/conv/fields"], dtype=np.float64)[:, 0] for s in self.snaps]  # readings visible in state t
        self.dt = float(sc.config.time_step_duration)

    def predicate(self, cond):
        """Real continue-predicate of a set-up condition on every trajectory state (one vmapped call)."""
        import jax
        import numpy as np

        sc = self.sc
        out = jax.vmap(lambda t, a: cond((t, a), sc.config, sc.objects))(self.ts, self.stacked)
        return [bool(v) for v in np.asarray(out)]

    def spectral_distance(self, t, pp, spp):
        import numpy as np

        r = self.readings[t]
        ref = r[t - (pp + 1) * spp : t - spp].reshape(pp, spp).mean(axis=0)
        last = r[t - spp : t]
        return float(np.linalg.norm(np.abs(np.fft.rfft(ref, n=spp)) - np.abs(np.fft.rfft(last, n=spp))))


def _classes(values, lowest_valid):
    """One threshold per class the trace can distinguish. Returns sorted list of thresholds >= lowest_valid (exclusive when 0)."""
    vs = sorted(set(float(v) for v in values))
    out = []
    pos = [v for v in vs if v > 0]
    if pos:
        out.append(pos[0] / 2 if (not vs or vs[0] <= 0) else vs[0] / 2)
    for a, b in zip(vs[:-1], vs[1:]):
        m = 0.5 * (a + b)
        if m > 0 and m not in out and a < m < b and (b - a) > 1e-3 * max(abs(a), abs(b)):  # gaps below float32 resolution of the trace are skipped
            out.append(m)
    if vs:
        out.append(2 * vs[-1] if vs[-1] > 0 else 1.0)
    return sorted(set(out))


def _doc_stop(T, ms, mx, crit):
    """Independent reading of the docstrings. crit(t) -> bool (criterion met in state t). Returns (stop, reason)."""
    cap = T if mx is None else min(mx, T)
    for t in range(0, T + 1):
        if t >= cap:
            return t, ("max_steps" if (mx is not None and mx <= t and mx < T) else "total")
        if t >= ms and crit(t):
            return t, ("criterion@min_steps" if t == ms else "criterion")
    return T, "total"


def _first_stop(pred, T):
    for t in range(T):
        if not pred[t]:
            return t
    return T  # the driver loop is bounded by time_steps_total


def _energy_params(tr, ms_list):
    T = tr.T
    thr = _classes(tr.energy, 0.0)
    for ms in ms_list:
        for mx in [None] + list(range(0, T + 3)):
            for th in thr + [0.0, -1.0]:
                yield dict(min_steps=ms, max_steps=mx, threshold=th)


def _energy_expect(tr, p):
    T = tr.T
    if p["threshold"] <= 0 or (p["min_steps"] is not None and p["min_steps"] < 0):
        return None  # documented ValueError
    ms = int(round(0.1 * T)) if p["min_steps"] is None else p["min_steps"]
    return _doc_stop(T, ms, p["max_steps"], lambda t: tr.energy[t] < p["threshold"]) + (ms,)


def _make_energy(p):
    fdtdx = __import__("fdtdx")
    from fdtdx.fdtd.stop_conditions import EnergyThresholdCondition

    return EnergyThresholdCondition(threshold=p["threshold"], min_steps=p["min_steps"], max_steps=p["max_steps"])


def _det_params(tr, pp, spp, ms_list=None):
    T = tr.T
    need = (pp + 1) * spp
    ds = [tr.spectral_distance(t, pp, spp) for t in range(need, T + 1)] if need <= T else []
    thr = _classes(ds, 0.0) + [0.0, -1.0]
    for ms in ([None] + list(range(0, T + 1))) if ms_list is None else ms_list:
        for mx in [None] + list(range(0, T + 3)):
            for th in thr:
                yield dict(prev_periods=pp, spp=spp, min_steps=ms, max_steps=mx, threshold=th)


def _det_expect(tr, p):
    T = tr.T
    pp, spp = p["prev_periods"], p["spp"]
    need = (pp + 1) * spp
    if need > T or p["threshold"] < 0 or (p["min_steps"] is not None and p["min_steps"] < need):
        return None  # documented ValueError
    ms = need if p["min_steps"] is None else p["min_steps"]
    return _doc_stop(T, ms, p["max_steps"], lambda t: tr.spectral_distance(t, pp, spp) < p["threshold"]) + (ms,)


def _make_det(tr, p):
    fdtdx = __import__("fdtdx")
    from fdtdx.fdtd.stop_conditions import DetectorConvergenceCondition

    return DetectorConvergenceCondition(
        detector_name="conv", wave_character=fdtdx.WaveCharacter(period=p["spp"] * tr.dt), prev_periods=p["prev_periods"],
        threshold=p["threshold"], min_steps=p["min_steps"], max_steps=p["max_steps"],
    )


def _judge(kind, p, T, real_stop, exp, fails):
    """Compare a stop step produced by the real code with the documented rule. exp = (stop, reason, min_steps_effective)."""
    doc, reason, ms = exp
    mx = p["max_steps"]
    name = "energy-threshold" if kind == "energy" else "detector-convergence"
    d = dict(params=p, real_stop=real_stop, documented_stop=doc, reason=reason)
    if real_stop > T:
        fails.append(dict(sig=f"{name}:runs-past-time_steps_total", detail=d))
    elif mx is not None and real_stop > mx:
        fails.append(dict(sig=f"{name}:runs-past-max_steps", detail=d))
    elif real_stop < min(ms, T if mx is None else min(mx, T)):
        fails.append(dict(sig=f"{name}:stops-before-min_steps", detail=d))
    elif real_stop != doc:
        fails.append(dict(sig=f"{name}:stop-step-differs-from-documented-rule:{'later' if real_stop > doc else 'earlier'}", detail=d))


def _tab(case):
    T = case["T"]
    kind = case["cond"]
    tr = _Traj(T, case.get("seed", 0), f32=_F32)
    sc = tr.sc
    state0 = (0, sc.arrays)
    if kind == "energy":
        params = list(_energy_params(tr, case["min_steps"]))
        expect, make = (lambda p: _energy_expect(tr, p)), (lambda p: _make_energy(p))
    else:
        params = list(_det_params(tr, case["prev_periods"], case["spp"], case.get("min_steps")))
        expect, make = (lambda p: _det_expect(tr, p)), (lambda p: _make_det(tr, p))
    fails, outcomes = [], {}
    nontriv = evals = trans = 0
    stops = set()
    name = "energy-threshold" if kind == "energy" else "detector-convergence"
    for p in params:
        evals += 1
        exp = expect(p)
        try:
            cond = make(p).setup(state0, sc.config, sc.objects)
        except ValueError as e:
            if exp is None:
                nontriv += 1
                outcomes["documented-ValueError"] = outcomes.get("documented-ValueError", 0) + 1
            else:
                fails.append(dict(sig=f"{name}:valid-parameters-rejected", detail=dict(params=p, error=str(e)[:200])))
            continue
        if exp is None:
            fails.append(dict(sig=f"{name}:invalid-parameters-accepted", detail=dict(params=p)))
            continue
        pred = tr.predicate(cond)
        trans += T + 1
        real = _first_stop(pred, T)
        n0 = len(fails)
        _judge(kind, p, T, real, exp, fails)
        stops.add(real)
        if exp[0] < T:
            nontriv += 1
        oc = f"stop:{exp[1]}" if len(fails) == n0 else "deviates"
        outcomes[oc] = outcomes.get(oc, 0) + 1
    # keep one failing element per signature (simplest first) plus the count
    by_sig = {}
    for f in fails:
        by_sig.setdefault(f["sig"], []).append(f)
    out_f = []
    for sig, fs in by_sig.items():
        f0 = dict(fs[0])
        f0["detail"] = dict(f0["detail"], failing_elements=len(fs))
        out_f.append(f0)
    return dict(
        ok=not fails, failures=out_f, detail=dict(elements=evals, distinct_real_stop_steps=sorted(stops), energy_trace=[float(f"{e:.4g}") for e in tr.energy]),
        evals=evals, nontrivial=nontriv, states=T + 1, transitions=trans, traces=0, outcome=outcomes,
    )


def _conf(case):
    import jax

    from mc.oracles import drivers as D

    fdtdx = __import__("fdtdx")
    T, s, kind = case["T"], case["stop"], case["cond"]
    tr = _Traj(T, case.get("seed", 0), f32=_F32)
    sc = tr.sc
    key = jax.random.PRNGKey(0)
    fails = []
    reps = {}
    if kind == "timestep":
        from fdtdx.fdtd.stop_conditions import TimeStepCondition

        reps["total"] = (dict(max_steps=None), TimeStepCondition(), (T, "total", 0))
    elif kind == "energy":
        ms_all = [None] + list(range(0, T + 1))
        for p in _energy_params(tr, ms_all):
            exp = _energy_expect(tr, p)
            if exp is not None and exp[0] == s and exp[1] not in reps:
                reps[exp[1]] = (p, _make_energy(p), exp)
    else:
        for pp, spp in DET_GRID:
            for p in _det_params(tr, pp, spp):
                exp = _det_expect(tr, p)
                if exp is not None and exp[0] == s and exp[1] not in reps:
                    reps[exp[1]] = (p, _make_det(tr, p), exp)
    traces = 0
    worst = 0.0
    for reason, (p, cond, exp) in sorted(reps.items()):
        t_end, arrs = fdtdx.run_fdtd(sc.arrays, sc.objects, sc.config, key, stopping_condition=cond, show_progress=False)
        t_end = int(t_end)
        traces += 1
        if kind == "timestep":
            if t_end != T:
                fails.append(dict(sig="timestep:stop-step-wrong", detail=dict(real_stop=t_end, T=T)))
        else:
            # the step the tabulated predicate predicts for the driver loop
            pred = tr.predicate(cond.setup((0, sc.arrays), sc.config, sc.objects))
            tab_stop = _first_stop(pred, T)
            if t_end != tab_stop:
                fails.append(dict(sig="driver:halts-at-a-different-step-than-the-first-stop-report", detail=dict(params=p, real_stop=t_end, first_stop_report=tab_stop)))
            _judge(kind, p, T, t_end, exp, fails)
        if 0 <= t_end <= T:
            w, k, problems = D.compare(tr.snaps[t_end], D.snapshot(arrs), tr.tol, scale=tr.scale)
            worst = max(worst, w)
            if problems or w > tr.tol:
                fails.append(dict(sig="stopped-state-differs-from-plain-run-of-that-many-steps", detail=dict(params=p, stop=t_end, rel=w, key=k, problems=problems[:3])))
    return dict(
        ok=not fails, failures=fails, detail=dict(stop=s, reasons=sorted(reps), worst_rel=worst), evals=traces, nontrivial=traces if s < T or kind == "timestep" else min(traces, 1),
        states=0, transitions=traces, traces=traces, outcome={f"confirmed:{r}": 1 for r in reps} if not fails else "deviates",
    )


def _x64(case):
    """The framework's own numeric mode (jax_enable_x64): a valid DetectorConvergenceCondition must be usable through run_fdtd."""
    import jax

    fdtdx = __import__("fdtdx")
    T = case["T"]
    tr = _Traj(T, case.get("seed", 0))
    sc = tr.sc
    p = dict(prev_periods=1, spp=2, min_steps=None, max_steps=None, threshold=0.0)
    exp = _det_expect(tr, p)
    fails = []
    try:
        t_end, _ = fdtdx.run_fdtd(sc.arrays, sc.objects, sc.config, jax.random.PRNGKey(0), stopping_condition=_make_det(tr, p), show_progress=False)
        _judge("detector", p, T, int(t_end), exp, fails)
    except TypeError as e:
        fails.append(dict(sig="detector-convergence:TypeError-with-jax_enable_x64", detail=dict(params=p, error=str(e)[:300])))
    return dict(ok=not fails, failures=fails, detail={}, evals=1, nontrivial=1, states=0, transitions=1, traces=1, outcome="x64-ok" if not fails else "x64-unusable")


def _x64_usable(case):
    """Can DetectorConvergenceCondition be evaluated at all with jax_enable_x64 (the framework's numeric mode)?"""
    tr = _Traj(case["T"], case.get("seed", 0))
    p = dict(prev_periods=1, spp=2, min_steps=None, max_steps=None, threshold=1.0)
    try:
        tr.predicate(_make_det(tr, p).setup((0, tr.sc.arrays), tr.sc.config, tr.sc.objects))
    except TypeError:
        return False
    return True


def run_case(case):
    global _F32
    if case["kind"] == "x64":
        return _x64(case)
    if case["cond"] != "detector":
        return _tab(case) if case["kind"] == "tab" else _conf(case)
    # DetectorConvergenceCondition cannot be traced with jax_enable_x64 on the unchanged tree (reported by the x64 case); its stop
    # rule is then checked in the default float32 mode (state comparisons at 1e-5). With a tree where it can, float64 is used.
    import warnings

    import jax

    from mc import scenes  # noqa: F401  (its import pins jax_enable_x64=True; must happen before the toggle below)

    if _x64_usable(case):
        _F32 = False
        return _tab(case) if case["kind"] == "tab" else _conf(case)
    _F32 = True
    jax.config.update("jax_enable_x64", False)
    try:
        with warnings.catch_warnings():
            warnings.simplefilter("ignore")
            r = _tab(case) if case["kind"] == "tab" else _conf(case)
        r.setdefault("detail", {})["numeric_mode"] = "float32 (jax_enable_x64 off)"
        return r
    finally:
        jax.config.update("jax_enable_x64", True)
        _F32 = False
