"""C19 — ClosestIndex returns, per voxel, the index of the nearest allowed value, keeps the shape, passes gradients.

Bounded exhaustive enumeration (engine E2): every material set of 2–5 materials from a permittivity menu (several
dict insertion orders) x mode {integer rounding (isotropic and diagonal materials), inverse-permittivity lookup
(isotropic)} x **all** shapes (a,b,c) in {1..4}^3 x a value alphabet that is rotated cyclically through the cells
(Latin assignment: every cell sees every value, neighbours always differ, so any cross-cell broadcasting shows).
The real transform is initialised like `Device.place_on_grid` does (init_module + init_type) and driven through
`ClosestIndex.__call__`. Oracle: numpy/fractions nearest-allowed-value model written from the property statement.
"""
import itertools
from fractions import Fraction

import numpy as np

ID = "C19"
LEVEL = "exploration"
MANIFEST = {
    "engine": "E2-enum",
    "technique": "bounded exhaustive enumeration of all material sets (2-5 of a menu) x all shapes in {1..4}^3 x cyclic Latin value assignments against an exact-arithmetic nearest-allowed-value reference model",
    "text": "Every material set of 2-5 materials from a finite permittivity menu (isotropic; diagonal for the integer mode; several dict insertion orders), both modes of ClosestIndex, all 64 shapes (a,b,c) in {1..4}^3 and every cyclic rotation of a value alphabet (all allowed values, midpoints +- delta, exact ties, out-of-range values) through the cells are run through the real transform; the output must keep the shape, be an allowed index of minimal distance (tie-agnostic, exact rational arithmetic) and have the identity Jacobian (straight-through).",
    "note": "Values come from a finite alphabet (degenerate values + VERIF_SEED generic value); float64. Inverse-permittivity mode only for isotropic materials, as in the statement.",
}
RULE = (
    "case = (mode family, shape in {1..4}^3); inside a case every material set x insertion order x all cyclic rotations of the value "
    "alphabet are evaluated through ClosestIndex.__call__. One evaluation = one (shape, rotation) call (+ one vjp, + full Jacobian "
    "at rotation 0). An evaluation is non-trivial when the reference output contains at least two different indices (or, for "
    "1-cell shapes, a non-zero index), i.e. a constant or always-zero answer would be wrong."
)
ASSUMPTIONS = [
    "value alphabet is finite: every allowed value, midpoints (exact and +-delta), k+-0.49/0.5, out-of-range values, one VERIF_SEED-derived generic value",
    "float64 evaluation (x64 enabled) is representative of the float32 default",
    "ties and inputs within 4 ulp of a tie accept either neighbour (the statement does not fix tie-breaking)",
]

MENU_Q = [1.0, 1.5, 2.25, 4.0, 11.7]
MENU_T = [1.0, 1.44, 1.5, 2.25, 4.0, 11.7, 12.25]
SHAPES = [list(s) for s in sorted(itertools.product(range(1, 5), repeat=3), key=lambda s: (s[0] * s[1] * s[2], s))]


def _orders(perms, seed, tier):
    n = len(perms)
    srt = sorted(perms)
    rot = 1 + seed % (n - 1) if n > 2 else 1
    outs = [srt, srt[::-1], srt[rot:] + srt[:rot]]
    if tier == "quick":  # sorted + one unsorted order (which one depends on the seed)
        outs = [srt, outs[1 + (seed + n) % 2]]
    uniq = []
    for o in outs:
        if o not in uniq:
            uniq.append(o)
    return uniq


def _material_sets(menu, seed, tier):
    out = []
    for n in range(2, 6):
        for sub in itertools.combinations(menu, n):
            out += _orders(list(sub), seed, tier)
    return out


def cases(tier, seed):
    # one case = (mode family, shape): every material set x insertion order x value rotation is run inside it, so that the
    # per-shape XLA compilations of the eager ops are paid once (they dominate the run time otherwise)
    menu = MENU_Q if tier == "quick" else MENU_T
    out = []
    for shape in SHAPES:
        for family in ("int", "inv"):
            out.append(dict(family=family, shape=shape, menu=menu, seed=seed, tier=tier))
    return out


def bounds(tier, seed):
    menu = MENU_Q if tier == "quick" else MENU_T
    return {
        "permittivity_menu": menu,
        "material_sets": f"all subsets of size 2..5 ({len(_material_sets(menu, seed, tier))} with insertion orders: sorted + one unsorted (quick) / sorted, reversed, rotated (thorough))",
        "modes": ["integer rounding, isotropic", "integer rounding, diagonal (eps, 1.1 eps, 1.3 eps)", "inverse permittivity, isotropic"],
        "shapes": "all (a,b,c) in {1,2,3,4}^3 (64)",
        "values": f"alphabet per mode (see _alphabet) padded cyclically to {LPAD} entries, every cyclic rotation through the cells",
        "seed": seed,
    }


LPAD = 32


def _alphabet(mode, n, inv, seed):
    rng = np.random.default_rng(1000 + seed)
    if mode.startswith("int"):
        vals = [-1.0, -0.5, 0.25, n - 0.5, n + 3.0, 1e-300, -0.0]
        for k in range(n):
            vals += [float(k), k + 0.49, k + 0.51, k + 0.5]
        vals.append(float(rng.uniform(-1, n)))
    else:
        a = sorted(inv)
        vals = list(a)
        for lo, hi in zip(a[:-1], a[1:]):
            mid = 0.5 * (lo + hi)
            d = 1e-6 * (hi - lo)
            vals += [mid, mid - d, mid + d]
        vals += [a[0] / 2, 0.0, -0.3, a[-1] * 2, a[-1] + 1.0]
        vals.append(float(rng.uniform(a[0], a[-1])))
    # dedupe, keep order
    seen, out = set(), []
    for v in vals:
        if (v, np.signbit(v)) not in seen:
            seen.add((v, np.signbit(v)))
            out.append(float(v))
    assert len(out) <= LPAD
    return [out[i % len(out)] for i in range(LPAD)]


def _acceptable(x, allowed):
    """indices k with |x - allowed[k]| minimal, exact rational arithmetic; inputs within 4 ulp of a tie accept both."""
    fx = Fraction(x)
    d = [abs(fx - Fraction(a)) for a in allowed]
    dmin = min(d)
    slack = Fraction(4 * np.finfo(np.float64).eps) * max([abs(fx)] + [abs(Fraction(a)) for a in allowed])
    return {k for k, dk in enumerate(d) if dk <= dmin + slack}, int(np.argmin([float(v) for v in d]))


def run_case(case):
    from mc import guard

    guard.import_fdtdx()

    fails, evals, nontriv, outcome = [], 0, 0, {}
    seen_sig = set()

    def fail(sig, detail):
        if sig in seen_sig:
            return
        seen_sig.add(sig)
        fails.append(dict(sig=sig, detail=detail))

    shape = tuple(case["shape"])
    modes = ("int-iso", "int-diag") if case["family"] == "int" else ("inv-iso",)
    for perms in _material_sets(case["menu"], case["seed"], case["tier"]):
        for mode in modes:
            if mode == "int-diag" and case["tier"] == "quick" and perms != sorted(perms):
                continue
            e, nt = _run_one(perms, mode, shape, case["seed"], fail, outcome)
            evals += e
            nontriv += nt
    return dict(ok=not fails, failures=fails, detail=dict(shape=list(shape), family=case["family"]), nontrivial=nontriv, evals=evals, outcome=outcome)


def _run_one(perms, mode, shape, seed, fail, outcome):
    import jax
    import jax.numpy as jnp
    from fdtdx.objects.device.parameters.discretization import ClosestIndex
    from mc.oracles import ptransform as PT

    n = len(perms)
    if mode == "int-diag":
        mats = PT.materials([[p, 1.1 * p, 1.3 * p] for p in perms])
    else:
        mats = PT.materials(perms)
    inverse = mode == "inv-iso"
    # reference: index = position in ascending-permittivity order; allowed values per index
    eps_sorted = sorted(perms)
    inv = [float(np.float64(1.0) / np.float64(e)) for e in eps_sorted]
    allowed = inv if inverse else [float(k) for k in range(n)]
    alpha = _alphabet(mode, n, inv, seed)
    acc_sets = [_acceptable(v, allowed) for v in alpha]
    evals, nontriv = 0, 0
    # failing-input class for the signature: in the inverse mode the relation of the array depth to the number of materials
    cls = "" if not inverse else (":depth=1" if shape[2] == 1 else ":depth=n" if shape[2] == n else ":depth!=n")
    L = len(alpha)
    A = np.zeros((L, n), dtype=bool)  # A[value, index] = index acceptable for value
    for i, (ok_set, _) in enumerate(acc_sets):
        A[i, sorted(ok_set)] = True
    best = np.asarray([b for _, b in acc_sets])
    alpha_np = np.asarray(alpha, dtype=np.float64)
    for _single_pass in (0,):  # `continue` below = give up on this (material set, mode, shape) after a reported failure
        ncell = int(np.prod(shape))
        t = PT.make(ClosestIndex(mapping_from_inverse_permittivities=inverse), mats, shape)
        f = lambda x: t({"params": x})["params"]  # noqa: E731
        ids = (np.arange(ncell)[None, :] + np.arange(L)[:, None]) % L  # rotation r, cell j -> value id
        X = alpha_np[ids].reshape((L, *shape))
        exp = best[ids]
        nt = np.asarray([(len(set(e.tolist())) >= 2) if ncell > 1 else (e[0] != 0) for e in exp])
        evals += L
        nontriv += int(nt.sum())
        base = dict(perms=perms, mode=mode, shape=list(shape))
        # (1) one plain (un-vmapped) call + its full Jacobian: this is what a user does
        try:
            out0, vjp0 = jax.vjp(f, jnp.asarray(X[0]))
            out0 = np.asarray(out0)
        except (ValueError, TypeError) as e:
            fail(f"{mode}:call-raises:{type(e).__name__}{cls}", dict(base, x=X[0].ravel().tolist(), error=str(e)[:300]))
            continue
        if out0.shape != shape:
            fail(f"{mode}:shape-changed{cls}", dict(base, x=X[0].ravel().tolist(), got_shape=list(out0.shape)))
            continue
        J = np.asarray(jax.vmap(lambda e: vjp0(e)[0])(jnp.eye(ncell).reshape((ncell, *shape)))).reshape(ncell, ncell)
        evals += 1
        if not np.array_equal(J, np.eye(ncell)):
            fail(f"{mode}:jacobian-not-identity{cls}", dict(base, x=X[0].ravel().tolist(), max_dev=float(np.max(np.abs(J - np.eye(ncell))))))
        # (2) all rotations in one vmapped batch (same Python code per element), value + straight-through gradient
        W = 1.0 + (np.arange(L * ncell, dtype=np.float64).reshape((L, *shape)) % 97) / 7.0
        OUT, vjp = jax.vjp(jax.vmap(f), jnp.asarray(X))
        OUT = np.asarray(OUT)
        (G,) = vjp(jnp.asarray(W))
        if OUT.shape != (L, *shape) or not np.array_equal(OUT[0], out0):
            fail(f"{mode}:harness:vmap-differs-from-plain-call", dict(base))
            continue
        flat = OUT.reshape(L, ncell)
        isint = flat == np.round(flat)
        k = np.clip(np.where(isint, flat, 0).astype(np.int64), 0, n - 1)
        good = isint & (k == flat) & A[ids, k]
        for v, c in zip(*np.unique(np.where(isint, flat, -99), return_counts=True)):
            key = f"idx{int(v)}" if v != -99 else "non-integer"
            outcome[key] = outcome.get(key, 0) + int(c)
        if not good.all():
            r, j = [int(v) for v in np.argwhere(~good)[0]]
            allzero = bool(np.all(flat[r] == 0))
            sig = f"{mode}:all-index-0{cls}" if (allzero and nt[r]) else f"{mode}:wrong-index{cls}"
            fail(sig, dict(base, rotation=r, x=X[r].ravel().tolist(), cell=j, x_cell=float(X[r].ravel()[j]), got=float(flat[r, j]), acceptable=np.nonzero(A[ids[r, j]])[0].tolist(), allowed=allowed, n_bad=int((~good).sum())))
        if not np.array_equal(np.asarray(G), W):
            bad = np.argwhere(np.asarray(G) != W)[0]
            fail(f"{mode}:gradient-not-passed-through{cls}", dict(base, rotation=int(bad[0]), x_cell=float(X[tuple(bad)]), got=float(np.asarray(G)[tuple(bad)]), want=float(W[tuple(bad)])))
    return evals, nontriv
