"""C12 — absorbing layers absorb.

Engine E4 (scene sweep through the public driver). The property is a threshold statement over a continuous scene
family; what this check contributes is the EXHAUSTIVE sweep of a stated finite menu — every dipole polarization at the
centre / next to every face / next to edges / in corners (always >= 3 cells from the layers), every propagation
direction of a pulsed plane source (as a finite aperture and spanning the whole cross-section), every layer thickness
of {8, 12, 20} — through `fdtdx.run_fdtd`, judged by two oracles:

 (1) residual: EnergyDetector over the interior cells only; energy at the last step / its peak < 1e-6;
 (2) transparency: FieldDetector record over the interior (raw Yee samples, every step) against the record of the SAME
     source in a much larger domain (24 extra vacuum cells and a 16-cell layer on every side; one reference run per
     source configuration, shared by all thicknesses): sum_t (|dE|^2+|dH|^2) / sum_t (|E|^2+|H|^2) < 1e-4, evaluated over
     two recording regions: the whole interior, and (dipoles) the interior without the 3x3x3 cells around the source
     cell, whose singular near field otherwise dominates the denominator (measured: a 4x too weak layer changes the
     whole-interior figure to 2e-5 but the away-from-source figure to 3e-4).
"""
import math

ID = "C12"
LEVEL = "exploration"
MANIFEST = {
    "engine": "E4-scene-sweep",
    "technique": "bounded exhaustive sweep of a finite scene menu (dipole polarizations x positions x layer thicknesses; plane-pulse directions x extents) through run_fdtd against threshold oracles and a large-domain reference run",
    "text": "Every scene of the stated finite menu (16^3 interior, PML of 8/12/20 cells on all six faces, zero-net-charge Gaussian pulse; point dipoles of all three polarizations at the centre, next to each of the six faces, next to four edges and in three corners, >= 3 cells from the layers; pulsed plane sources in all six directions, as a finite aperture and spanning the full cross-section) is run through fdtdx.run_fdtd; the interior energy after the pulse has left must be < 1e-6 of its peak and the interior field record (whole interior, and for dipoles also the interior without the 3x3x3 cells around the source) must agree with the same source in a domain enlarged by 40 cells per side to < 1e-4 in relative energy.",
    "note": "Threshold property over a continuous scene family: model checking contributes only the exhaustive sweep of the menu, nothing is sampled. The reference domain ends in the same kind of layer (16 cells, 24 cells further out) rather than being light-cone isolated (that would need 188^3 cells); thorough adds a reference-convergence case (margin 24 vs 40). float64, T=300 steps, 20 cells per carrier wavelength.",
}
RULE = (
    "case = one source configuration (dipole: polarization x position [x orientation for the seed element]; plane: axis x direction x "
    "extent x polarization angle) with a list of layer thicknesses; elements = (source configuration, thickness), each one run_fdtd "
    "run of the layered domain, plus one reference run per case. An element is non-trivial when the interior energy peak is above "
    "1e-25 (two decades below the smallest peak measured on the unchanged tree, 1.6e-22 for a dipole), the peak lies inside the "
    "pulse (before step 200), and the pulse has left the reference interior (reference energy at the end < 1e-7 of its peak); "
    "distinct = distinct (source configuration, thickness)."
)
ASSUMPTIONS = [
    "finite menu: 16^3 interior, thicknesses {8,12,20}, 20 cells per carrier wavelength, Gaussian pulse with spectral width f0/3, 300 steps",
    "zero net charge is enforced by an odd-symmetric carrier (phase_shift = pi/2 - omega0*t0); the sampled pulse's net current is re-checked in numpy (< 1e-6 of its L1 norm)",
    "the reference domain is terminated by a 16-cell layer 24 cells further out (not light-cone isolated); its own residual is checked (< 1e-7) and thorough compares margin 24 against margin 40",
    "recording regions: the whole 16^3 interior and, for dipoles, the interior minus the 27 cells around the source cell",
    "float64 evaluation is representative of the float32 default",
    "default PML grading parameters",
]
THRESH_RESIDUAL = 1e-6
THRESH_RECORD = 1e-4
PEAK_FLOOR = 1e-25
REF_RESIDUAL = 1e-7
THICK = (8, 12, 20)

_FACE_POS = {"face-min_x": (3, 8, 8), "face-max_x": (12, 8, 8), "face-min_y": (8, 3, 8), "face-max_y": (8, 12, 8), "face-min_z": (8, 8, 3), "face-max_z": (8, 8, 12)}
_EDGE_POS = {"edge-min_x-min_y": (3, 3, 8), "edge-max_x-max_z": (12, 8, 12), "edge-min_y-max_z": (8, 3, 12), "edge-max_x-min_y": (12, 3, 8)}
_CORNER_POS = {"corner-min-min-min": (3, 3, 3), "corner-max-max-max": (12, 12, 12), "corner-max-min-max": (12, 3, 12)}
POSITIONS = dict([("centre", (8, 8, 8))] + list(_FACE_POS.items()) + list(_EDGE_POS.items()) + list(_CORNER_POS.items()))


def _dip(pol, posname, thick, pos=None, az=0.0, el=0.0):
    return dict(kind="dipole", pol=pol, posname=posname, pos=list(pos or POSITIONS[posname]), az=az, el=el, thick=list(thick))


def _pl(axis, d, extent, ang, thick):
    return dict(kind="plane", axis=axis, dir=d, extent=extent, ang=ang, thick=list(thick))


def _seed_elements(seed, thick):
    """One extra generic dipole (position and orientation) and one extra generic plane polarization angle per seed."""
    import random

    r = random.Random(1000003 * int(seed) + 12)
    pos = [r.randint(3, 12) for _ in range(3)]
    az, el = round(r.uniform(10.0, 80.0), 1), round(r.uniform(10.0, 80.0), 1)
    ang = round(r.uniform(5.0, 85.0), 1)
    ax = r.randrange(3)
    d = "+-"[r.randrange(2)]
    return [
        _dip(r.randrange(3), f"seed{seed}", thick, pos=pos, az=az, el=el),
        _pl(ax, d, "aperture", ang, thick),
    ]


def cases(tier, seed):
    out = []
    if tier == "quick":
        out += [
            _dip(2, "corner-min-min-min", [8]),
            _dip(0, "corner-max-max-max", [8]),
            _dip(1, "edge-max_x-min_y", [12]),
            _dip(1, "centre", [20]),
            _pl(0, "+", "aperture", 0.0, [8]),
            _pl(2, "-", "full", 90.0, [8]),
        ]
        out += _seed_elements(seed, [8])[:1]
        out.append(dict(_dip(2, "centre", [8]), kappa_end=4.0))  # kappa-graded (coordinate-stretched) layers
    else:
        for posname in POSITIONS:
            for pol in range(3):
                out.append(_dip(pol, posname, THICK))
        k = 0
        for ax in range(3):
            for d in "+-":
                for extent in ("aperture", "full"):
                    out.append(_pl(ax, d, extent, (0.0, 90.0, 45.0)[k % 3], THICK))
                    k += 1
        out += _seed_elements(seed, THICK)
        for pol in range(3):
            out.append(dict(_dip(pol, "centre", THICK), kappa_end=4.0))
            out.append(dict(_dip(pol, "corner-min-min-min", [8]), kappa_end=2.0))
        out.append(dict(kind="refcheck", base=_dip(2, "corner-min-min-min", []), margins=[24, 40], thick=[]))
    for c in out:
        c["seed"] = seed
    return out


def bounds(tier, seed):
    cs = cases(tier, seed)
    return {
        "interior": [16, 16, 16],
        "layer_thickness": sorted({t for c in cs for t in c["thick"]}),
        "dipole_cases": sum(c["kind"] == "dipole" for c in cs),
        "plane_cases": sum(c["kind"] == "plane" for c in cs),
        "elements(source configuration x thickness)": sum(len(c["thick"]) for c in cs),
        "dipole_positions": sorted({c["posname"] for c in cs if c["kind"] == "dipole"}),
        "dipole_polarizations": sorted({c["pol"] for c in cs if c["kind"] == "dipole"}),
        "plane_directions": sorted({c["dir"] + "xyz"[c["axis"]] for c in cs if c["kind"] == "plane"}),
        "plane_extents": sorted({c["extent"] for c in cs if c["kind"] == "plane"}),
        "reference": "interior + 24 vacuum cells + 16-cell layer per side (96^3), one per source configuration",
        "steps": 300,
        "cells_per_wavelength": 20,
        "thresholds": {"residual_energy": THRESH_RESIDUAL, "record_difference": THRESH_RECORD},
        "seed": seed,
        "tier_note": "quick is a covering subset (the two opposite corners = all six faces, an edge, the centre, both plane extents, every thickness once, one seed dipole); thorough is the full product positions x polarizations x thicknesses + all plane directions x extents x thicknesses" if tier == "quick" else "full product",
    }


def _run(spec):
    import jax
    import numpy as np

    import fdtdx
    from mc import scenes

    sc = scenes.build(spec)
    f = jax.jit(lambda a: fdtdx.run_fdtd(a, sc.objects, sc.config, jax.random.PRNGKey(0), show_progress=False))
    _, arr = f(sc.arrays)
    en = np.asarray(arr.detector_states["en"]["energy"], dtype=np.float64).reshape(-1)
    fld = np.asarray(arr.detector_states["fld"]["fields"], dtype=np.float64)
    min_pml = min(p.thickness for p in sc.objects.pml_objects)
    return en, fld, min_pml, len(sc.objects.pml_objects)


def _src_sig(case):
    if case["kind"] == "dipole":
        rot = "" if not (case.get("az") or case.get("el")) else ":rotated"
        return f"dipole:pol={'xyz'[case['pol']]}:{case['posname']}{rot}"
    return f"plane:{case['dir']}{'xyz'[case['axis']]}:{case['extent']}:ang={case['ang']:g}"


def _log(case, res):
    """Optional per-case detail log (one JSON line per case) for margin reports: set VERIF_DETAIL_LOG=<path>."""
    import json
    import os

    path = os.environ.get("VERIF_DETAIL_LOG")
    if path:
        with open(path, "a") as fh:
            fh.write(json.dumps(dict(case=case, ok=res["ok"], failures=[f["sig"] for f in res.get("failures", [])], detail=res.get("detail")), default=str) + "\n")
    return res


def run_case(case):
    import numpy as np

    from mc import guard
    from mc.oracles import pml_scenes as P

    guard.import_fdtdx()
    fails, detail = [], {}
    if case["kind"] == "refcheck":
        recs = {}
        for m in case["margins"]:
            en, fld, _, _ = _run(P.c12_spec(case["base"], P.REF_PML, m))
            recs[m] = (en, fld)
        a, b = case["margins"]
        d, den = P.rel_energy_difference(recs[a][1], recs[b][1])
        detail = dict(reference_margin_convergence=d, margins=[a, b], residual={str(m): float(recs[m][0][-1] / recs[m][0].max()) for m in recs})
        if not d < 1e-2 * THRESH_RECORD:
            fails.append(dict(sig="harness:reference-not-converged-in-margin", detail=detail))
        return _log(case, dict(ok=not fails, failures=fails, detail=detail, nontrivial=int(den > 0), evals=2, outcome="refcheck"))

    net = P.pulse12_net_current()
    detail["pulse_net_current_rel"] = net
    harness = []  # precondition failures of the scene itself; listed after the property's own failures
    if not net < 1e-6:
        harness.append(dict(sig="harness:pulse-has-net-charge", detail=dict(net=net)))
    # reference: same source, same coordinates relative to the interior origin, much larger domain
    en_r, fld_r, _, _ = _run(P.c12_spec(case, P.REF_PML, P.REF_MARGIN))
    peak_r = float(en_r.max())
    ref_res = float(en_r[-1]) / peak_r if peak_r > 0 else float("inf")
    detail["reference"] = dict(peak=peak_r, residual=ref_res, argmax=int(np.argmax(en_r)))
    left = ref_res < REF_RESIDUAL
    if not left:
        harness.append(dict(sig="harness:pulse-has-not-left-the-reference-interior", detail=detail["reference"]))
    src = _src_sig(case)
    nontriv, outcome = 0, {}
    detail["elements"] = []
    for th in case["thick"]:
        en, fld, min_pml, npml = _run(P.c12_spec(case, th, 0))
        assert min_pml == th and npml == 6 and th >= 8, (min_pml, npml, th)
        peak = float(en.max())
        res = float(en[-1]) / peak if peak > 0 else float("inf")
        diff, den = P.rel_energy_difference(fld, fld_r)
        el = dict(thickness=th, peak=peak, argmax=int(np.argmax(en)), residual=res, record_difference=diff)
        if case["kind"] == "dipole":
            el["record_difference_without_source_neighbourhood"] = P.rel_energy_difference_excluding(fld, fld_r, case["pos"])
        detail["elements"].append(el)
        if not np.all(np.isfinite(en)) or not np.all(np.isfinite(fld)):
            fails.append(dict(sig=f"non-finite-fields:{src}:thickness={th}", detail=el, sub=th))
            continue
        if not res < THRESH_RESIDUAL:
            fails.append(dict(sig=f"residual-energy>=1e-6:{src}:thickness={th}", detail=el, sub=th))
        if not diff < THRESH_RECORD:
            fails.append(dict(sig=f"record-differs-from-large-domain>=1e-4:{src}:thickness={th}", detail=el, sub=th))
        elif not el.get("record_difference_without_source_neighbourhood", 0.0) < THRESH_RECORD:
            fails.append(dict(sig=f"record-away-from-source-differs-from-large-domain>=1e-4:{src}:thickness={th}", detail=el, sub=th))
        nt = peak > PEAK_FLOOR and int(np.argmax(en)) < 200 and left and den > 0
        nontriv += int(nt)
        k = f"{case['kind']}:th={th}:residual~1e{int(math.floor(math.log10(max(res, 1e-300)))) if math.isfinite(res) else 'inf'}"
        outcome[k] = outcome.get(k, 0) + 1
    fails += harness
    detail["worst_residual"] = max(e["residual"] for e in detail["elements"])
    detail["worst_record_difference"] = max(e["record_difference"] for e in detail["elements"])
    return _log(case, dict(ok=not fails, failures=fails, detail=detail, nontrivial=nontriv, evals=1 + len(case["thick"]), outcome=outcome))
