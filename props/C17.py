"""C17 — phasor detectors compute the windowed discrete Fourier transform.

Engine E1 over the (time x component x cell) impulse basis: a phasor detector's final state is linear in the field
history of the run, so the real accumulation (update_detector_states called for every time step of a short run) is
tabulated on every impulse history (one basis state of (E,H_prev,H) at one time step, zero otherwise), on the zero
history and on dense histories, and compared with  scale * sum_{t recorded} w(t) f(t) exp(i omega t)  computed in numpy
for frequencies, component subsets, apodization windows, DFT strides, switches, scaling modes, inverse and reduced
detectors. The phasor Poynting detectors (plane and closed surface) are quadratic in the history and are evaluated
on all impulse singles and pairs against Re(E x H*) of the reference phasors (x 1/2 in continuous mode).
"""
import itertools

import numpy as np

ID = "C17"
LEVEL = "model_checking"
MANIFEST = {
    "engine": "E1-linsys over (time x component x cell) impulses",
    "technique": "explicit-state model checking: exhaustive tabulation of the real phasor accumulation (update_detector_states over every step of a short run) on all (time, component, cell) impulse histories, comparison with a numpy windowed DFT; phasor Poynting detectors on all impulse singles and pairs",
    "text": "For a menu of phasor detectors (1-2 frequencies, component subsets, windows None/Gaussian/Tukey alpha 0,1/2,1, dft_subsample 1,2,3,auto, switch menu, continuous/pulse scaling, inverse, reduced, raw/exact interpolation, uniform/non-uniform grid) on a 2x2x2 domain and T=8 steps, the final detector state is tabulated on every impulse history and must equal scale*sum w(t) f(t) e^{i omega t} with scale 2/sum(w) (continuous) or the stride (pulse); windows that leave no positive weight must be rejected at placement. PhasorPoyntingFlux / ClosedSurfacePhasorPoyntingFlux results are compared on all impulse singles and pairs with the area-weighted Re(E x H*) of the reference phasors.",
    "note": "Tolerance 1e-9 relative; 2e-6 for detectors with an apodization window because fdtdx stores the window weights in float32. Linearity in the history makes the impulse table complete for every field history (also checked on dense histories). Frequencies, window parameters and grid values come from finite alphabets.",
}
RULE = (
    "case = (kind, grid, exact flag, chunk of detector option sets); every detector option set is one element, tabulated on all "
    "T*9N impulse histories (+ zero + dense histories). An element is non-trivial when at least two steps are recorded with different "
    "weights or phases and the table is non-zero. Flux cases: all singles and pairs of the impulses supported on the detector."
)
ASSUMPTIONS = [
    "float64/complex128 evaluation is representative of the complex64 default",
    "frequencies, window parameters, switches and grid-edge values come from finite alphabets",
    "eager (disable_jit) jax.vmap over histories evaluates the same Python code as the jitted driver (checked by conformance replays through custom_fdtd_forward)",
]
TOL = 1e-9
TOL_WINDOWED = 2e-6  # fdtdx stores the apodization weights in float32 (hard-wired), see PhasorDetector.place_on_grid
ALL = ("Ex", "Ey", "Ez", "Hx", "Hy", "Hz")
SHAPE = (2, 2, 2)
T = 8
C0 = 299792458.0
DT = 9.531017980432493e-17  # unit in which window / switch parameters are written (about the time step of the 50 nm grid)

WAVES = [[4.1e-7], [1.5e-6, 5.3e-7]]
COMPS = [ALL, ("Ez",), ("Ey", "Hx", "Hz"), ("Ex", "Ey", "Ez")]
WINDOWS = [
    None,
    {"kind": "gauss", "center_time": 3.3, "sigma_time": 2.0},
    {"kind": "tukey", "start_time": 0.5, "end_time": 6.6, "alpha": 0.5},
    {"kind": "tukey", "start_time": 0.9, "end_time": 6.1, "alpha": 0.0},
    {"kind": "tukey", "start_time": 0.0, "end_time": 7.0, "alpha": 1.0},
    {"kind": "tukey", "start_time": 2.2, "end_time": 4.4, "alpha": 0.5},
]
STRIDES = [1, 2, 3, "auto"]
SWITCHES = [{}, {"start_time": 1.5, "end_time": 6.5}, {"interval": 2}, {"fixed_on_time_steps": [1, 4, 5]}, {"end_time": 3.4}]
SCALINGS = ["continuous", "pulse"]


def _times(w):
    """window / switch parameters are given in units of dt"""
    if w is None:
        return None
    return {k: (v * DT if k in ("center_time", "sigma_time", "start_time", "end_time", "on_for_time", "period") else v) for k, v in w.items()}


def _options(tier):
    out = []
    seen = set()

    def add(**kw):
        o = dict(waves=0, comps=0, window=0, stride=0, switch=0, scaling=0, inverse=False, reduce=False)
        o.update(kw)
        key = tuple(sorted(o.items()))
        if key not in seen:
            seen.add(key)
            out.append(o)

    add()
    if tier == "quick":
        k = 0
        for wi, si, swi, sc in itertools.product(range(len(WINDOWS)), range(len(STRIDES)), range(len(SWITCHES)), range(2)):
            k += 1
            add(window=wi, stride=si, switch=swi, scaling=sc, waves=k % 2, comps=k % 4, inverse=(k % 3 == 0), reduce=(k % 5 == 0))
        for wv, cp, inv, red in itertools.product(range(2), range(4), (False, True), (False, True)):
            add(waves=wv, comps=cp, inverse=inv, reduce=red)
            add(waves=wv, comps=cp, inverse=inv, reduce=red, window=1, stride=1, switch=1, scaling=1)
    else:
        for wi, si, swi, sc, wv, cp, inv, red in itertools.product(range(len(WINDOWS)), range(len(STRIDES)), range(len(SWITCHES)), range(2), range(2), range(4), (False, True), (False, True)):
            add(window=wi, stride=si, switch=swi, scaling=sc, waves=wv, comps=cp, inverse=inv, reduce=red)
    return out


FLUX_BOXES = [("closed", [[0, 2], [0, 1], [0, 1]]), ("plane", [[0, 1], [0, 2], [0, 2]]), ("closed", [[0, 2], [0, 2], [0, 1]]), ("plane", [[0, 2], [1, 2], [0, 2]]), ("closed", [[0, 2], [0, 2], [0, 2]])]


def _flux_options(tier):
    out = []
    for kind, box in FLUX_BOXES if tier == "thorough" else FLUX_BOXES[:4]:
        for wi in range(len(WINDOWS)) if tier == "thorough" else (0, 1, 2, 4):
            for sc in range(2):
                for var in range(2):
                    o = dict(kind=kind, box=box, window=wi, scaling=sc, waves=(wi + var) % 2, stride=(0, 1)[(wi + sc) % 2] if wi else 0, switch=(0, 1)[var] if wi in (0, 1) else 0)
                    if kind == "plane":
                        o.update(direction="+-"[var], keep_all=bool((wi + sc) % 2))
                    else:
                        o.update(orientation=("outward", "inward")[var], axes=None if sc == 0 else [0, 1, 2])
                    out.append(o)
    return out


def cases(tier, seed):
    out = []
    opts = _options(tier)
    chunk = 40
    grids = ["uniform", "rect_distinct"] + (["rect_seed"] if seed else [])
    # simplest first: the flux detectors with the smallest boxes, then the DFT menu
    fl = _flux_options(tier)
    for c0 in range(0, len(fl), 4):
        out.append(dict(part="flux", grid="uniform" if (c0 // 4) % 3 else "rect_distinct", opts=fl[c0 : c0 + 4], T=3, seed=seed))
    for g in grids:
        for exact in (False, True):
            if g != "uniform" and exact and tier == "quick":
                sub = opts[:: max(1, len(opts) // 40)]
            else:
                sub = opts
            for c0 in range(0, len(sub), chunk):
                out.append(dict(part="dft", grid=g, exact=exact, opts=sub[c0 : c0 + chunk], conf=(c0 == 0), seed=seed))
    return out


def bounds(tier, seed):
    return {
        "domain": SHAPE,
        "T": T,
        "dt": DT,
        "wavelengths": WAVES,
        "components": COMPS,
        "windows(dt units)": WINDOWS,
        "dft_subsample": STRIDES,
        "switches(dt units)": SWITCHES,
        "scaling": SCALINGS,
        "inverse/reduce": [False, True],
        "detector_option_sets": len(_options(tier)),
        "flux_option_sets": len(_flux_options(tier)),
        "product": "thorough: full product; quick: full window x stride x switch x scaling product with the other options rotating, plus the full frequency x components x inverse x reduce product at two window/stride/switch settings",
        "impulses": T * 9 * int(np.prod(SHAPE)),
        "tolerance": TOL,
        "seed": seed,
    }


# ------------------------------------------------------------------------------------------------ reference model
def _recorded(o, dt, n_steps):
    from mc.oracles import detectors as O

    sw = _times(SWITCHES[o["switch"]])
    on, amb = O.switch_oracle(dict(sw), n_steps, dt)
    if any(amb):
        raise RuntimeError("harness: ambiguous switch in the C17 menu")
    st = STRIDES[o["stride"]]
    waves = WAVES[o["waves"]]
    if st == "auto":
        fmax = max(C0 / w for w in waves)
        st = max(1, int(np.floor(1.0 / (12 * fmax * dt))))
    return O.thin(on, st), st


def _coefs(o, dt, n_steps):
    """(F, T) complex coefficients of the reference DFT, or None if the specification must be rejected."""
    from mc.oracles import detectors as O

    rec, st = _recorded(o, dt, n_steps)
    times = np.arange(n_steps) * dt
    w = O.window_values(_times(WINDOWS[o["window"]]), times) * np.asarray(rec, dtype=np.float64)
    if not w.sum() > 0:
        return None, rec, st
    scale = 2.0 / w.sum() if SCALINGS[o["scaling"]] == "continuous" else float(st)
    om = 2 * np.pi * np.array([C0 / lam for lam in WAVES[o["waves"]]])
    coef = scale * w[None, :] * np.exp(1j * om[:, None] * times[None, :])
    if o.get("inverse"):
        coef = -coef
    return coef, rec, st


def _fields_of(hist, shape, exact, info):
    """hist (B,T,9N) -> E,H (B,T,3,nx,ny,nz) as the detector sees them."""
    from mc.oracles import det_scenes as DS
    from mc.oracles import detectors as O

    B, Tn, n = hist.shape
    E, Hp, H = DS.unpack_np(hist.reshape(B * Tn, n), shape)
    if exact:
        E, H = O.colocate(E, Hp, H, info["halos"], info["phases"], info["widths"], info["uniform"])
    return E.reshape(B, Tn, 3, *shape), H.reshape(B, Tn, 3, *shape)


def _build(case, n_steps, extra=None):
    from mc.oracles import det_scenes as DS

    spec, info = DS.halo_spec(SHAPE, ("none", "none", "none"), case["grid"], case["seed"], steps=n_steps)
    if extra:
        spec.update(extra)
    sc = DS.build(spec)
    return sc, info, spec


def _dt_of(sc):
    return float(sc.config.time_step_duration)


def _make_phasor(fdtdx, jnp, name, o, exact, cls=None, **extra):
    from mc import scenes

    kw = dict(
        name=name,
        dtype=jnp.complex128,
        wave_characters=tuple(fdtdx.WaveCharacter(wavelength=w) for w in WAVES[o["waves"]]),
        exact_interpolation=exact,
        scaling_mode=SCALINGS[o["scaling"]],
        dft_subsample=STRIDES[o["stride"]],
        apodization=scenes._window(_times(WINDOWS[o["window"]])),
        switch=fdtdx.OnOffSwitch(**_times(SWITCHES[o["switch"]])),
    )
    kw.update(extra)
    return (cls or fdtdx.PhasorDetector)(**kw)


def _history_fn(arrays0, objs, config, shape, n_steps, pick):
    from mc.oracles import det_scenes as DS

    import jax.numpy as jnp
    from fdtdx.fdtd.update import update_detector_states

    _, unpack = DS.field_codec(shape)
    fdt = arrays0.fields.E.dtype

    def g(hist):
        a = arrays0
        for t in range(n_steps):
            E, Hp, H = unpack(hist[t])
            a = a.aset("fields->E", E.astype(fdt)).aset("fields->H", H.astype(fdt))
            a = update_detector_states(jnp.asarray(t, dtype=jnp.int32), a, objs, config, Hp.astype(fdt), False)
        for t in reversed(range(n_steps)):  # inverse-time detectors are driven by the backward pass
            E, Hp, H = unpack(hist[t])
            a = a.aset("fields->E", E.astype(fdt)).aset("fields->H", H.astype(fdt))
            a = update_detector_states(jnp.asarray(t, dtype=jnp.int32), a, objs, config, Hp.astype(fdt), True)
        return pick(a.detector_states)

    return g


def _impulse_histories(n_steps, n, seed, dense=2):
    rows = [np.zeros((n_steps, n))]
    for t in range(n_steps):
        for k in range(n):
            h = np.zeros((n_steps, n))
            h[t, k] = 1.0
            rows.append(h)
    rng = np.random.default_rng(5 + seed)
    for d in range(dense):
        rows.append(rng.uniform(-1, 1, size=(n_steps, n)) if d else (np.mod(0.173 + np.arange(n_steps * n) * 0.6180339887498949, 1.0) - 0.5).reshape(n_steps, n))
    return np.array(rows)


def _sig_of(o):
    w = WINDOWS[o["window"]]
    st = STRIDES[o["stride"]]
    return f"window={'none' if w is None else w['kind']}:stride={'1' if st == 1 else ('auto' if st == 'auto' else '>1')}:{SCALINGS[o['scaling']]}:{'inverse' if o.get('inverse') else 'forward'}:{'reduced' if o.get('reduce') else 'spatial'}"


# ------------------------------------------------------------------------------------------------ DFT part
def _run_dft(case):
    from mc import guard
    from mc.oracles import det_scenes as DS
    from mc.oracles import detectors as O

    fdtdx = guard.import_fdtdx()
    import jax
    import jax.numpy as jnp

    sc, info, spec = _build(case, T)
    dt = _dt_of(sc)
    exact = bool(case["exact"])
    box = tuple((0, s) for s in SHAPE)
    fails = {}

    def fail(sig, detail):
        fails.setdefault(sig, dict(sig=sig, detail=detail))

    dets = []
    meta = []
    outcomes = {}
    for i, o in enumerate(case["opts"]):
        coef, rec, st = _coefs(o, dt, T)
        d = _make_phasor(fdtdx, jnp, f"p{i}", o, exact, components=COMPS[o["comps"]], reduce_volume=bool(o.get("reduce")), inverse=bool(o.get("inverse")))
        try:
            pd = DS.place(d, box, sc.config)
            raised = None
        except Exception as e:
            pd, raised = None, e
        if coef is None:
            outcomes["rejected-at-placement"] = outcomes.get("rejected-at-placement", 0) + 1
            if raised is None:
                fail("window-without-positive-weight-accepted", dict(opts=o, recorded=rec))
            continue
        if raised is not None:
            fail(f"valid-detector-rejected:{type(raised).__name__}:{_sig_of(o)}", dict(opts=o, error=repr(raised)[:300]))
            continue
        got_on = [bool(v) for v in np.asarray(pd._is_on_at_time_step_arr)]
        if got_on != rec:
            fail(f"recorded-steps:{'stride' if STRIDES[o['stride']] != 1 else 'switch'}", dict(opts=o, got=got_on, expected=rec))
        dets.append(pd)
        meta.append((o, pd, coef, rec))
    objs, arrays = DS.with_detectors(sc, dets)
    n, _ = DS.field_codec(SHAPE)
    Hs = _impulse_histories(T, n, case["seed"])
    g = _history_fn(arrays, objs, sc.config, SHAPE, T, pick=lambda st: {k: v["phasor"][0] for k, v in st.items()})
    with jax.disable_jit():
        out = jax.vmap(g)(jnp.asarray(Hs))
    out = {k: np.asarray(v) for k, v in out.items()}
    Ef, Hf = _fields_of(Hs, SHAPE, exact, info)
    vol = O.cell_volumes(info["widths"], box)
    wn = vol / vol.sum()
    nontriv = 0
    worst = 0.0
    for o, pd, coef, rec in meta:
        sel = O.select(Ef, Hf, COMPS[o["comps"]])  # (B,T,k,x,y,z)
        exp = np.einsum("ft,btkxyz->bfkxyz", coef, sel)
        if o.get("reduce"):
            exp = np.einsum("bfkxyz,xyz->bfk", exp, wn)
        got = out[pd.name]
        if got.shape != exp.shape:
            fail(f"phasor-shape:{_sig_of(o)}", dict(opts=o, got=list(got.shape), expected=list(exp.shape)))
            continue
        scale = max(1e-300, float(np.max(np.abs(exp))))
        r = float(np.max(np.abs(got - exp))) / scale
        worst = max(worst, r)
        if np.max(np.abs(got[0])) != 0:
            fail("phasor-of-zero-history-nonzero", dict(opts=o))
        if r > (TOL if WINDOWS[o["window"]] is None else TOL_WINDOWED):
            b = int(np.argmax(np.max(np.abs(got - exp).reshape(got.shape[0], -1), axis=1)))
            step = (b - 1) // n if 1 <= b <= T * n else None
            fail(f"phasor!=windowed-dft:{_sig_of(o)}", dict(opts=o, rel=r, worst_history=b, impulse_step=step, recorded=rec, exact=exact, grid=case["grid"]))
        if sum(rec) >= 2 and len({complex(np.round(c, 12)) for c in coef[0][np.asarray(rec)]}) >= 2:
            nontriv += 1
        outcomes[f"window={'none' if WINDOWS[o['window']] is None else WINDOWS[o['window']]['kind']}"] = outcomes.get(f"window={'none' if WINDOWS[o['window']] is None else WINDOWS[o['window']]['kind']}", 0) + 1
    traces = 0
    if case.get("conf") and not fails:
        tr, tf = _conf(case, meta[:6], out, info, exact)
        traces += tr
        for f_ in tf:
            fails.setdefault(f_["sig"], f_)
    return dict(
        ok=not fails,
        failures=list(fails.values()),
        detail=dict(worst_rel=worst, detectors=len(dets), histories=int(Hs.shape[0])),
        nontrivial=nontriv,
        evals=len(dets) * Hs.shape[0] * T,
        states=int(Hs.shape[0]),
        transitions=len(dets) * Hs.shape[0] * T,
        traces=traces,
        outcome=outcomes,
    )


def _conf(case, meta, table, info, exact):
    """Real run through the jitted driver with a source, a FieldDetector over the whole domain and the phasor detectors:
    (i) phasor state == reference DFT of the FieldDetector history of the same run; (ii) == the impulse table applied to
    that history (raw detectors: the table only reads E_t, H_t)."""
    from mc import linsys
    from mc.oracles import det_scenes as DS
    from mc.oracles import detectors as O

    import jax
    import jax.numpy as jnp
    from fdtdx.fdtd.fdtd import custom_fdtd_forward

    box = [[0, s] for s in SHAPE]
    dets = [dict(kind="field", name="hist", box=box, exact_interpolation=exact)]
    keep = []
    for i, (o, pd, coef, rec) in enumerate(meta):
        if o.get("inverse"):
            continue
        keep.append((i, o, pd, coef))
        dets.append(
            dict(
                kind="phasor",
                name=f"q{i}",
                box=box,
                exact_interpolation=exact,
                wave_characters=[{"wavelength": w} for w in WAVES[o["waves"]]],
                components=list(COMPS[o["comps"]]),
                reduce_volume=bool(o.get("reduce")),
                scaling_mode=SCALINGS[o["scaling"]],
                dft_subsample=STRIDES[o["stride"]],
                apodization=_times(WINDOWS[o["window"]]),
                switch=_times(SWITCHES[o["switch"]]) or None,
            )
        )
    sc, info2, _ = _build(case, T, extra=dict(detectors=dets, sources=[dict(kind="dipole", box=[[1, 2], [0, 1], [1, 2]], polarization=2, wave={"wavelength": 4.3e-7})]))
    codec = linsys.Codec(sc.arrays)
    s0 = linsys.dense_state(codec.n, "distinct", case["seed"]) * 1e-3
    a0 = codec.unpack(sc.arrays, jnp.asarray(s0, dtype=codec.dtype))
    _, aT = custom_fdtd_forward(a0, sc.objects, sc.config, jax.random.PRNGKey(0), reset_container=False, record_detectors=True, start_time=0, end_time=T, show_progress=False)
    hist = np.asarray(aT.detector_states["hist"]["fields"])  # (T, 6, x,y,z)
    vol = O.cell_volumes(info["widths"], box)
    wn = vol / vol.sum()
    fails = []
    n = 9 * int(np.prod(SHAPE))
    N = int(np.prod(SHAPE))
    for i, o, pd, coef in keep:
        idx = [ALL.index(c) for c in COMPS[o["comps"]]]
        exp = np.einsum("ft,tkxyz->fkxyz", coef, hist[:, idx])
        if o.get("reduce"):
            exp = np.einsum("fkxyz,xyz->fk", exp, wn)
        got = np.asarray(aT.detector_states[f"q{i}"]["phasor"][0])
        r = float(np.max(np.abs(got - exp))) / max(1e-300, float(np.max(np.abs(exp))))
        if r > (TOL if WINDOWS[o["window"]] is None else TOL_WINDOWED):
            fails.append(dict(sig="conformance:driver-phasor!=dft-of-field-detector-history", detail=dict(opts=o, rel=r)))
        if not exact:
            # impulse table applied to the recorded history (E block rows 0..3N, H block rows 6N..9N)
            tab = table[pd.name]  # (1+T*n+dense, ...)
            acc = np.zeros_like(tab[0])
            for t in range(T):
                base = 1 + t * n
                v = np.zeros(n)
                v[: 3 * N] = hist[t, :3].ravel()
                v[6 * N :] = hist[t, 3:].ravel()
                acc = acc + np.tensordot(v, tab[base : base + n], axes=(0, 0))
            r2 = float(np.max(np.abs(got - acc))) / max(1e-300, float(np.max(np.abs(acc))))
            if r2 > TOL:
                fails.append(dict(sig="conformance:table-vs-driver-diverge", detail=dict(opts=o, rel=r2)))
    return 1, fails[:3]


# ------------------------------------------------------------------------------------------------ flux part
def _run_flux(case):
    from mc import guard
    from mc.oracles import det_scenes as DS
    from mc.oracles import detectors as O

    fdtdx = guard.import_fdtdx()
    import jax
    import jax.numpy as jnp

    Tn = case["T"]
    sc, info, spec = _build(case, Tn)
    dt = _dt_of(sc)
    fails = {}

    def fail(sig, detail):
        fails.setdefault(sig, dict(sig=sig, detail=detail))

    n, _ = DS.field_codec(SHAPE)
    N = int(np.prod(SHAPE))
    nontriv = 0
    worst = 0.0
    evals = 0
    states = 0
    outcomes = {}
    for o in case["opts"]:
        o = dict(o)
        # shorter run: express the window / switch on the Tn-step run by scaling the dt-unit parameters
        coef, rec, st = _coefs_flux(o, dt, Tn)
        box = tuple(tuple(p) for p in o["box"])
        wname = "none" if WINDOWS[o["window"]] is None else WINDOWS[o["window"]]["kind"]
        common = dict(o, comps=0, inverse=False, reduce=False)
        try:
            if o["kind"] == "plane":
                d = _make_phasor_flux(fdtdx, jnp, "pf", common, Tn, cls=fdtdx.PhasorPoyntingFluxDetector, direction=o["direction"], keep_all_components=o["keep_all"])
            else:
                d = _make_phasor_flux(fdtdx, jnp, "pf", common, Tn, cls=fdtdx.ClosedSurfacePhasorPoyntingFluxDetector, orientation=o["orientation"], axes=None if o["axes"] is None else tuple(o["axes"]))
            pd = DS.place(d, box, sc.config)
            raised = None
        except Exception as e:
            pd, raised = None, e
        if coef is None:
            if raised is None:
                fail("window-without-positive-weight-accepted", dict(opts=o))
            continue
        if raised is not None:
            opt = "keep_all_components" if o.get("keep_all") else "plain"
            fail(f"placement-raises:{'PhasorPoyntingFluxDetector' if o['kind'] == 'plane' else 'ClosedSurfacePhasorPoyntingFluxDetector'}:{opt}:{type(raised).__name__}", dict(opts=o, error=repr(raised)[:300]))
            continue
        objs, arrays = DS.with_detectors(sc, [pd])
        # impulses supported on the box (raw detector): E and H blocks
        grid = np.arange(N).reshape(SHAPE)
        cells = grid[box[0][0] : box[0][1], box[1][0] : box[1][1], box[2][0] : box[2][1]].ravel()
        sup = [blk * 3 * N + c * N + int(k) for blk in (0, 2) for c in range(3) for k in cells]
        imp = [(t, k) for t in range(Tn) for k in sup]
        rows = [np.zeros((Tn, n))]
        for t, k in imp:
            h = np.zeros((Tn, n))
            h[t, k] = 1.0
            rows.append(h)
        for a, (t1, k1) in enumerate(imp):
            for t2, k2 in imp[a + 1 :]:
                h = np.zeros((Tn, n))
                h[t1, k1] += 1.0
                h[t2, k2] += 1.0
                rows.append(h)
        rng = np.random.default_rng(3 + case["seed"])
        rows.append(rng.uniform(-1, 1, size=(Tn, n)))
        Hs = np.array(rows)
        g = _history_fn(arrays, objs, sc.config, SHAPE, Tn, pick=lambda st: st["pf"])
        with jax.disable_jit():
            st_out = jax.vmap(g)(jnp.asarray(Hs))
            if o["kind"] == "plane":
                got = np.asarray(jax.vmap(lambda s: pd.compute_poynting_flux(s))(st_out))
            else:
                got = np.asarray(jax.vmap(lambda s: pd.compute_net_flux(s))(st_out))
        evals += Hs.shape[0] * Tn
        states += Hs.shape[0]
        # reference
        Ef, Hf = _fields_of(Hs, SHAPE, False, info)
        Eph = np.einsum("ft,btcxyz->bfcxyz", coef, Ef)
        Hph = np.einsum("ft,btcxyz->bfcxyz", coef, Hf)
        S = np.real(np.cross(Eph, np.conj(Hph), axis=2))  # (B,F,3,x,y,z)
        half = 0.5 if SCALINGS[o["scaling"]] == "continuous" else 1.0
        sl = (slice(None), slice(None), slice(None), slice(*box[0]), slice(*box[1]), slice(*box[2]))
        Sb = S[sl]
        if o["kind"] == "plane":
            thin_axes = [a for a in range(3) if box[a][1] - box[a][0] == 1]
            ax = thin_axes[0]
            sign = -1.0 if o["direction"] == "-" else 1.0
            if o["keep_all"]:
                areas = np.stack([O.face_areas(info["widths"], box, i) for i in range(3)])
                exp = sign * half * np.einsum("bfixyz,ixyz->bfi", Sb, areas)
            else:
                exp = sign * half * np.einsum("bfxyz,xyz->bf", Sb[:, :, ax], O.face_areas(info["widths"], box, ax))
        else:
            axes = [a for a in range(3) if box[a][1] - box[a][0] > 1] if o["axes"] is None else list(o["axes"])
            exp = np.zeros(Sb.shape[:2])
            for a in axes:
                area = O.face_areas(info["widths"], box, a)
                hi = np.take(Sb[:, :, a] * area, -1, axis=2 + a).sum(axis=(2, 3))
                lo = np.take(Sb[:, :, a] * area, 0, axis=2 + a).sum(axis=(2, 3))
                exp = exp + hi - lo
            exp = half * exp * (-1.0 if o["orientation"] == "inward" else 1.0)
        cls = f"{o['kind']}:window={wname}:{SCALINGS[o['scaling']]}"
        if got.shape != exp.shape:
            fail(f"phasor-poynting:shape:{cls}", dict(opts=o, got=list(got.shape), expected=list(exp.shape)))
            continue
        scale = max(1e-300, float(np.max(np.abs(exp))))
        r = float(np.max(np.abs(got - exp))) / scale
        worst = max(worst, r)
        if r > (TOL if WINDOWS[o["window"]] is None else TOL_WINDOWED):
            b = int(np.argmax(np.max(np.abs(got - exp).reshape(got.shape[0], -1), axis=1)))
            fail(f"phasor-poynting:flux!=Re(ExH*)-of-windowed-dft:{cls}", dict(opts=o, rel=r, worst_history=b, histories=int(Hs.shape[0]), recorded=rec, steps=Tn, grid=case["grid"]))
        if scale > 1e-300 and sum(rec) >= 2:
            nontriv += 1
        outcomes[cls] = outcomes.get(cls, 0) + 1
    return dict(
        ok=not fails,
        failures=list(fails.values()),
        detail=dict(worst_rel=worst),
        nontrivial=nontriv,
        evals=evals,
        states=states,
        transitions=evals,
        traces=0,
        outcome=outcomes,
    )


def _flux_times(w, Tn):
    """the dt-unit menus are written for T=8; compress them onto a Tn-step run"""
    if w is None:
        return None
    f = (Tn - 1) / (T - 1)
    return {k: (v * f * 1.0 if k in ("center_time", "sigma_time", "start_time", "end_time") else v) for k, v in w.items()}


def _coefs_flux(o, dt, Tn):
    from mc.oracles import detectors as O

    sw = _times(_flux_times(dict(SWITCHES[o["switch"]]), Tn))
    on, amb = O.switch_oracle(dict(sw), Tn, dt)
    if any(amb):
        raise RuntimeError("harness: ambiguous switch in the C17 flux menu")
    st = STRIDES[o["stride"]]
    rec = O.thin(on, st)
    times = np.arange(Tn) * dt
    w = O.window_values(_times(_flux_times(WINDOWS[o["window"]], Tn)), times) * np.asarray(rec, dtype=np.float64)
    if not w.sum() > 0:
        return None, rec, st
    scale = 2.0 / w.sum() if SCALINGS[o["scaling"]] == "continuous" else float(st)
    om = 2 * np.pi * np.array([C0 / lam for lam in WAVES[o["waves"]]])
    return scale * w[None, :] * np.exp(1j * om[:, None] * times[None, :]), rec, st


def _make_phasor_flux(fdtdx, jnp, name, o, Tn, cls, **extra):
    from mc import scenes

    kw = dict(
        name=name,
        dtype=jnp.complex128,
        wave_characters=tuple(fdtdx.WaveCharacter(wavelength=w) for w in WAVES[o["waves"]]),
        exact_interpolation=False,
        scaling_mode=SCALINGS[o["scaling"]],
        dft_subsample=STRIDES[o["stride"]],
        apodization=scenes._window(_times(_flux_times(WINDOWS[o["window"]], Tn))),
        switch=fdtdx.OnOffSwitch(**_times(_flux_times(dict(SWITCHES[o["switch"]]), Tn))),
    )
    kw.update(extra)
    return cls(**kw)


def run_case(case):
    if case["part"] == "dft":
        return _run_dft(case)
    return _run_flux(case)
