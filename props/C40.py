"""C40 — functional updates (TreeClass.aset) never mutate their input.

Explicit-state search over update sequences of length <= 2 on real objects:

  state       a real object reached from a template by aset calls, identified by the digest of its deep snapshot
  transition  one real `obj.aset(path, value)` call
  invariant   after every transition (i) every object that existed before (the template, the intermediate object, the
              value that was passed in) has the *same deep snapshot as before*, (ii) the returned object has the type of
              the receiver, (iii) its snapshot equals the reference model: the receiver's snapshot with exactly the
              addressed path replaced (pure-python functional update on the snapshot tree).

Templates are nested TreeClass / list / dict / tuple structures of depth <= 4 with *shared sub-objects* (the same
TreeClass instance referenced from several places, in frozen and non-frozen fields), plus real fdtdx configuration
objects (SimulationConfig with gradient config / recorder module list, a source with wave character / switch / profile,
a dispersive Material, an ObjectContainer). *Every* path of a template is a first update; *every* path of every
resulting object is a second update.
"""
import hashlib

import numpy as np

ID = "C40"
LEVEL = "model_checking"
MANIFEST = {
    "engine": "E3-bfs",
    "technique": "explicit-state search over all aset update sequences of length <=2 (every path of every nested template x value menu) with deep snapshots of all pre-existing objects and a pure-python functional-update reference model",
    "text": "For every template, every addressable path (attributes, list indices incl. negative, dictionary keys, tuple indices, new attributes/keys) and every value of the menu, the real aset is applied; on every resulting object every path is updated again. After each call the deep snapshots of the template, of the intermediate object and of the passed value must be unchanged, and the result must equal the snapshot model with only the addressed path replaced and have the receiver's type.",
    "note": "states = distinct object snapshots reached, transitions = real aset calls, traces = length-2 sequences whose final object was compared with the reference model. Second-step value menu: quick {scalar}, thorough {scalar, alias}.",
}
RULE = (
    "case = (template, shard): the worker enumerates all paths of the template (depth-first, deterministic), takes the paths of its "
    "shard as first updates with every value of the menu, and applies every path of every result as second update. A sequence is "
    "non-trivial when the second path shares a prefix object with the first one or goes through a shared sub-object "
    "(copy-on-write has to separate them); distinct = distinct (template, path1, value1, path2, value2)."
)
ASSUMPTIONS = [
    "an object's state is its instance __dict__ read through getattr (frozen fields unwrapped), recursively through TreeClass/list/tuple/dict (dictionaries compared without order, like ==), arrays by bytes",
    "documented rejections (tuple index assignment, missing attribute without create_new_ok, malformed path) are exceptions; the input must be unchanged after them as well",
]
NSHARDS = 16
TEMPLATES = ["nested", "shared", "config", "source", "material", "container"]
VALUES1 = ["scalar", "none", "list", "same", "alias", "tree"]


def cases(tier, seed):
    out = []
    for t in TEMPLATES:
        for s in range(NSHARDS):
            out.append(dict(template=t, shard=s, nshards=NSHARDS, values2=["scalar"] if tier == "quick" else ["scalar", "alias"], ops2=3 if tier == "quick" else 4, seed=seed))
    return out


def bounds(tier, seed):
    return {
        "templates": TEMPLATES,
        "paths": "every attribute / list index (and -1) / dict key / tuple index reachable within 4 operations, plus one new attribute and one new dict key with create_new_ok, plus malformed and missing paths",
        "values_first_update": VALUES1,
        "values_second_update": ["scalar"] if tier == "quick" else ["scalar", "alias"],
        "second_update_paths": "every path of the intermediate object within %d operations" % (3 if tier == "quick" else 4),
        "sequence_length": 2,
        "seed": seed,
    }


# ---------------------------------------------------------------------------------------------- templates
_CLS = {}


def _classes():
    if _CLS:
        return _CLS
    from mc import guard

    guard.import_fdtdx()
    import jax
    from fdtdx.core.jax.pytrees import TreeClass, autoinit, field, frozen_field

    @autoinit
    class Leaf(TreeClass):
        x: float = frozen_field(default=1.0)
        arr: jax.Array = field(default=None)
        tag: str = frozen_field(default="t")

    @autoinit
    class Mid(TreeClass):
        leaf: Leaf = field()
        items: list = field()
        table: dict = field()
        tup: tuple = frozen_field(default=(1, 2))
        fl: list = frozen_field(default=None)

    @autoinit
    class Top(TreeClass):
        mid: Mid = field()
        other: Mid = field()
        name: str = frozen_field(default="top")
        lst: list = field(default=None)
        fd: dict = frozen_field(default=None)

    _CLS.update(Leaf=Leaf, Mid=Mid, Top=Top, TreeClass=TreeClass)
    return _CLS


def build(name, seed):
    """returns (root, alias_object): alias_object is a sub-object that already lives somewhere in the tree."""
    c = _classes()
    import fdtdx
    import jax.numpy as jnp

    Leaf, Mid, Top = c["Leaf"], c["Mid"], c["Top"]
    if name == "nested":
        a, b, d = Leaf(x=1.0, arr=jnp.arange(3.0)), Leaf(x=2.0, arr=jnp.ones((2, 2))), Leaf(x=3.0, tag="d")
        m1 = Mid(leaf=a, items=[b, 5, {"k": d, "n": [1, 2]}], table={"a": Leaf(x=4.0), "b": [1, 2, Leaf(x=5.0)]}, tup=(Leaf(x=6.0), 2), fl=[Leaf(x=7.0), 8])
        m2 = Mid(leaf=Leaf(x=9.0), items=[], table={}, fl=[])
        return Top(mid=m1, other=m2, lst=[m2.leaf.x, [3, 4]], fd={"p": 1, "q": [1, 2]}), a
    if name == "shared":
        s = Leaf(x=3.0 + seed, arr=jnp.arange(4.0))
        shared_list = [s, 1]
        shared_dict = {"s": s}
        m1 = Mid(leaf=s, items=[s, shared_list, shared_dict], table={"a": s, "l": shared_list}, tup=(s, shared_list), fl=[s, shared_dict])
        m2 = Mid(leaf=s, items=shared_list, table=shared_dict, tup=(s,), fl=shared_list)
        return Top(mid=m1, other=m2, lst=[m1, s], fd={"m": m2, "s": s}), s
    if name == "config":
        rec = fdtdx.Recorder(modules=[fdtdx.LinearReconstructEveryK(k=2, start_recording_after=1), fdtdx.DtypeConversion(dtype=jnp.float32)])
        g = fdtdx.GradientConfig(method="reversible", recorder=rec, num_checkpoints_reversible=1)
        cfg = fdtdx.SimulationConfig(time=1e-13, grid=fdtdx.UniformGrid(spacing=5e-8), backend="cpu", dtype=jnp.float64, symmetry=(0, 1, 0), gradient_config=g)
        return cfg, rec.modules[0]
    if name == "source":
        wc = fdtdx.WaveCharacter(wavelength=1e-6)
        src = fdtdx.UniformPlaneSource(
            name="src",
            partial_grid_shape=(None, None, 1),
            wave_character=wc,
            direction="+",
            fixed_E_polarization_vector=(1, 0, 0),
            switch=fdtdx.OnOffSwitch(start_after_periods=1.0, interval=2),
            temporal_profile=fdtdx.GaussianPulseProfile(spectral_width=fdtdx.WaveCharacter(frequency=1e13), center_wave=wc),
        )
        return src, wc
    if name == "material":
        import fdtdx.dispersion as D

        p = D.LorentzPole(resonance_frequency=1e15, damping=1e13, delta_epsilon=(2.0, 0.0, 1.0))
        m = fdtdx.Material(permittivity=(2.0, 3.0, 4.0), electric_conductivity=1.0, dispersion=D.DispersionModel(poles=(p, D.DrudePole(plasma_frequency=1e15, damping=1e14))))
        return m, p
    if name == "container":
        vol = fdtdx.SimulationVolume(name="volume", partial_grid_shape=(4, 4, 4), material=fdtdx.Material(permittivity=2.0))
        wc = fdtdx.WaveCharacter(wavelength=1e-6)
        dip = fdtdx.PointDipoleSource(name="dip", partial_grid_shape=(1, 1, 1), wave_character=wc, polarization=0)
        det = fdtdx.FieldDetector(name="det", partial_grid_shape=(2, 2, 1), components=("Ex",), plot=False)
        oc = fdtdx.ObjectContainer(object_list=[vol, dip, det], volume_idx=0)
        return oc, wc
    raise ValueError(name)


# ---------------------------------------------------------------------------------------------- snapshots
def snap(o, depth=0):
    """deep, value-based snapshot (nested tuples of plain python data)."""
    c = _classes()
    if depth > 12:
        return ("deep", type(o).__name__)
    if isinstance(o, c["TreeClass"]):
        d = {}
        for k in vars(o):
            try:
                d[k] = snap(getattr(o, k), depth + 1)
            except Exception as e:  # attribute that cannot be read: part of the state as well
                d[k] = ("unreadable", type(e).__name__)
        return ("tree", type(o).__module__ + "." + type(o).__qualname__, tuple(sorted(d.items())))
    if isinstance(o, list):
        return ("list", tuple(snap(x, depth + 1) for x in o))
    if isinstance(o, tuple):
        return ("tuple", tuple(snap(x, depth + 1) for x in o))
    if isinstance(o, dict):
        # order-insensitive, like dict equality (pytree copies rebuild dictionaries in sorted key order)
        return ("dict", tuple(sorted((repr(k), snap(v, depth + 1)) for k, v in o.items())))
    if hasattr(o, "dtype") and hasattr(o, "shape"):
        a = np.asarray(o)
        return ("array", str(a.dtype), tuple(a.shape), a.tobytes())
    if isinstance(o, (int, float, complex, str, bool, type(None))):
        return ("val", type(o).__name__, repr(o))
    return ("obj", type(o).__name__, repr(o)[:200])


def digest(s):
    return hashlib.sha256(repr(s).encode()).hexdigest()[:16]


def parse(path):
    """independent parser of the documented path syntax a->b->[0]->['k'] -> list of (kind, key)."""
    ops = []
    for part in path.split("->"):
        if part.startswith("[") and part.endswith("]"):
            inner = part[1:-1].strip()
            if inner.startswith("'") and inner.endswith("'"):
                ops.append(("key", inner[1:-1]))
            else:
                ops.append(("index", int(inner)))
        else:
            ops.append(("attr", part))
    return ops


def model_update(s, ops, vs, create_ok=False):
    """reference model: the snapshot `s` with exactly the path `ops` replaced by the snapshot `vs`. Raises KeyError for an
    inadmissible path (missing attribute/key, index out of range, assignment into a tuple)."""
    (kind, key), rest = ops[0], ops[1:]
    last = not rest
    if kind == "attr":
        if s[0] != "tree":
            raise KeyError("attribute of non-tree")
        d = dict(s[2])
        if key not in d and not (last and create_ok):
            raise KeyError(key)
        d[key] = vs if last else model_update(d[key], rest, vs, create_ok)
        return ("tree", s[1], tuple(sorted(d.items())))
    if kind == "index":
        if s[0] == "tuple":
            if last:
                raise KeyError("tuple assignment")
            i = key if key >= 0 else len(s[1]) + key
            model_update(s[1][i], rest, vs, create_ok)  # the deeper update is admissible, the tuple write is not
            raise KeyError("tuple assignment")
        if s[0] != "list":
            raise KeyError("index of non-list")
        items = list(s[1])
        i = key if key >= 0 else len(items) + key
        if not 0 <= i < len(items):
            raise KeyError("index out of range")
        items[i] = vs if last else model_update(items[i], rest, vs, create_ok)
        return ("list", tuple(items))
    if s[0] != "dict":
        raise KeyError("key of non-dict")
    items = list(s[1])
    rk = repr(key)
    pos = [j for j, (k, _) in enumerate(items) if k == rk]
    if not pos:
        if not (last and create_ok):
            raise KeyError(key)
        items.append((rk, vs))
    else:
        items[pos[0]] = (rk, vs if last else model_update(items[pos[0]][1], rest, vs, create_ok))
    return ("dict", tuple(sorted(items)))


def paths_of(o, max_ops=4):
    """every addressable path (string) of a real object, depth-first; also returns the set of ids of containers each path walks through."""
    c = _classes()
    out = []

    def rec(x, prefix, nops):
        if nops >= max_ops:
            return
        if isinstance(x, c["TreeClass"]):
            for k in vars(x):
                p = (prefix + "->" if prefix else "") + k
                out.append(p)
                try:
                    rec(getattr(x, k), p, nops + 1)
                except Exception:
                    pass
        elif isinstance(x, (list, tuple)) and prefix:
            idxs = list(range(len(x))) + ([-1] if len(x) > 1 else [])
            for i in idxs:
                p = f"{prefix}->[{i}]"
                out.append(p)
                if i >= 0:
                    rec(x[i], p, nops + 1)
        elif isinstance(x, dict) and prefix:
            for k in x:
                if isinstance(k, str) and "'" not in k and "[" not in k and "]" not in k:
                    p = f"{prefix}->['{k}']"
                    out.append(p)
                    rec(x[k], p, nops + 1)

    rec(o, "", 0)
    return out


def get_at(o, ops):
    for kind, key in ops:
        o = getattr(o, key) if kind == "attr" else o[key]
    return o


def value_for(kind, root, ops, alias):
    c = _classes()
    if kind == "scalar":
        return 42.5
    if kind == "none":
        return None
    if kind == "list":
        return [1, [2, 3]]
    if kind == "same":
        return get_at(root, ops)
    if kind == "alias":
        return alias
    if kind == "tree":
        import jax.numpy as jnp

        return c["Leaf"](x=-1.0, arr=jnp.zeros(2))
    raise ValueError(kind)


def _step(obj, path, value, watch, states, fails, meta, create_ok=False):
    """one transition with all invariants. watch: list of (label, object, snapshot-before). Returns (result or None, outcome)."""
    s_before = watch[0][2]
    vs = snap(value)
    try:
        ops = parse(path)
        want = model_update(s_before, ops, vs, create_ok)
    except KeyError:
        want = None
    try:
        res = obj.aset(path, value, create_new_ok=create_ok)
        err = None
    except Exception as e:  # documented rejections are plain Exceptions / ValueError / TypeError of the container
        res, err = None, e
    # (i) nothing that existed before may have changed - also after a rejected update
    for label, o, s in watch + [("value", value, vs)]:
        if snap(o) != s:
            fails.append(dict(sig=f"input-mutated:{label}:{'after-rejection' if err is not None else 'after-update'}:{_pclass(path)}", detail=dict(meta, path=path)))
    if err is not None:
        if want is not None:
            if _has_setter_callbacks(obj, ops):
                return None, "rejected-by-field-validator"
            fails.append(dict(sig=f"admissible-update-rejected:{_pclass(path)}:{type(err).__name__}", detail=dict(meta, path=path, error=repr(err)[:300])))
        return None, "rejected"
    if want is None:
        fails.append(dict(sig=f"inadmissible-update-accepted:{_pclass(path)}", detail=dict(meta, path=path)))
        return res, "accepted-inadmissible"
    if type(res) is not type(obj):
        fails.append(dict(sig=f"result-type-differs:{_pclass(path)}", detail=dict(meta, path=path, got=type(res).__name__)))
    sr = snap(res)
    states.add(digest(sr))
    out = "updated"
    if sr != want:
        # everything except the addressed path must still be identical ...
        hole = ("hole",)
        try:
            same_elsewhere = model_update(sr, ops, hole, False) == model_update(s_before, ops, hole, create_ok)
        except KeyError:
            same_elsewhere = False
        if not same_elsewhere:
            fails.append(dict(sig=f"result-differs-outside-the-addressed-path:{_pclass(path)}", detail=dict(meta, path=path, diff=_first_diff(sr, want))))
        elif _has_setter_callbacks(obj, ops):
            out = "updated(value-normalised-by-field-setter)"  # e.g. Material properties are normalised to 9-tuples on assignment
        else:
            fails.append(dict(sig=f"stored-value-differs-from-the-given-value:{_pclass(path)}", detail=dict(meta, path=path, diff=_first_diff(sr, want))))
    return res, out


def _has_setter_callbacks(obj, ops):
    """the addressed attribute is a declared field with on_setattr callbacks besides freezing (a validator / normaliser)."""
    import pytreeclass as tc

    if not ops or ops[-1][0] != "attr":
        return False
    try:
        parent = get_at(obj, ops[:-1])
        for f in tc.fields(parent):
            if f.name == ops[-1][1]:
                return any(cb is not tc.freeze for cb in f.on_setattr)
    except Exception:
        pass
    return False


def _pclass(path):
    """shape of the path: a=attribute, i=index, k=key (signature class)."""
    return "".join({"attr": "a", "index": "i", "key": "k"}.get(k, "?") for k, _ in _safe_parse(path))


def _safe_parse(path):
    try:
        return parse(path)
    except Exception:
        return [("?", path)]


def _first_diff(a, b, where=""):
    if type(a) is not type(b) or (isinstance(a, tuple) and len(a) != len(b)):
        return f"{where}: {repr(a)[:120]} != {repr(b)[:120]}"
    if isinstance(a, tuple):
        for i, (x, y) in enumerate(zip(a, b)):
            if x != y:
                return _first_diff(x, y, f"{where}/{i}")
        return None
    return None if a == b else f"{where}: {repr(a)[:120]} != {repr(b)[:120]}"


def _shares(root, ops1, ops2):
    """second path goes through an object that the first path also went through (by identity), other than the root."""
    ids1 = set()
    o = root
    for kind, key in ops1[:-1]:
        try:
            o = getattr(o, key) if kind == "attr" else o[key]
        except Exception:
            break
        ids1.add(id(o))
    o = root
    for kind, key in ops2[:-1]:
        try:
            o = getattr(o, key) if kind == "attr" else o[key]
        except Exception:
            break
        if id(o) in ids1:
            return True
    return False


def run_case(case):
    import warnings

    warnings.simplefilter("ignore")
    tname, shard, nsh, seed = case["template"], case["shard"], case["nshards"], case["seed"]
    root, alias = build(tname, seed)
    s0 = snap(root)
    states = {digest(s0)}
    fails, trans, traces, nontriv, oc = [], 0, 0, 0, {}
    all_paths = paths_of(root)
    extra = [("brand_new_attribute", True), ("brand_new_attribute", False), ("no_such->x", False), ("", False), ("a->", False), ("[0", False), ("->x", False)]
    first = [(p, False) for i, p in enumerate(all_paths) if i % nsh == shard]
    if shard == 0:
        first += extra
        # a new dictionary key next to every existing dictionary
        for p in all_paths:
            try:
                if isinstance(get_at(root, parse(p)), dict):
                    first.append((p + "->['brand new key']", True))
                    first.append((p + "->['brand new key']", False))
            except Exception:
                pass
    for p1, create in first:
        ops1 = _safe_parse(p1)
        for v1k in VALUES1:
            if v1k == "same" and (create or ops1[0][0] == "?"):
                continue
            try:
                v1 = value_for(v1k, root, ops1, alias)
            except Exception:
                continue
            meta = dict(template=tname, path1=p1, value1=v1k, create_new_ok=create)
            r1, out = _step(root, p1, v1, [("template", root, s0)], states, fails, meta, create)
            trans += 1
            oc[out] = oc.get(out, 0) + 1
            if r1 is None or not out.startswith("updated"):
                continue
            s1 = snap(r1)
            for p2 in paths_of(r1, case.get("ops2", 4)):
                ops2 = parse(p2)
                for v2k in case["values2"]:
                    v2 = value_for(v2k, r1, ops2, alias)
                    meta2 = dict(meta, path2=p2, value2=v2k)
                    _, out2 = _step(r1, p2, v2, [("intermediate", r1, s1), ("template", root, s0)], states, fails, meta2)
                    trans += 1
                    traces += 1
                    if _shares(r1, ops1, ops2) or v2k == "alias":
                        nontriv += 1
                    oc["2:" + out2] = oc.get("2:" + out2, 0) + 1
            if len(fails) > 200:
                break
    seen, outf = {}, []
    for f in fails:
        seen[f["sig"]] = seen.get(f["sig"], 0) + 1
        if seen[f["sig"]] <= 2:
            outf.append(f)
    return dict(
        ok=not fails,
        failures=outf,
        detail={"failing_elements": len(fails), "by_sig": seen, "paths_in_template": len(all_paths)},
        nontrivial=nontriv,
        evals=trans,
        states=len(states),
        transitions=trans,
        traces=traces,
        outcome=oc,
    )
