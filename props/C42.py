"""C42 — results do not depend on the number of devices.

Every scene of a finite menu is placed and run in fresh subprocesses with
XLA_FLAGS=--xla_force_host_platform_device_count in {1,2,4}; `SimulationConfig(backend="cpu")` makes
`create_named_sharded_matrix` lay every field/material array out over ALL emulated host devices along the x axis
(array axis 1; recorder buffers along the time axis), materials are written with `sharding_preserving_set/add` by
`place_objects`, and `run_fdtd` is executed on the sharded arrays (GSPMD partitioning of the while loop). Final step,
fields, PML auxiliaries, detector states and the placed material arrays must be identical to the 1-device run (1e-12).
The subprocess reports the actual layout (number of devices and shard shapes of E before and after the run), so that
"the multi-device path was exercised" is measured, not assumed.
"""

ID = "C42"
LEVEL = "exploration"
MANIFEST = {
    "engine": "E4-scenes in subprocesses",
    "technique": "bounded exhaustive configuration sweep: every scene of a finite menu x every emulated host device count {1,2,4} in fresh subprocesses through place_objects + run_fdtd on really sharded arrays, compared with the single-device run",
    "text": "Each scene of the menu (x extents divisible by 4, objects/sources/detectors straddling shard boundaries, PML, periodic wrap across devices, conductive and anisotropic materials, a reversible-gradient configuration with sharded recorder buffers) is placed and run under 1, 2 and 4 emulated host devices; the sharded layout is verified from the arrays themselves and all observable results are compared with the single-device run.",
    "note": "XLA host-platform device emulation only (no GPU/TPU, no multi-process run): it exercises create_named_sharded_matrix, sharding_preserving_set/add and SPMD partitioning of the time loop, not real interconnects. Scenes are a finite menu.",
}
RULE = (
    "case = (scene, N) for N in {2,4}: one subprocess with N emulated devices and one single-device reference subprocess (evals = 2). A case is non-trivial when the placed E array and the E array "
    "returned by run_fdtd are laid out over N devices with x-extent/N cells per shard, materials are sharded the same way, and the reference run has non-zero fields and detector records; "
    "distinct = distinct (scene, N)."
)
ASSUMPTIONS = [
    "XLA host-platform device emulation is representative of the multi-device code path (same sharding/partitioning machinery, no real interconnect)",
    "scenes come from a finite menu",
]
TOL = 1e-12
COUNTS = (1, 2, 4)


def _scenes():
    W = {"wavelength": 4e-7, "phase_shift": 1.0}
    allpml = {k: "pml" for k in ("min_x", "max_x", "min_y", "max_y", "min_z", "max_z")}
    S = {}
    S["pml_all_box_dipole"] = dict(
        spec=dict(
            shape=[8, 6, 6], faces=allpml, pml=2, steps=12,
            sources=[dict(kind="dipole", box=[[3, 4], [3, 4], [2, 3]], polarization=2, wave=W)],
            detectors=[
                dict(kind="field", box=[[2, 6], [3, 4], [3, 4]], reduce_volume=False),
                dict(kind="energy", box=[[2, 6], [2, 4], [2, 4]], reduce_volume=True),
                dict(kind="phasor", box=[[4, 5], [2, 3], [3, 4]], wave_characters=[W]),
            ],
        ),
        objects=[dict(box=[[3, 6], [2, 4], [2, 4]], material=dict(permittivity=2.25))],
    )
    S["periodic_x4_plane_pmlz"] = dict(
        spec=dict(
            shape=[4, 4, 9], faces={"min_x": "periodic", "max_x": "periodic", "min_y": "periodic", "max_y": "periodic", "min_z": "pml", "max_z": "pml"}, pml=2, steps=12,
            sources=[dict(kind="plane", box=[[0, 4], [0, 4], [3, 4]], direction="+", fixed_E_polarization_vector=[1, 0, 0], wave=W)],
            detectors=[dict(kind="poynting", box=[[0, 4], [0, 4], [5, 6]], direction="+"), dict(kind="field", box=[[0, 4], [1, 2], [4, 5]], reduce_volume=False)],
        ),
        objects=[dict(box=[[1, 3], [0, 4], [5, 6]], material=dict(permittivity=3.0))],
    )
    S["walls_sigma_mdipole"] = dict(
        spec=dict(
            shape=[8, 4, 4], faces={"min_x": "pec", "max_x": "pmc", "min_y": "pmc", "max_y": "pec", "min_z": "periodic", "max_z": "periodic"}, steps=10,
            sources=[dict(kind="dipole", box=[[4, 5], [1, 2], [1, 2]], polarization=1, source_type="magnetic", wave=W)],
            detectors=[dict(kind="energy", box=[[0, 8], [0, 4], [0, 4]], reduce_volume=True), dict(kind="field", box=[[3, 5], [2, 3], [1, 2]], reduce_volume=True)],
        ),
        objects=[
            dict(box=[[1, 5], [1, 3], [0, 4]], material=dict(permittivity=2.0, electric_conductivity=2000.0)),
            dict(box=[[5, 7], [0, 2], [1, 3]], material=dict(permittivity=[2.0, 3.0, 4.0], permeability=1.5)),
        ],
    )
    S["reversible_recorder_pmlx"] = dict(
        spec=dict(
            shape=[8, 5, 5], faces={"min_x": "pml", "max_x": "pml", "min_y": "periodic", "max_y": "periodic", "min_z": "periodic", "max_z": "periodic"}, pml=2, steps=9,
            gradient={"method": "reversible", "ckpt_rev": 2, "recorder": []},
            sources=[dict(kind="dipole", box=[[3, 4], [2, 3], [2, 3]], polarization=0, wave=W)],
            detectors=[dict(kind="field", box=[[4, 5], [2, 3], [2, 3]], reduce_volume=False), dict(kind="poynting", box=[[5, 6], [0, 5], [0, 5]], direction="+")],
        ),
        objects=[dict(box=[[2, 6], [1, 4], [1, 4]], material=dict(permittivity=1.8))],
    )
    S["x12_pmlx_two_sources"] = dict(
        spec=dict(
            shape=[12, 3, 3], faces={"min_x": "pml", "max_x": "pml", "min_y": "periodic", "max_y": "periodic", "min_z": "periodic", "max_z": "periodic"}, pml=3, steps=14,
            sources=[dict(kind="dipole", box=[[5, 6], [1, 2], [1, 2]], polarization=2, wave=W), dict(kind="dipole", box=[[6, 7], [1, 2], [1, 2]], polarization=1, source_type="magnetic", wave=W, switch={"interval": 2})],
            detectors=[dict(kind="field", box=[[3, 9], [1, 2], [1, 2]], reduce_volume=False, switch={"interval": 3}), dict(kind="phasor", box=[[8, 9], [1, 2], [1, 2]], wave_characters=[W])],
        ),
        objects=[dict(box=[[4, 8], [0, 3], [0, 2]], material=dict(permittivity=2.5))],
    )
    return S


QUICK = ["pml_all_box_dipole", "periodic_x4_plane_pmlz", "walls_sigma_mdipole", "reversible_recorder_pmlx"]


def cases(tier, seed):
    names = QUICK if tier == "quick" else list(_scenes())
    return [dict(scene=n, devices=d, seed=seed) for n in names for d in COUNTS[1:]]


def bounds(tier, seed):
    return {"scenes": QUICK if tier == "quick" else list(_scenes()), "device_counts": list(COUNTS), "tolerance": TOL, "seed": seed,
            "emulation": "XLA_FLAGS=--xla_force_host_platform_device_count=N, backend cpu, fresh subprocess per (scene, N)"}


def _run_sub(desc, n):
    import io
    import json
    import os
    import subprocess
    import sys

    import numpy as np

    here = os.path.dirname(os.path.dirname(os.path.abspath(__file__)))
    src = os.environ.get("VERIF_REPO_SRC", "/repo/src")
    env = dict(os.environ)
    env["XLA_FLAGS"] = f"--xla_force_host_platform_device_count={n} --xla_cpu_multi_thread_eigen=false intra_op_parallelism_threads=1"
    env["JAX_PLATFORMS"] = "cpu"
    env["JAX_ENABLE_X64"] = "1"
    env["PYTHONPATH"] = f"{src}:{here}"
    env["PYTHONDONTWRITEBYTECODE"] = "1"
    p = subprocess.run([sys.executable, "-m", "mc.oracles.c42_worker", json.dumps(desc)], cwd=here, env=env, capture_output=True, timeout=1800)
    if p.returncode != 0:
        raise RuntimeError(f"subprocess with {n} devices failed (rc={p.returncode}): {p.stderr.decode(errors='replace')[-1500:]}")
    z = np.load(io.BytesIO(p.stdout))
    info = json.loads(bytes(z["__info__"]).decode())
    snap = {k.replace("|", "/"): z[k] for k in z.files if k != "__info__"}
    return info, snap


def run_case(case):
    from mc.oracles import drivers as D

    desc = dict(_scenes()[case["scene"]])
    desc["spec"] = dict(desc["spec"], seed=case.get("seed", 0))
    nx = desc["spec"]["shape"][0]
    fails, detail = [], {}
    ref_info, ref = _run_sub(desc, 1)
    nz = D.nonzero_groups(ref)
    base_nt = "E" in nz and "H" in nz and any(g.startswith("det/") for g in nz)
    nontriv = 0
    outcomes = {}
    for n in [case["devices"]]:
        info, got = _run_sub(desc, n)
        lay_b, lay_a = info["before"]["E"], info["after"]["E"]
        detail[f"layout_{n}"] = dict(before=lay_b, after=lay_a, materials=info["before"]["inv_permittivities"], recording=info["before"].get("recording"))
        sharded = (
            info["device_count"] == n and lay_b["devices"] == n and lay_a["devices"] == n
            and all(s[1] == nx // n for s in lay_b["shard_shapes"]) and all(s[1] == nx // n for s in lay_a["shard_shapes"])
            and info["before"]["inv_permittivities"]["devices"] == n
        )
        if info["final_step"] != ref_info["final_step"]:
            fails.append(dict(sig=f"devices={n}:final-step-differs", detail=dict(got=info["final_step"], ref=ref_info["final_step"])))
        w, key, problems = D.compare(ref, got, TOL)
        detail[f"worst_rel_{n}"] = w
        if problems:
            fails.append(dict(sig=f"devices={n}:structure-differs", detail=dict(problems=problems[:4])))
        if w > TOL:
            grp = "materials" if key.startswith("mat/") else ("detectors" if key.startswith("det/") else ("psi" if key.startswith("psi") else "fields"))
            fails.append(dict(sig=f"devices={n}:{grp}-differ", detail=dict(rel=w, key=key)))
        if sharded and base_nt:
            nontriv += 1
        outcomes["sharded-run-equal" if sharded and not fails else ("not-sharded" if not sharded else "differs")] = outcomes.get("sharded-run-equal", 0) + 1
    return dict(ok=not fails, failures=fails, detail=detail, evals=2, nontrivial=nontriv, outcome=outcomes)
