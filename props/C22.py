"""C22 — Gaussian smoothing is affine, fixes constants, stays in the input range, commutes with mirroring.

Engine E1 on a finite configuration space: for every in-plane shape (p,q) in {2..5}^2, every position of the singleton
axis, std_discrete in {1,2} and **all 16 presence subsets** of the four optional padding arrays, the real
`GaussianSmoothing2D.__call__` (initialised like `Device.place_on_grid` does) is tabulated on 0, on every basis vector of
the joint input (design cells + every entry of every padding array) and on all basis pairs (jax.vmap, eager).  The
map is then known completely:  f(0) == 0 and f(ei+ej) == f(ei)+f(ej)  (linear), all weights >= 0 and every row sums to
1  (=> constants are fixed and every output lies in the hull of design and padding values, for *all* real inputs),
M_S' P_in == P_out M_S for both mirrors (S' = mirrored presence subset, also tabulated from the real code), default
padding == explicit padding with the design's own edges (edge replication), and the smoothing of the edge-extended
larger array restricted to the original window reproduces the result (shift-invariant kernel on the edge-replicated
extension); the kernel extracted from a large array is proportional to exp(-r^2/(2 std^2)) on its support.
"""
import itertools

import numpy as np

ID = "C22"
LEVEL = "exploration"
MANIFEST = {
    "engine": "E1-linsys",
    "technique": "exhaustive tabulation of the real smoothing map on every basis vector (and all basis pairs) of the joint (design, padding arrays) input for all shapes <= 5x5, singleton positions, std in {1,2} and all 16 padding-presence subsets; weight-matrix identities (row sums, non-negativity, mirror equivariance, edge-replication equivalence)",
    "text": "For every bounded configuration the matrix of GaussianSmoothing2D in (design cells, padding entries) is tabulated from the real code; linearity is checked on all basis pairs, then non-negative weights with unit row sums prove constancy preservation and the range property for every real input; mirror equivariance is a matrix identity between the tabulations of the configuration and of its mirrored configuration; edge replication is checked against explicit edge paddings and against smoothing of the edge-extended array.",
    "note": "float64; tolerance 1e-12 absolute on weights of magnitude <= 1 (round-off of the convolution is ~1e-17). Direct spot evaluations on constant and generic patterns accompany the matrix identities.",
}
RULE = (
    "case = (in-plane shape, singleton-axis position, std_discrete); inside a case all 16 padding-presence subsets are tabulated "
    "(basis + all pairs, one vmapped evaluation each = evaluations counted per input vector). A (case, subset) is non-trivial when the "
    "tabulated matrix has a row with at least two different non-zero weights and, for non-empty subsets, puts non-zero weight on every present padding array."
)
ASSUMPTIONS = [
    "eager jax.vmap over input vectors evaluates the same Python code as a plain call (plain calls on generic patterns are compared with M @ v)",
    "float64 evaluation is representative of the float32 default",
]
TOL = 1e-12


def cases(tier, seed):
    sizes = (2, 3, 4, 5) if tier == "thorough" else (2, 3, 5)
    stds = (1, 2, 3) if tier == "thorough" else (1, 2)
    out = []
    for p, q in itertools.product(sizes, repeat=2):
        for pos in range(3):
            for s in stds:
                if tier == "quick" and pos != 2 and s != 1:
                    continue  # the singleton position only changes the squeeze/reshape; one std is enough there
                out.append(dict(p=p, q=q, pos=pos, std=s, seed=seed))
    out.sort(key=lambda c: (c["p"] * c["q"], c["std"]))
    return out


def bounds(tier, seed):
    return {
        "in_plane_shapes": "(p,q) in {2,3,4,5}^2" if tier == "thorough" else "(p,q) in {2,3,5}^2",
        "singleton_axis_positions": [0, 1, 2],
        "std_discrete": [1, 2, 3] if tier == "thorough" else "1 and 2 (2 only with the singleton axis last)",
        "padding_presence": "all 16 subsets of (low0, high0, low1, high1)",
        "inputs": "0, every basis vector of (design, low0, high0, low1, high1), all basis pairs; constants {1,0.3,-2.5}; all-distinct and seed patterns",
        "tolerance": TOL,
        "seed": seed,
    }


NAMES = ("padding_low_axis0", "padding_high_axis0", "padding_low_axis1", "padding_high_axis1")


def _layout(p, q):
    """joint input vector = [design (p*q, C order), low0 (q), high0 (q), low1 (p), high1 (p)]"""
    sizes = [p * q, q, q, p, p]
    offs = np.concatenate([[0], np.cumsum(sizes)])
    return sizes, offs


def _mirror_in(p, q, axis):
    """permutation of the joint input vector under the mirror of in-plane `axis`: v_mirrored = v[src]; and the presence map."""
    sizes, offs = _layout(p, q)
    idx = np.arange(offs[-1])
    x = idx[: p * q].reshape(p, q)
    l0, h0, l1, h1 = (idx[offs[k] : offs[k + 1]] for k in range(1, 5))
    if axis == 0:
        parts = [x[::-1, :].ravel(), h0, l0, l1[::-1], h1[::-1]]
        pres = lambda S: (S[1], S[0], S[2], S[3])  # noqa: E731
    else:
        parts = [x[:, ::-1].ravel(), l0[::-1], h0[::-1], h1, l1]
        pres = lambda S: (S[0], S[1], S[3], S[2])  # noqa: E731
    return np.concatenate(parts), pres


def run_case(case):
    from mc import guard

    guard.import_fdtdx()
    import jax
    import jax.numpy as jnp
    from fdtdx.objects.device.parameters.continuous import GaussianSmoothing2D
    from mc.oracles import ptransform as PT

    p, q, pos, std = case["p"], case["q"], case["pos"], case["std"]
    shape = [p, q]
    shape.insert(pos, 1)
    shape = tuple(shape)
    sizes, offs = _layout(p, q)
    n = int(offs[-1])
    mats = PT.materials([1.0, 2.25])
    base_t = PT.make(GaussianSmoothing2D(std_discrete=std), mats, shape)

    def fn(S):
        def f(v):
            t = base_t
            for k, name in enumerate(NAMES):
                if S[k]:
                    t = t.aset(name, v[offs[k + 1] : offs[k + 2]])
            return t({"params": v[: p * q].reshape(shape)})["params"].reshape(-1)

        return f

    pairs = [(i, j) for i in range(n) for j in range(i + 1, n)]
    eye = np.eye(n)
    V = np.concatenate([np.zeros((1, n)), eye, np.asarray([eye[i] + eye[j] for i, j in pairs])])
    Vj = jnp.asarray(V)
    rng = np.random.default_rng(2200 + case["seed"])
    pats = [np.arange(1, n + 1) * 0.37 - 2.0, rng.standard_normal(n), rng.uniform(0, 1, n)]

    fails, seen = [], set()
    evals, nontriv, outc = 0, 0, {}

    def fail(sig, detail):
        if sig not in seen:
            seen.add(sig)
            fails.append(dict(sig=sig, detail=dict(detail, shape=list(shape), std=std)))

    tabs = {}

    def tab(S):
        if S not in tabs:
            R = np.asarray(jax.vmap(fn(S))(Vj))
            tabs[S] = R
        return tabs[S]

    subsets = list(itertools.product((False, True), repeat=4))
    for S in subsets:
        key = "".join("1" if b else "0" for b in S)
        R = tab(S)
        evals += len(V)
        if R.shape != (len(V), p * q):
            fail("shape-changed", dict(subset=key, got=list(R.shape)))
            continue
        f0 = R[0]
        M = (R[1 : n + 1] - f0).T  # (cells, n)
        if np.max(np.abs(f0)) > TOL:
            fail("not-linear:f(0)!=0", dict(subset=key, f0=float(np.max(np.abs(f0)))))
        aff = max(float(np.max(np.abs(R[1 + n + k] - R[1 + i] - R[1 + j] + f0))) for k, (i, j) in enumerate(pairs))
        if aff > TOL:
            fail("not-linear:pair-superposition", dict(subset=key, defect=aff))
        # absent paddings must not influence the result; present ones are inputs
        for k in range(4):
            blk = M[:, offs[k + 1] : offs[k + 2]]
            if not S[k] and np.max(np.abs(blk)) != 0:
                fail("absent-padding-has-weight", dict(subset=key, padding=NAMES[k]))
        rs = M.sum(axis=1)
        if np.max(np.abs(rs - 1)) > TOL:
            fail("row-sum-not-1:constants-not-preserved", dict(subset=key, worst=float(rs[np.argmax(np.abs(rs - 1))])))
        if M.min() < -TOL:
            fail("negative-weight:output-can-leave-input-range", dict(subset=key, min_weight=float(M.min())))
        nz = [np.unique(np.round(r[np.abs(r) > 1e-14], 13)) for r in M]
        nt = any(len(u) >= 2 for u in nz) and all((not S[k]) or np.max(np.abs(M[:, offs[k + 1] : offs[k + 2]])) > 0 for k in range(4))
        nontriv += int(nt)
        outc["nontrivial-matrix" if nt else "degenerate-matrix"] = outc.get("nontrivial-matrix" if nt else "degenerate-matrix", 0) + 1
        # mirror equivariance against the mirrored configuration, tabulated from the real code as well
        for axis in (0, 1):
            src, pres = _mirror_in(p, q, axis)
            S2 = pres(S)
            R2 = tab(S2)
            M2 = (R2[1 : n + 1] - R2[0]).T
            # f_S2(mirror(v)) == mirror(f_S(v)) for all v  <=>  M2[:, inv(src)] rows mirrored == M
            out_src = src[: p * q]  # output cells are permuted like the design cells
            lhs = np.zeros_like(M2)
            lhs[:, src] = M2  # (M2 P)[.., src[a]] picks v[src[a]]  -> column of v index src[a]
            d = float(np.max(np.abs(lhs - M[out_src, :])))
            if d > TOL:
                fail(f"mirror-axis{axis}-not-equivariant", dict(subset=key, mirrored_subset="".join("1" if b else "0" for b in S2), defect=d))
        # direct evaluations: constants with matching/default padding, generic patterns within range, M reproduces plain calls
        f = fn(S)
        for c in (1.0, 0.3, -2.5):
            o = np.asarray(f(jnp.full((n,), c)))
            evals += 1
            if np.max(np.abs(o - c)) > TOL * max(1, abs(c)):
                fail("constant-not-preserved", dict(subset=key, c=c, worst=float(o[np.argmax(np.abs(o - c))])))
        for v in pats:
            o = np.asarray(f(jnp.asarray(v)))
            evals += 1
            used = np.concatenate([v[: p * q]] + [v[offs[k + 1] : offs[k + 2]] for k in range(4) if S[k]])
            sc = max(1.0, float(np.max(np.abs(used))))
            if o.min() < used.min() - TOL * sc or o.max() > used.max() + TOL * sc:
                fail("output-outside-input-range", dict(subset=key, lo=float(used.min()), hi=float(used.max()), omin=float(o.min()), omax=float(o.max())))
            if np.max(np.abs(o - M @ v)) > 1e-11 * sc:
                fail("harness:table-differs-from-plain-call", dict(subset=key, defect=float(np.max(np.abs(o - M @ v)))))
            # edge replication: explicit paddings equal to the design's own edges give the default result
            x = v[: p * q].reshape(p, q)
            ve = np.concatenate([x.ravel(), x[0, :], x[-1, :], x[:, 0], x[:, -1]])
            oe = np.asarray(f(jnp.asarray(ve)))
            od = np.asarray(fn((False,) * 4)(jnp.asarray(ve)))
            evals += 2
            if np.max(np.abs(oe - od)) > TOL * sc:
                fail("default-padding-is-not-edge-replication", dict(subset=key, defect=float(np.max(np.abs(oe - od)))))

    # shift-invariant kernel on the edge-replicated extension: smoothing the edge-extended big array, cropped, gives the same
    m = 6 * std + 2
    bshape = [p + 2 * m, q + 2 * m]
    bshape.insert(pos, 1)
    big_t = PT.make(GaussianSmoothing2D(std_discrete=std), mats, tuple(bshape))
    for v in pats[:2]:
        x = v[: p * q].reshape(p, q)
        small = np.asarray(base_t({"params": jnp.asarray(x.reshape(shape))})["params"]).reshape(p, q)
        big = np.asarray(big_t({"params": jnp.asarray(np.pad(x, m, mode="edge").reshape(bshape))})["params"]).reshape(p + 2 * m, q + 2 * m)
        evals += 2
        d = float(np.max(np.abs(big[m : m + p, m : m + q] - small)))
        if d > TOL * max(1.0, float(np.max(np.abs(x)))):
            fail("not-a-convolution-of-the-edge-replicated-extension", dict(defect=d))
    # kernel: response of the big array to a centred impulse is ~ exp(-r^2 / (2 std^2)) on its support
    imp = np.zeros((p + 2 * m, q + 2 * m))
    ci, cj = (p + 2 * m) // 2, (q + 2 * m) // 2
    imp[ci, cj] = 1.0
    K = np.asarray(big_t({"params": jnp.asarray(imp.reshape(bshape))})["params"]).reshape(imp.shape)
    evals += 1
    ii, jj = np.meshgrid(np.arange(imp.shape[0]) - ci, np.arange(imp.shape[1]) - cj, indexing="ij")
    G = np.exp(-(ii**2 + jj**2) / (2.0 * std**2))
    sup = K > 1e-15
    if not sup[ci, cj] or sup.sum() < 9:
        fail("kernel-support-degenerate", dict(support=int(sup.sum())))
    else:
        ratio = K[sup] / G[sup]
        if np.max(np.abs(ratio / ratio.mean() - 1)) > 1e-9:
            fail("kernel-not-gaussian-with-std_discrete", dict(spread=float(np.max(np.abs(ratio / ratio.mean() - 1)))))
        r = m - 1
        Kc = K[ci - r : ci + r + 1, cj - r : cj + r + 1]
        if np.max(np.abs(Kc - Kc[::-1, ::-1])) > TOL or np.max(np.abs(Kc - Kc.T)) > TOL or abs(K.sum() - 1) > TOL or abs(Kc.sum() - 1) > TOL:
            fail("kernel-not-symmetric-or-not-normalised", dict(total=float(K.sum())))
    return dict(ok=not fails, failures=fails, detail=dict(inputs=n, subsets=16), nontrivial=nontriv, evals=evals, outcome=outc)
