"""C23 — fabrication clean-up keeps exactly the connected material.

Bounded exhaustive enumeration (engine E2) against a 6-connectivity reference model:
  * `RemoveFloatingMaterial.__call__` on **all** binary volumes of every shape with <= 12 cells, of 4x4x1, 2x2x4, 3x3x2 (all
    orientations) and 2x4x2 (thorough: 5x5x1, 2x2x5, 3x4x2, 2x3x4, ..., 3x3x3 with <= 10 material cells); both choices
    of the background material.  Oracle: output material == material cells face-connected, through material, to the
    bottom layer z=0 (numpy flood fill to the fixpoint, cross-validated against scipy.ndimage.label).
  * `ConnectHolesAndStructures.__call__` on all binary volumes of every shape with <= 9 cells (thorough 12), 2x2x3
    orientations, 3x3x2, 4x4x1, 2x2x4, ... (+ ternary volumes with a fill material on shapes <= 6/8 cells).  Oracle: the
    output has no floating material and no background component that is disconnected from the four sides and the top.
  * parameterised adversarial families (serpentines, spirals, combs; 4 embeddings; every axis orientation; up to 9x9x3).
The transforms are initialised like `Device.place_on_grid` does (init_module + init_type) and driven by `__call__`.
"""
import itertools

import numpy as np

ID = "C23"
LEVEL = "exploration"
MANIFEST = {
    "engine": "E2-enum",
    "technique": "bounded exhaustive enumeration of all binary volumes <= 18 cells (quick) / <= 25 cells (thorough) plus parameterised serpentine/spiral/comb families in every orientation against a 6-connectivity labelling reference model (numpy fixpoint flood fill cross-validated with scipy.ndimage.label)",
    "text": "RemoveFloatingMaterial and ConnectHolesAndStructures are run on every binary volume of every small shape and on long winding paths; the kept set must equal the material face-connected to the bottom layer, and the connected design must contain neither floating material nor background enclosed away from the sides and the top.",
    "note": "Failing elements are classified by the geodesic depth of the lost cell relative to max(shape) (the sweep count of the dilation flood fill) and by nz=1, so that known defects are suppressed only for exactly that input class.",
}
RULE = (
    "case = (transform, shape, range of binary volumes) or (family, size, embedding) with all 24 orientations; every volume is run through "
    "the real transform (jax.vmap batches for the exhaustive part, jax.jit per shape for the families). A volume is non-trivial for "
    "RemoveFloatingMaterial when it contains floating material or connected material above the bottom layer, for ConnectHolesAndStructures "
    "when the input contains floating material or enclosed background (the transform has to act)."
)
ASSUMPTIONS = [
    "jax.vmap over a batch evaluates the same Python code as a plain call (three plain calls per exhaustive case are compared bit-for-bit)",
    "the numpy fixpoint flood fill and scipy.ndimage.label (6-connectivity) agree (asserted on every 97th volume of every batch)",
    "bottom layer = z index 0, top = last z index, sides = first/last x and y index (docstrings of discrete.py / binary_transform.py)",
]

CH_R = 1 << 15
CH_C = 1 << 12


def _shapes_le(n):
    out = []
    for a in range(1, n + 1):
        for b in range(1, n // a + 1):
            for c in range(1, n // (a * b) + 1):
                out.append((a, b, c))
    return out


def _perms(s):
    return sorted(set(itertools.permutations(s)))


def _family_menu(tier):
    if tier == "quick":
        return [("serpentine", 3, 3), ("serpentine", 5, 5), ("serpentine", 9, 5), ("serpentine", 5, 9), ("serpentine", 9, 9),
                ("spiral", 5, 0), ("spiral", 7, 0), ("spiral", 9, 0), ("comb", 5, 5), ("comb", 9, 9)]  # fmt: skip
    sizes = (3, 4, 5, 7, 9)  # 6 and 8 dropped: the full 7x7 menu needed > 2 h on a shared machine
    return [(f, m, k) for f in ("serpentine", "comb") for m in sizes for k in sizes] + [("spiral", m, 0) for m in sizes]


def cases(tier, seed):
    out = []
    rfm = _shapes_le(12) + _perms((4, 4, 1)) + _perms((2, 2, 4)) + _perms((3, 3, 2)) + [(2, 4, 2)]
    chs = _shapes_le(9) + _perms((2, 2, 3)) + [(3, 3, 2), (2, 5, 1), (5, 2, 1), (4, 3, 1), (4, 4, 1), (2, 2, 4)]
    chs3 = _shapes_le(6) + [(2, 2, 2), (3, 3, 1)]
    weight = {}
    if tier == "thorough":
        rfm += _perms((5, 5, 1)) + [(3, 4, 2), (4, 3, 2), (2, 3, 4), (2, 4, 3), (3, 5, 1), (1, 4, 5)] + _perms((2, 2, 5))
        chs += _shapes_le(12) + [(3, 2, 3), (2, 3, 3), (4, 2, 2), (2, 4, 2), (2, 2, 5), (5, 2, 2), (5, 4, 1)]
        chs3 += _shapes_le(8) + [(1, 3, 3), (3, 1, 3)]
        weight[(3, 3, 3)] = 10
    for shape in sorted(set(rfm), key=lambda s: (s[0] * s[1] * s[2], s)):
        n = shape[0] * shape[1] * shape[2]
        for bg in ("low", "high"):
            if bg == "high" and (n > 9 or (tier == "quick" and n not in (4, 8, 9))):
                continue
            for lo in range(0, 1 << n, CH_R * 8):
                out.append(dict(kind="rfm", shape=list(shape), bg=bg, lo=lo, hi=min(1 << n, lo + CH_R * 8), seed=seed))
    for shape, wmax in weight.items():
        for k in range(0, wmax + 1):
            out.append(dict(kind="rfm-weight", shape=list(shape), bg="low", weight=k, seed=seed))
    for shape in sorted(set(chs), key=lambda s: (s[0] * s[1] * s[2], s)):
        n = shape[0] * shape[1] * shape[2]
        for lo in range(0, 1 << n, CH_C * 4):
            out.append(dict(kind="chs", shape=list(shape), lo=lo, hi=min(1 << n, lo + CH_C * 4), seed=seed))
    for shape in sorted(set(chs3), key=lambda s: (s[0] * s[1] * s[2], s)):
        out.append(dict(kind="chs3", shape=list(shape), seed=seed))
    for fam, m, k in _family_menu(tier):
        for emb in ("flat", "extruded2", "raised+foot", "slab3-middle"):
            # ConnectHolesAndStructures is ~100x slower (unrolled python loops, one XLA compile per op and shape): few shapes only
            lim = 5  # ConnectHolesAndStructures on patterns up to 5x5 in both tiers (7x7 cost > 1 h in the thorough tier)
            connect = max(m, k) <= lim and emb in ("extruded2", "slab3-middle") and (tier == "thorough" or (fam, m) in (("serpentine", 5), ("spiral", 5)))
            out.append(dict(kind="family", family=fam, m=m, k=k, emb=emb, connect=connect, seed=seed))
    order = {"rfm": 0, "chs": 0, "chs3": 1, "family": 2, "rfm-weight": 3}
    out.sort(key=lambda c: (order[c["kind"]], int(np.prod(c.get("shape", [99]))), c.get("lo", 0)))
    return out


def bounds(tier, seed):
    th = tier == "thorough"
    return {
        "remove_floating": "all binary volumes of every shape with <= 12 cells, 4x4x1 / 2x2x4 / 3x3x2 in all orientations, 2x4x2"
        + ("; 5x5x1, 2x2x5 (all orientations), 3x4x2, 4x3x2, 2x3x4, 2x4x3, 3x5x1, 1x4x5, 3x3x3 with <= 10 material cells" if th else ""),
        "connect": "all binary volumes of every shape with <= " + ("12" if th else "9") + " cells, 2x2x3 (all orientations), 3x3x2, 2x5x1, 5x2x1, 4x3x1, 4x4x1, 2x2x4; ternary volumes with a fill material on shapes <= "
        + ("8 cells, 3x3x1 orientations" if th else "6 cells, 2x2x2, 3x3x1")
        + ("; 3x2x3, 2x3x3, 4x2x2, 2x4x2, 2x2x5, 5x2x2, 5x4x1" if th else ""),
        "families": f"{len(_family_menu(tier))} patterns (serpentine(m,k), spiral(m), comb(m,k), sizes 3..9) x 4 embeddings x up to 24 orientations, material and inverted; ConnectHolesAndStructures on patterns <= "
        + ("7" if th else "5") + " cells per axis, 2 embeddings, half of the orientations",
        "background_material": "lowest permittivity (default) and explicitly the higher one (<= 9 cells)",
        "seed": seed,
    }


# ------------------------------------------------------------------------------------------ adversarial families
def pattern(fam, m, k):
    if fam == "serpentine":
        a = np.zeros((m, k), dtype=bool)
        for v in range(k):
            if v % 2 == 0:
                a[:, v] = True
            else:
                a[m - 1 if (v // 2) % 2 == 0 else 0, v] = True
        return a
    if fam == "comb":
        a = np.zeros((m, k), dtype=bool)
        a[:, 0] = True
        a[::2, :] = True
        return a
    if fam == "spiral":
        a = np.zeros((m, m), dtype=bool)
        i, j, di, dj = 0, 0, 0, 1
        a[0, 0] = True
        turns = 0
        while turns < 2:
            ni, nj = i + di, j + dj
            nni, nnj = ni + di, nj + dj
            ok = 0 <= ni < m and 0 <= nj < m and not a[ni, nj]
            # do not touch an earlier arm: the cell after next must be free (or outside)
            if ok and (0 <= nni < m and 0 <= nnj < m) and a[nni, nnj]:
                ok = False
            if ok:
                i, j = ni, nj
                a[i, j] = True
                turns = 0
            else:
                di, dj = dj, -di
                turns += 1
        return a
    raise ValueError(fam)


def embed(pat, emb):
    m, k = pat.shape
    if emb == "flat":
        return pat[:, :, None].copy()
    if emb == "extruded2":
        return np.repeat(pat[:, :, None], 2, axis=2)
    if emb == "raised+foot":
        v = np.zeros((m, k, 2), dtype=bool)
        v[:, :, 1] = pat
        i, j = np.argwhere(pat)[0]
        v[i, j, 0] = True
        return v
    if emb == "slab3-middle":
        v = np.zeros((m, k, 3), dtype=bool)
        v[:, :, 1] = pat
        i, j = np.argwhere(pat)[0]
        v[i, j, 0] = True
        i, j = np.argwhere(pat)[-1]
        v[i, j, 2] = True
        return v
    raise ValueError(emb)


def orientations(vol):
    seen, out = set(), []
    for perm in itertools.permutations(range(3)):
        w = np.transpose(vol, perm)
        for fz in (False, True):
            for fx in (False, True):
                u = w[:, :, ::-1] if fz else w
                u = u[::-1] if fx else u
                key = (u.shape, u.tobytes())
                if key not in seen:
                    seen.add(key)
                    out.append((f"perm{perm}-flipz{int(fz)}-flipx{int(fx)}", np.ascontiguousarray(u)))
    return out


# ------------------------------------------------------------------------------------------ judging
def _rfm_sig(x, got, shape):
    """classify a wrong RemoveFloatingMaterial answer by the failing-input class"""
    from mc.oracles import ptransform as PT

    exp = PT.keep_connected_to_bottom(x)
    if (got & ~exp).any():
        return "remove-floating:kept-floating-or-created-material", {}
    lost = exp & ~got
    if shape[2] == 1:
        return "remove-floating:nz=1:connected-material-removed", dict(lost=int(lost.sum()))
    # geodesic depth (face steps from the bottom-layer material) of the shallowest lost cell vs. the sweep count max(shape)
    seed = x & PT.bottom_seed(shape)
    cur, seen, d, dmin = seed.copy(), seed.copy(), 0, None
    while cur.any():
        if (cur & lost).any():
            dmin = d
            break
        nxt = np.zeros_like(cur)
        nxt[1:] |= cur[:-1]
        nxt[:-1] |= cur[1:]
        nxt[:, 1:] |= cur[:, :-1]
        nxt[:, :-1] |= cur[:, 1:]
        nxt[:, :, 1:] |= cur[:, :, :-1]
        nxt[:, :, :-1] |= cur[:, :, 1:]
        nxt &= x & ~seen
        seen |= nxt
        cur = nxt
        d += 1
    n = max(shape)
    cls = "geodesic-depth>max(shape)" if (dmin is not None and dmin > n) else "geodesic-depth<=max(shape)"
    return f"remove-floating:connected-material-removed:{cls}", dict(lost=int(lost.sum()), depth_of_first_lost_cell=dmin, max_shape=n)


def _raise_sig(kind, shape, e):
    """jax.scipy.signal.convolve2d(mode='same') refuses an image that is smaller than the 3x3 kernel along one axis only"""
    tname = "remove-floating" if kind.startswith("rfm") else "connect"
    eff = tuple(shape[:2]) + ((3,) if shape[2] == 1 and tname == "remove-floating" else (shape[2],))
    thin = any(min(eff[a], eff[b]) < 3 < max(eff[a], eff[b]) for a, b in ((0, 1), (0, 2), (1, 2)))
    if "smaller than the other in every dimension" in str(e) and thin:
        return f"{tname}:raises-ValueError:axis<3-next-to-axis>3"
    return f"{tname}:raises-ValueError:other"


def _mk(kind, shape, bg="low", three=False):
    from fdtdx.objects.device.parameters.discrete import ConnectHolesAndStructures, RemoveFloatingMaterial
    from mc.oracles import ptransform as PT

    if three:
        mats = PT.materials([1.0, 2.25, 4.0], names=["air", "fill", "core"])
        return PT.make(ConnectHolesAndStructures(fill_material="fill"), mats, shape, in_type="DISCRETE"), 0
    mats = PT.materials([1.0, 2.25], names=["air", "poly"])
    bgname = None if bg == "low" else "poly"
    cls = RemoveFloatingMaterial if kind == "rfm" else ConnectHolesAndStructures
    return PT.make(cls(background_material=bgname), mats, shape, in_type="BINARY"), (0 if bg == "low" else 1)


def run_case(case):
    from mc import guard

    guard.import_fdtdx()
    import jax
    import jax.numpy as jnp
    from mc.oracles import ptransform as PT

    fails, seen = [], set()
    evals, nontriv, outc = 0, 0, {}

    def fail(sig, detail):
        if sig not in seen:
            seen.add(sig)
            fails.append(dict(sig=sig, detail=detail))

    def bump(k, v=1):
        outc[k] = outc.get(k, 0) + int(v)

    def judge_rfm(X, G, shape, bg_idx, tag):
        """X, G: (B,*shape) material masks in / out"""
        nonlocal nontriv
        E = PT.batch_keep(X)
        PT.crosscheck(X, 97)
        nt = (X & ~E).any(axis=(1, 2, 3)) | E[:, :, :, 1:].any(axis=(1, 2, 3))
        nontriv += int(nt.sum())
        bump("rfm:unchanged", (E == X).all(axis=(1, 2, 3)).sum())
        bump("rfm:removed-some", ((E != X).any(axis=(1, 2, 3)) & E.any(axis=(1, 2, 3))).sum())
        bump("rfm:removed-all", ((E != X).any(axis=(1, 2, 3)) & ~E.any(axis=(1, 2, 3))).sum())
        bad = np.nonzero((G != E).any(axis=(1, 2, 3)))[0]
        done = set()
        for r in bad:
            sig, d = _rfm_sig(X[r], G[r], shape)
            if sig not in done:
                done.add(sig)
                fail(sig, dict(d, shape=list(shape), background_idx=bg_idx, where=tag, material_in=X[r].astype(int).tolist(), material_out=G[r].astype(int).tolist(), expected=E[r].astype(int).tolist(), n_failing_in_batch=int(len(bad))))
            if len(done) >= 4:
                break

    def judge_chs(X, G, shape, tag):
        nonlocal nontriv
        PT.crosscheck(G, 97)
        nt = PT.batch_floating(X).any(axis=(1, 2, 3)) | PT.batch_enclosed(X).any(axis=(1, 2, 3))
        nontriv += int(nt.sum())
        bump("connect:unchanged", (G == X).all(axis=(1, 2, 3)).sum())
        bump("connect:changed", (G != X).any(axis=(1, 2, 3)).sum())
        bump("connect:output-empty-from-nonempty-input", (X.any(axis=(1, 2, 3)) & ~G.any(axis=(1, 2, 3))).sum())
        fl = PT.batch_floating(G).any(axis=(1, 2, 3))
        en = PT.batch_enclosed(G).any(axis=(1, 2, 3))
        n = max(shape)
        for name, bad in (("floating-material-left", fl), ("enclosed-background-left", en)):
            if bad.any():
                r = int(np.argmax(bad))
                fail(f"connect:{name}:max(shape)={'<=4' if n <= 4 else '>4'}", dict(shape=list(shape), where=tag, material_in=X[r].astype(int).tolist(), material_out=G[r].astype(int).tolist(), n_failing_in_batch=int(bad.sum())))

    kind = case["kind"]
    if kind in ("rfm", "rfm-weight", "chs"):
        shape = tuple(case["shape"])
        ncell = int(np.prod(shape))
        t, bg_idx = _mk("rfm" if kind.startswith("rfm") else "chs", shape, case.get("bg", "low"))
        f = lambda x: t({"params": x})["params"]  # noqa: E731
        fb = jax.vmap(f)
        if kind == "rfm-weight":
            combos = np.fromiter(itertools.chain.from_iterable(itertools.combinations(range(ncell), case["weight"])), dtype=np.int64).reshape(-1, case["weight"])
            ranges = PT.chunks(len(combos), CH_R)
        else:
            ranges = [(case["lo"] + a, case["lo"] + b) for a, b in PT.chunks(case["hi"] - case["lo"], CH_R if kind == "rfm" else CH_C)]
        for ci, (lo, hi) in enumerate(ranges):
            if kind == "rfm-weight":
                bits = np.zeros((hi - lo, ncell), dtype=np.uint8)
                if case["weight"]:
                    np.put_along_axis(bits, combos[lo:hi], 1, axis=1)
            else:
                bits = PT.all_binary(ncell, lo, hi)
            X = bits.reshape((-1, *shape)).astype(bool)
            # index array handed to the transform: material = index != background index
            P = np.where(X, 1 - bg_idx, bg_idx).astype(np.float64)
            evals += len(X)
            try:
                O = np.asarray(fb(jnp.asarray(P)))
            except ValueError as e:
                fail(_raise_sig(kind, shape, e), dict(shape=list(shape), where="exhaustive", error=str(e)[:200]))
                break
            if O.shape != P.shape:
                fail(f"{kind}:shape-changed", dict(shape=list(shape), got=list(O.shape)))
                break
            if not np.isin(O, (0.0, 1.0)).all():
                fail(f"{kind}:output-not-an-index", dict(shape=list(shape)))
                break
            G = O != bg_idx
            if kind.startswith("rfm"):
                judge_rfm(X, G, shape, bg_idx, "exhaustive")
            else:
                judge_chs(X, G, shape, "exhaustive")
            if ci == 0:
                for r in sorted({0, len(X) // 3, len(X) - 1}):
                    o1 = np.asarray(f(jnp.asarray(P[r])))
                    evals += 1
                    if not np.array_equal(o1, O[r]):
                        fail("harness:vmap-differs-from-plain-call", dict(shape=list(shape), x=P[r].tolist()))
    elif kind == "chs3":
        shape = tuple(case["shape"])
        ncell = int(np.prod(shape))
        t, bg_idx = _mk("chs", shape, three=True)
        fb = jax.vmap(lambda x: t({"params": x})["params"])
        idx = np.arange(3**ncell)
        P = np.stack([(idx // 3**j) % 3 for j in range(ncell)], axis=1).reshape((-1, *shape)).astype(np.float64)
        for lo, hi in PT.chunks(len(P), CH_C):
            evals += hi - lo
            try:
                O = np.asarray(fb(jnp.asarray(P[lo:hi])))
            except ValueError as e:
                fail(_raise_sig("chs3", shape, e), dict(shape=list(shape), where="exhaustive-ternary", error=str(e)[:200]))
                break
            if O.shape != P[lo:hi].shape or not np.isin(O, (0.0, 1.0, 2.0)).all():
                fail("chs3:shape-or-index-invalid", dict(shape=list(shape)))
                break
            judge_chs(P[lo:hi] != 0, O != 0, shape, "exhaustive-ternary")
    else:
        jitted = {}
        pat = pattern(case["family"], case["m"], case["k"] or case["m"])
        vol = embed(pat, case["emb"])
        for name, v in orientations(vol):
            shape = v.shape
            for inverted in (False, True):
                x = ~v if inverted else v
                tag = f"{case['family']}({case['m']},{case['k']}) {case['emb']} {name}{' inverted' if inverted else ''}"
                for kind2 in ("rfm", "chs"):
                    if kind2 == "chs" and not (case.get("connect") and name.endswith("flipx0")):
                        continue
                    if (kind2, shape) not in jitted:  # one trace/compile per (transform, shape): the loop bodies are fresh closures on every eager call
                        t, bg_idx = _mk(kind2, shape)
                        jitted[(kind2, shape)] = jax.jit(lambda a, t=t: t({"params": a})["params"])
                    evals += 1
                    try:
                        o = np.asarray(jitted[(kind2, shape)](jnp.asarray(x.astype(np.float64))))
                    except ValueError as e:
                        fail(_raise_sig(kind2, shape, e), dict(shape=list(shape), where=tag, error=str(e)[:200]))
                        continue
                    if o.shape != shape or not np.isin(o, (0.0, 1.0)).all():
                        fail(f"{kind2}:shape-or-index-invalid", dict(shape=list(shape), where=tag))
                        continue
                    if kind2 == "rfm":
                        judge_rfm(x[None], (o != 0)[None], shape, 0, tag)
                    else:
                        judge_chs(x[None], (o != 0)[None], shape, tag)
    return dict(ok=not fails, failures=fails, detail={k: v for k, v in case.items() if k != "seed"}, nontrivial=nontriv, evals=evals, outcome=outc)
