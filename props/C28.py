"""C28 — static materials are painted by placement order (painter's rule).

Engine E2: overlapping static objects (every pair of x-intervals of a 4-cell axis; triples from an interval menu; a box
family with sphere / cylinder / extruded-polygon masks) x every placement-order assignment including ties (all weak
orderings) x every list order (volume position included) x material tier combinations (isotropic / diagonal / full tensor,
conductive, magnetic, magnetically lossy).  The real `place_objects` builds the arrays; a numpy oracle paints the same
scene cell by cell: winner = highest placement order, later list position wins ties, volume lowest.
"""
import itertools

ID = "C28"
LEVEL = "exploration"
MANIFEST = {
    "engine": "E2-enum",
    "technique": "bounded exhaustive enumeration of overlapping boxes/shapes x all weak placement orderings x all list orders x material tiers against a per-cell painter oracle",
    "text": "For every pair of box intervals on a 4-cell axis (and triples / sphere, cylinder, polygon masks from menus), every assignment of placement orders including ties, every order of the object list and a menu of material tier combinations, place_objects is executed and each cell of inv_permittivities, inv_permeabilities, electric and magnetic conductivity is compared with the material of the highest-order covering object (list order breaks ties, the volume is lowest); component counts must equal the widest tier any material (including unused dictionary entries) needs, a non-magnetic scene must store the scalar 1.0 and non-conductive scenes no conductivity array.",
    "note": "Material values come from a finite menu with pairwise distinct components (any component mix-up changes the result) plus one VERIF_SEED-derived permittivity; shape masks for spheres/cylinders/polygons come from the exact C43 oracle with radii that keep cell centres off the surface.",
}
RULE = (
    "case = (family, material combination, placement-order assignment, list order, volume material); inside a case every interval "
    "pair/triple is one arrangement (all arrangements of a case share one place_objects scene, one y-band each) and every shape variant one scene. An arrangement is non-trivial when at least one cell is covered by two or "
    "more non-volume objects (the order decides the cell); distinct = distinct (geometry, orders, list order, materials) tuples."
)
ASSUMPTIONS = [
    "material values from a finite menu (pairwise distinct tensor components, SPD full tensors, one VERIF_SEED-derived value)",
    "placement orders from {0,1,2} (all weak orderings); the volume keeps its default order -1000",
    "float64; inverse tensors compared at 1e-12 relative",
]
SP = 50e-9
TOL = 1e-12
C0 = 299792458.0


def _ivs(n):
    return [(lo, hi) for lo in range(n) for hi in range(lo + 1, n + 1)]


def _weak_orders(k):
    """All assignments of placement orders to k objects up to order-isomorphism (weak orderings), values 0..k-1."""
    out = []
    for t in itertools.product(range(k), repeat=k):
        vals = sorted(set(t))
        if vals == list(range(len(vals))):
            out.append(t)
    return out


def materials(seed):
    s = 1.3 + 3.0 * float((0.137 + (seed + 1) * 0.6180339887498949) % 1.0)
    full = (2.6, 0.3, 0.1, 0.3, 3.1, -0.2, 0.1, -0.2, 3.7)
    full_mu = (1.8, 0.2, 0.0, 0.2, 2.2, 0.1, 0.0, 0.1, 1.4)
    full_sig = (900.0, 100.0, 0.0, 100.0, 1400.0, 50.0, 0.0, 50.0, 2100.0)
    return {
        "vac": dict(),
        "iso": dict(permittivity=2.25),
        "iso2": dict(permittivity=4.0),
        "seed": dict(permittivity=s),
        "diag": dict(permittivity=(2.0, 3.0, 5.0)),
        "full": dict(permittivity=full),
        "cond": dict(permittivity=2.5, electric_conductivity=3000.0),
        "cond_diag": dict(permittivity=1.7, electric_conductivity=(1000.0, 2000.0, 4000.0)),
        "cond_full": dict(permittivity=(2.1, 2.2, 2.3), electric_conductivity=full_sig),
        "mag": dict(permittivity=1.5, permeability=2.0),
        "mag_diag": dict(permittivity=(1.2, 1.4, 1.6), permeability=(1.5, 2.5, 3.5), magnetic_conductivity=5.0e4),
        "mag_full": dict(permittivity=3.3, permeability=full_mu, magnetic_conductivity=(1.0e4, 2.0e4, 3.0e4)),
        "bg": dict(permittivity=1.44),
    }


COMBOS2 = [("iso", "iso2"), ("iso", "diag"), ("diag", "full"), ("iso", "cond"), ("cond", "cond_diag"), ("iso", "mag"), ("mag_diag", "cond_full"), ("mag_full", "seed")]
COMBOS3 = [("iso", "iso2", "seed"), ("diag", "cond", "mag"), ("full", "mag_diag", "cond_full")]
IV3 = [(0, 4), (0, 2), (1, 3), (2, 4)]


def cases(tier, seed):
    out = []
    k = 0
    for combo in COMBOS2:
        for orders in _weak_orders(2):
            for lo in itertools.permutations(range(2)):
                k += 1
                for vpos in (0, 1, 2):
                    if tier == "quick" and vpos != k % 3:
                        continue
                    out.append(dict(family="pairs", mats=list(combo), orders=list(orders), list_order=list(lo), vpos=vpos, volmat=("bg" if (k + vpos) % 2 else "vac"), seed=seed))
    combos3 = COMBOS3 if tier == "thorough" else COMBOS3[1:2]
    for combo in combos3:
        for orders in _weak_orders(3):
            for lo in itertools.permutations(range(3)):
                out.append(dict(family="triples", mats=list(combo), orders=list(orders), list_order=list(lo), vpos=(len(out) % 4), volmat="vac", seed=seed, ivs=(IV3 if tier == "thorough" else IV3[:3])))
    scombos = [("diag", "cond", "iso2"), ("full", "mag_diag", "cond_full")]  # role 1 = the sphere/cylinder/polygon object
    for combo in scombos:
        for orders in _weak_orders(3):
            for lo in itertools.permutations(range(3)):
                out.append(dict(family="shapes", mats=list(combo), orders=list(orders), list_order=list(lo), vpos=(len(out) % 4), volmat="vac", seed=seed))
    return out


def bounds(tier, seed):
    return {
        "pairs": "all 10x10 interval pairs on a 4-cell x axis (B additionally restricted in y,z) x 3 weak orderings x 2 list orders x volume position x 8 material combinations",
        "triples": f"{len(IV3 if tier == 'thorough' else IV3[:3])}^3 interval triples x 13 weak orderings x 6 list orders x {len(COMBOS3) if tier == 'thorough' else 1} material combinations",
        "shapes": "box + {sphere, cylinder, extruded polygon} + small box on 6x6x4, 13 weak orderings x 6 list orders, the shaped object carries an unused anisotropic material in its dictionary in one variant",
        "materials": sorted(materials(seed)),
        "tolerance": TOL,
        "seed": seed,
    }


# ------------------------------------------------------------------------------------------------ oracle
def _tier(tuples):
    import numpy as np

    iso = diag = True
    for t in tuples:
        t = np.asarray(t, dtype=float)
        off = t[[1, 2, 3, 5, 6, 7]]
        if np.any(off != 0):
            iso = diag = False
        if not (t[0] == t[4] == t[8]):
            iso = False
    return 1 if iso else (3 if diag else 9)


def _norm(v, default):
    if v is None:
        v = default
    if isinstance(v, (int, float)):
        return (float(v), 0.0, 0.0, 0.0, float(v), 0.0, 0.0, 0.0, float(v))
    v = tuple(float(x) for x in v)
    if len(v) == 3:
        return (v[0], 0.0, 0.0, 0.0, v[1], 0.0, 0.0, 0.0, v[2])
    return v


def _mat9(spec):
    return dict(
        eps=_norm(spec.get("permittivity"), 1.0),
        mu=_norm(spec.get("permeability"), 1.0),
        se=_norm(spec.get("electric_conductivity"), 0.0),
        sh=_norm(spec.get("magnetic_conductivity"), 0.0),
    )


def _comp(t9, n, invert):
    import numpy as np

    t9 = np.asarray(t9, dtype=float)
    if n == 9:
        return np.linalg.inv(t9.reshape(3, 3)).ravel() if invert else t9
    v = t9[[0]] if n == 1 else t9[[0, 4, 8]]
    return 1.0 / v if invert else v


def paint(shape, vol_spec, objs, all_specs, scale):
    """objs: list of (mask bool array over the full grid, material spec, order, list index). Returns expected arrays."""
    import numpy as np

    mats = [_mat9(s) for s in all_specs]
    n = {k: _tier([m[k] for m in mats]) for k in ("eps", "mu", "se", "sh")}
    nonmag = all(m["mu"] == _norm(None, 1.0) for m in mats)
    has = {k: any(any(x != 0 for x in m[k]) for m in mats) for k in ("se", "sh")}
    vm = _mat9(vol_spec)
    out = {
        "eps": np.broadcast_to(_comp(vm["eps"], n["eps"], True)[:, None, None, None], (n["eps"], *shape)).copy(),
        "mu": None if nonmag else np.broadcast_to(_comp(vm["mu"], n["mu"], True)[:, None, None, None], (n["mu"], *shape)).copy(),
        "se": np.broadcast_to((_comp(vm["se"], n["se"], False) * scale)[:, None, None, None], (n["se"], *shape)).copy() if has["se"] else None,
        "sh": np.broadcast_to((_comp(vm["sh"], n["sh"], False) * scale)[:, None, None, None], (n["sh"], *shape)).copy() if has["sh"] else None,
    }
    for mask, spec, _order, _li in sorted(objs, key=lambda o: (o[2], o[3])):
        m = _mat9(spec)
        for key, inv in (("eps", True), ("mu", True), ("se", False), ("sh", False)):
            if out[key] is None:
                continue
            v = _comp(m[key], n[key], inv) * (1.0 if inv else scale)
            out[key][:, mask] = v[:, None]
    return out, n, nonmag


# ------------------------------------------------------------------------------------------------ scenes
def _scenes(case):
    """Yield (descriptor, shape, [object descriptors]); an object is dict(kind, role, band, box | shape params).

    Pairs/triples: all arrangements live side by side in one scene, one y-band of 3 cells per arrangement (objects of
    different bands never overlap), because every place_objects call pays ~0.15 s of array allocation."""
    fam = case["family"]
    if fam == "pairs":
        arr = [(a, b) for a in _ivs(4) for b in _ivs(4)]
        objs = []
        for k, (a, b) in enumerate(arr):
            objs.append(dict(kind="box", role=0, band=k, box=[a, (3 * k, 3 * k + 3), (0, 2)]))
            objs.append(dict(kind="box", role=1, band=k, box=[b, (3 * k + 1, 3 * k + 3), (0, 1)]))
        yield dict(arrangements=len(arr)), (4, 3 * len(arr), 2), objs
    elif fam == "triples":
        arr = list(itertools.product([tuple(x) for x in case["ivs"]], repeat=3))
        objs = []
        for k, (a, b, c) in enumerate(arr):
            objs.append(dict(kind="box", role=0, band=k, box=[a, (3 * k, 3 * k + 3), (0, 2)]))
            objs.append(dict(kind="box", role=1, band=k, box=[b, (3 * k + 1, 3 * k + 3), (0, 1)]))
            objs.append(dict(kind="box", role=2, band=k, box=[c, (3 * k, 3 * k + 2), (0, 2)]))
        yield dict(arrangements=len(arr)), (4, 3 * len(arr), 2), objs
    else:
        shape = (6, 6, 4)
        for sh in (dict(kind="sphere", r=[2.2, 2.2, 1.6]), dict(kind="cylinder", r=1.7, axis=2, length=None), dict(kind="polygon", name="ell", axis=2, scale=1.0, closed=False, length=None)):
            for extra in (False, True):
                yield dict(shape_obj=sh, unused_aniso_material=extra), shape, [dict(kind="box", role=0, band=0, box=[(1, 5), (0, 3), (0, 4)]), dict(sh, role=1, band=0, extra=extra), dict(kind="box", role=2, band=0, box=[(2, 4), (2, 5), (1, 3)])]


def run_case(case):
    import jax
    import jax.numpy as jnp
    import numpy as np

    from mc import guard
    from props import C43

    fdtdx = guard.import_fdtdx()
    M = materials(case["seed"])
    fails = []
    evals = nontriv = 0
    outcome = {}
    for desc, shape, odescs in _scenes(case):
        cfg = fdtdx.SimulationConfig(time=1e-15, grid=fdtdx.UniformGrid(spacing=SP), backend="cpu", dtype=jnp.float64)
        vol = fdtdx.SimulationVolume(name="volume", partial_grid_shape=shape, material=fdtdx.Material(**M[case["volmat"]]))
        objs, cons, specs_all = [], [], [M[case["volmat"]]]
        for i, od in enumerate(odescs):
            spec = M[case["mats"][od["role"]]]
            order = case["orders"][od["role"]]
            nm = f"o{i}"
            if od["kind"] == "box":
                o = fdtdx.UniformMaterialObject(name=nm, material=fdtdx.Material(**spec), placement_order=order)
                cons.append(o.set_grid_coordinates(axes=(0, 1, 2), sides=("-", "-", "-"), coordinates=tuple(b[0] for b in od["box"])))
                cons.append(o.set_grid_coordinates(axes=(0, 1, 2), sides=("+", "+", "+"), coordinates=tuple(b[1] for b in od["box"])))
                specs_all.append(spec)
            else:
                md = {"m": fdtdx.Material(**spec)}
                specs_all.append(spec)
                if od.get("extra"):
                    md["unused"] = fdtdx.Material(**M["full"])
                    specs_all.append(M["full"])
                if od["kind"] == "sphere":
                    o = fdtdx.Sphere(name=nm, materials=md, material_name="m", radius=od["r"][0] * SP, radius_x=od["r"][0] * SP, radius_y=od["r"][1] * SP, radius_z=od["r"][2] * SP, placement_order=order)
                    cons.append(o.place_at_center(vol, axes=(0, 1, 2)))
                elif od["kind"] == "cylinder":
                    o = fdtdx.Cylinder(name=nm, materials=md, material_name="m", radius=od["r"] * SP, axis=od["axis"], placement_order=order)
                    cons.append(o.place_at_center(vol, axes=(0, 1)))
                else:
                    v = np.asarray(C43._polygons()[od["name"]], dtype=float) * SP
                    o = fdtdx.ExtrudedPolygon(name=nm, materials=md, material_name="m", axis=od["axis"], vertices=v, placement_order=order)
                    cons.append(o.place_at_center(vol, axes=(0, 1)))
            objs.append(o)
        ordered = [objs[i] for r in case["list_order"] for i, od in enumerate(odescs) if od["role"] == r]
        olist = ordered[: case["vpos"]] + [vol] + ordered[case["vpos"] :]
        oc, arrays, _p, config, _info = fdtdx.place_objects(olist, cfg, cons, key=jax.random.PRNGKey(0))
        nb = 1 + max(od["band"] for od in odescs)
        evals += nb
        scale = C0 * config.time_step_duration / config.courant_number
        if abs(scale - SP) > 1e-9 * SP:
            raise RuntimeError("harness: conductivity scale on a uniform grid should equal the spacing")
        # masks over the full grid
        E = [(-shape[a] / 2.0 + np.arange(shape[a] + 1)) * SP for a in range(3)]
        painted = []
        cover = np.zeros(shape, dtype=int)
        for i, od in enumerate(odescs):
            placed = oc[f"o{i}"]
            sl = [tuple(x) for x in placed.grid_slice_tuple]
            mask = np.zeros(shape, dtype=bool)
            if od["kind"] == "box":
                if [list(x) for x in sl] != [list(b) for b in od["box"]]:
                    raise RuntimeError("harness: box not placed where requested")
                mask[tuple(slice(*b) for b in od["box"])] = True
            else:
                tri = C43.expected_mask(od, sl, E)
                if np.any(tri == 0):
                    raise RuntimeError("harness: shape menu must keep cell centres off the surface")
                mask[tuple(slice(*b) for b in sl)] = tri == 1
            cover += mask
            painted.append((mask, M[case["mats"][od["role"]]], case["orders"][od["role"]], case["list_order"].index(od["role"])))
        want, n, nonmag = paint(shape, M[case["volmat"]], painted, specs_all, SP)
        if nb == 1:
            nontriv += int(np.max(cover) >= 2)
        else:
            nontriv += sum(int(np.max(cover[:, 3 * b : 3 * b + 3, :]) >= 2) for b in range(nb))
        full = dict(desc, mats=case["mats"], orders=case["orders"], list_order=case["list_order"], vpos=case["vpos"], volmat=case["volmat"])
        got = {
            "eps": np.asarray(arrays.inv_permittivities),
            "mu": arrays.inv_permeabilities,
            "se": None if arrays.electric_conductivity is None else np.asarray(arrays.electric_conductivity),
            "sh": None if arrays.magnetic_conductivity is None else np.asarray(arrays.magnetic_conductivity),
        }
        if nonmag:
            if not (isinstance(got["mu"], (int, float)) and float(got["mu"]) == 1.0):
                fails.append(dict(sig="non-magnetic-scene-does-not-store-scalar-1", detail=dict(full, got=str(type(got["mu"])))))
            got["mu"] = None
        else:
            got["mu"] = np.asarray(got["mu"])
            if got["mu"].ndim != 4:
                fails.append(dict(sig="magnetic-scene-without-permeability-array", detail=full))
                got["mu"] = None
        tie = "tie" if len(set(case["orders"])) < len(case["orders"]) else "strict"
        for key in ("eps", "mu", "se", "sh"):
            g, w = got[key], want[key]
            if (g is None) != (w is None):
                fails.append(dict(sig=f"{key}:array-presence", detail=dict(full, got=None if g is None else g.shape, want=None if w is None else w.shape)))
                continue
            if g is None:
                continue
            if g.shape != w.shape:
                fails.append(dict(sig=f"{key}:component-count", detail=dict(full, got=g.shape, want=w.shape)))
                continue
            err = np.abs(g - w) / max(1e-300, float(np.max(np.abs(w))))
            if float(np.max(err)) > TOL:
                idx = np.unravel_index(int(np.argmax(err)), err.shape)
                band = [od["box"] for od in odescs if od["kind"] == "box" and od["band"] == idx[2] // 3] if nb > 1 else None
                fails.append(dict(sig=f"{key}:cell-value:{case['family']}:{tie}-orders:tier{w.shape[0]}", detail=dict(full, index=[int(x) for x in idx], got=float(g[idx]), want=float(w[idx]), covering=int(cover[idx[1:]]), boxes_of_failing_arrangement=band, cells_wrong=int(np.sum(err > TOL)))))
        key = f"tiers eps{n['eps']}/mu{'-' if nonmag else n['mu']}/se{'-' if want['se'] is None else n['se']}/sh{'-' if want['sh'] is None else n['sh']}"
        outcome[key] = outcome.get(key, 0) + 1
    seen, flist = set(), []
    for f in fails:
        if f["sig"] not in seen:
            seen.add(f["sig"])
            f["detail"]["failing_scenes_with_this_sig_in_case"] = sum(1 for g in fails if g["sig"] == f["sig"])
            flist.append(f)
    return dict(ok=not flist, failures=flist, nontrivial=nontriv, evals=evals, outcome=outcome, detail=outcome)
