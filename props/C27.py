"""C27 — placement does not depend on the order of the object list or of the constraint list.

Engine E3: for every constraint system of the C26 space (same alphabet, same multisets), *every* permutation of the object
list (volume included) and *every* distinct permutation of the constraint list is handed to the real
`resolve_object_constraints`; the canonical outcome (success flag, and the slices when successful) must be a single state.
"""
import itertools
import json

ID = "C27"
LEVEL = "model_checking"
MANIFEST = {
    "engine": "E3-bfs",
    "technique": "explicit-state exploration of all permutations of object and constraint lists on the real resolver",
    "text": "For every constraint system of the bounded space (volume + objects a,b[,c], every multiset of at most 2 (quick) / 3 (thorough) entries of a 72-element alphabet of all five constraint kinds, each axis, uniform and non-uniform grids) the real resolver is run on every permutation of the object list (3! or 4!) combined with every distinct permutation of the constraint list; the set of reached canonical outcomes (success flag + resolved slices) must have exactly one element.",
    "note": "Schedules are enumerated completely per system; the systems themselves come from a finite alphabet. Slices are compared only between successful resolutions (a failed placement has no resolved slices through the public API). The smallest systems are replayed through place_objects in original and reversed order.",
}
RULE = (
    "case = (grid kind, primary axis, object template, multiset size k, smallest alphabet index); for every system of the case every "
    "(object permutation, distinct constraint permutation) pair is one transition = one real resolve_object_constraints call; a state is "
    "a distinct canonical outcome (success flag, slices if successful) of one system. A system is non-trivial when it has at least two "
    "distinct schedules and resolution succeeds with some object strictly smaller than the volume; distinct = distinct systems."
)
ASSUMPTIONS = [
    "constraint systems come from the finite alphabet of C26 (real values: edge hits, ties, non-integer multiples, out-of-domain, one VERIF_SEED value per kind)",
    "for failed placements only the success flag is compared (no slices are exposed by place_objects)",
]
CONF_TEMPLATES = (0, 3)


def cases(tier, seed):
    from props import C26

    out = []
    for c in C26.cases(tier, seed):
        c = dict(c)
        if c.get("chain"):
            c["conf"] = False
            out.append(c)
            continue
        if tier == "thorough" and c["k"] == 3 and not (c["ax"] == 0 and (c["grid"] == "uniform" or (c["grid"] == "rect_distinct" and c["tmpl"] in (0, 3)))):
            continue  # 36 schedules per 3-constraint system: non-uniform grids are covered completely for k<=2 (see bounds)
        if tier == "thorough" and c["with_c"] and (c["grid"] == "rect_seed" or c["tmpl"] % 2 or (c["k"] == 2 and c["ax"] != 0)):
            continue  # 4 objects = 24 object orders: every second template, two grids
        c["conf"] = c["k"] <= 1 and not c["with_c"] and c["tmpl"] in CONF_TEMPLATES
        out.append(c)
    return out


def bounds(tier, seed):
    from props import C26

    b = C26.bounds(tier, seed)
    b["schedules"] = "all permutations of the object list (volume included: 3! / 4!) x all distinct permutations of the constraint list"
    if tier == "thorough":
        b["note"] = "3-constraint systems: primary axis x, uniform grid (all templates) and rect_distinct (templates 0 and 3); <=2 constraints: all grids, axes, templates; 4-object systems (<=2 constraints): uniform and rect_distinct, every second template, two-constraint systems on axis x"
    b["place_objects_conformance"] = "systems with <=1 entry on templates 0 and 3: original and fully reversed lists through place_objects"
    return b


def _resolve_raw(objs, cons, cfg):
    """One transition: the real resolver on one schedule; (success, slices as returned, error texts)."""
    from fdtdx.fdtd.initialization import resolve_object_constraints

    try:
        sl, err = resolve_object_constraints(objects=objs, constraints=cons, config=cfg)
    except Exception as e:  # documented hard errors
        return False, None, {"_raise": f"{type(e).__name__}: {e}"[:300]}
    bad = {k: str(v)[:200] for k, v in err.items() if v}
    ok = not bad and not any(x is None for s in sl.values() for ax in s for x in ax)
    return ok, sl, bad


def run_case(case):
    from mc.oracles import placement as P
    from props import C26

    fails = {}
    outcome = {}
    states = transitions = traces = nontriv = 0

    def add(sig, detail, size):
        cur = fails.get(sig)
        if cur is None:
            fails[sig] = dict(sig=sig, detail=detail, _size=size, _count=1)
        else:
            cur["_count"] += 1
            if size < cur["_size"]:
                cur.update(detail=detail, _size=size)

    for _ms, s in C26.systems_of(case):
        objs, cons, cfg, cfg_raw = P.build(s)
        size = len(s["constraints"]) + sum(x is not None for o in s["objects"] for x in o["rpos"] + o["gshape"] + o["rshape"])
        operms = list(itertools.permutations(range(len(objs))))
        cperms = sorted(set(itertools.permutations(range(len(cons)))))
        # permutations that are identical as *lists* (repeated constraint) are one schedule
        seen_c, cp2 = set(), []
        for cp in cperms:
            key = tuple(json.dumps(s["constraints"][i], sort_keys=True) for i in cp)
            if key not in seen_c:
                seen_c.add(key)
                cp2.append(cp)
        cperms = cp2
        reached = {}
        olists = [[objs[i] for i in op] for op in operms]
        clists = [[cons[i] for i in cp] for cp in cperms]
        for op, ol in zip(operms, olists):
            for cp, cl in zip(cperms, clists):
                ok, sl, err = _resolve_raw(ol, cl, cfg)
                transitions += 1
                key = (ok, tuple(sorted(sl.items())) if ok else None)
                hit = reached.get(key)
                if hit is None:
                    slices = {k: [list(ax) for ax in v] for k, v in sl.items()} if sl is not None else None
                    reached[key] = [(op, cp, ok, slices, err)]
                else:
                    hit.append((op, cp, ok, None, None))
        states += len(reached)
        ref = reached[next(iter(reached))][0]
        outcome["success" if ref[2] else "rejected"] = outcome.get("success" if ref[2] else "rejected", 0) + 1
        if len(operms) * len(cperms) > 1 and ref[2] and P.binds(s, ref[3]):
            nontriv += 1
        if len(reached) > 1:
            flags = {k[0] for k in reached}
            what = "success-flag-depends-on-order" if len(flags) > 1 else "slices-depend-on-order"
            # which list matters: vary one while the other keeps its original order
            id_o, id_c = operms[0], cperms[0]
            by_o = {k for k, v in reached.items() if any(x[1] == id_c for x in v)}
            by_c = {k for k, v in reached.items() if any(x[0] == id_o for x in v)}
            axis = "+".join(n for n, b in (("object-order", len(by_o) > 1), ("constraint-order", len(by_c) > 1)) if b) or "joint-order-only"
            kinds = "+".join(sorted({c["k"] for c in s["constraints"]} | ({"own-rpos"} if any(x is not None for o in s["objects"] for x in o["rpos"]) else set())))
            examples = []
            for k, v in reached.items():
                op, cp, ok, slices, err = v[0]
                examples.append(dict(object_order=[(["v"] + [o["name"] for o in s["objects"]])[i] for i in op], constraint_order=list(cp), success=ok, slices=slices if ok else None, errors=None if ok else err, schedules_with_this_outcome=len(v)))
            add(f"{what}:{axis}:{kinds}", dict(system=P.describe(s), outcomes=examples), size)
        if case.get("conf"):
            ok0, sl0 = ref[2], ref[3]
            for rev in (False, True):
                o2 = list(reversed(objs)) if rev else objs
                c2 = list(reversed(cons)) if rev else cons
                f = C26.place_conformance(P, s, o2, c2, cfg_raw, ok0, sl0)
                traces += 1
                if f is not None:
                    add("place_objects:" + f["sig"] + (":reversed-lists" if rev else ""), f["detail"], size)
    flist = []
    for f in sorted(fails.values(), key=lambda f: f["_size"]):
        d = dict(f["detail"])
        d["failing_systems_in_case"] = f["_count"]
        flist.append(dict(sig=f["sig"], detail=C26._plain(d)))
    return dict(ok=not flist, failures=flist, detail=dict(outcome), nontrivial=nontriv, evals=transitions + traces, states=states, transitions=transitions, traces=traces, outcome=outcome)
