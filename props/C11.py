"""C11 — forcing complex field storage reproduces the real-valued run (zero Bloch phase).

Engine E1, two-system comparison: the same scene is built with use_complex_fields=None (real) and =True (complex).
Both real step functions (forward + detector update) are evaluated on the complete row set of mc.tables (zero, every
basis state, affinity rows, pairs for quadratic records, zero+dense probes at every time index). Oracle: for every
row the complex system's next state has real part equal to the real system's and zero imaginary part, and all detector
records agree.
"""
import numpy as np

ID = "C11"
LEVEL = "model_checking"
MANIFEST = {
    "engine": "E1-linsys",
    "technique": "explicit-state model checking: two transition tables (real and complex storage) tabulated on all basis states and compared entrywise, detector record maps included",
    "text": "For each scene of the menu (PML/periodic/PEC/PMC face mixes, plane/dipole/TFSF sources, every detector kind) both storage modes are tabulated through the real forward step on every basis state and at every time index for the source offsets; equality of the two tables (real parts equal, imaginary part zero, records equal) decides the property for every real initial field and, by induction over steps, whole runs.",
    "note": "Field detectors appear both with a real dtype (the user keeps the default kind of detector when switching storage) and with a complex dtype; quadratic records are compared on basis singles, all pairs of the detector-cell index set and dense probes; values from finite alphabets; float64/complex128.",
}
RULE = (
    "case = (faces, source, detector set, materials, grid) from menus with deviation bound; rows = zero + all basis states (E,H,psi) + "
    "affinity rows + pairs over the detector-cell indices + zero/dense probes at every t. Non-trivial = the scene has a source with a non-zero "
    "offset or a detector whose record matrix is non-zero (measured); distinct = distinct case tuples."
)
ASSUMPTIONS = ["float64/complex128 representative of float32/complex64", "values from finite alphabets"]
TOL = 1e-9
T = 6
SHAPE = [5, 5, 6]

FACES = [
    ("pmlz1/periodic/pecpmc", {"x": "periodic", "y": ("pec", "pmc"), "z": "pml"}, 1),
    ("pml-all-1", {"x": "pml", "y": "pml", "z": "pml"}, 1),
    ("periodic3", {"x": "periodic", "y": "periodic", "z": "periodic"}, 1),
    ("none3", {"x": "none", "y": "none", "z": "none"}, 1),
    ("pmlx2/pmc/pec", {"x": "pml", "y": ("pmc", "pmc"), "z": ("pec", "none")}, 2),
    ("bloch0/periodic/pml", {"x": "bloch", "y": "periodic", "z": "pml"}, 1),
]
W = {"wavelength": 0.6e-6}
WC = [W]


def sources_for(shape):
    nx, ny, nz = shape
    cx, cy = nx // 2, ny // 2
    return [
        ("plane+z", dict(kind="plane", box=[[0, nx], [0, ny], [2, 3]], direction="+", fixed_E_polarization_vector=[1, 0, 0], wave=W)),
        ("none", None),
        ("dipEz", dict(kind="dipole", box=[[cx, cx + 1], [cy, cy + 1], [3, 4]], polarization=2, wave=W)),
        ("dipMx", dict(kind="dipole", box=[[cx, cx + 1], [cy, cy + 1], [3, 4]], polarization=0, source_type="magnetic", wave=W)),
        ("gauss-z", dict(kind="gauss", box=[[0, nx], [0, ny], [3, 4]], direction="-", fixed_E_polarization_vector=[0, 1, 0], radius=100e-9, wave=W)),
        ("plane+x-pulse", dict(kind="plane", box=[[cx, cx + 1], [0, ny], [0, nz]], direction="+", fixed_E_polarization_vector=[0, 0, 1], wave=W, profile=dict(kind="gauss", spectral_width={"frequency": 1.6e15}, center_wave=W), switch=dict(interval=2))),
    ]


def dets_for(shape):
    nx, ny, nz = shape
    return [
        ("field+energy", [dict(kind="field", box=[[1, 3], [2, 3], [2, 4]], dtype="f64"), dict(kind="energy", box=[[2, 3], [2, 3], [3, 4]])]),
        ("poynting+phasor", [dict(kind="poynting", box=[[1, 3], [1, 3], [3, 4]], direction="+"), dict(kind="phasor", box=[[2, 3], [1, 3], [2, 3]], wave_characters=WC)]),
        ("closed+phasorpoynting", [dict(kind="closed", box=[[1, 3], [1, 3], [2, 4]]), dict(kind="phasor_poynting", box=[[1, 3], [2, 3], [2, 4]], direction="-", wave_characters=WC, fixed_propagation_axis=1)]),
        ("field-raw-edge+energy-reduced", [dict(kind="field", box=[[0, 2], [0, ny], [0, 1]], exact_interpolation=False, components=["Ey", "Hz"], dtype="f64"), dict(kind="energy", box=[[0, nx], [0, 2], [nz - 2, nz]], reduce_volume=True)]),
        ("closedphasor+field-reduced", [dict(kind="closed_phasor", box=[[1, nx - 1], [1, ny - 1], [2, nz - 1]], wave_characters=WC), dict(kind="field", box=[[nx - 2, nx], [ny - 2, ny], [nz - 3, nz]], reduce_volume=True, switch=dict(interval=2))]),
    ]


SOURCES = sources_for(SHAPE)
DETS = dets_for(SHAPE)
MATS = [
    ("iso", dict(eps={"tier": "iso", "pat": "distinct", "lo": 1.0, "hi": 3.0})),
    ("diag+mu", dict(eps={"tier": "diag", "pat": "distinct", "lo": 1.0, "hi": 3.0}, mu={"tier": "iso", "pat": "seed", "lo": 1.0, "hi": 2.0})),
    ("iso+sig", dict(eps={"tier": "iso", "pat": "seed", "lo": 1.0, "hi": 3.0}, sig_e={"tier": "iso", "pat": "some"})),
]
GRIDS = [("uniform", "uniform"), ("rect_distinct", "rect_distinct")]
DIMS = ["faces", "src", "dets", "mats", "grid"]


def cases(tier, seed):
    from mc import menus as m

    sizes = [len(FACES), len(SOURCES), len(DETS), len(MATS), len(GRIDS)]
    if tier == "quick":
        idx = m.enumerate_deviations(sizes, 2, pairs_only={frozenset((0, 2))})
    else:
        idx = m.enumerate_deviations(sizes, 3)
    return [dict(idx=list(t), seed=seed) for t in idx]


def bounds(tier, seed):
    return {
        "menus": {"faces": [f[0] for f in FACES], "src": [s[0] for s in SOURCES], "dets": [d[0] for d in DETS], "mats": [x[0] for x in MATS], "grid": [g[0] for g in GRIDS]},
        "deviation_bound": "quick: <=1 + (faces,dets) pairs; thorough: <=3",
        "rows": "zero + all basis states (E,H,psi) + affinity + detector-cell pairs + zero/dense probes at every t in [0,T)",
        "T": T,
        "tolerance": TOL,
    }


def spec_of(case, complex_, shape=None):
    from mc import scenes

    i = case["idx"]
    shape = SHAPE if shape is None else shape
    fname, fax, th = FACES[i[0]]
    SOURCES, DETS = sources_for(shape), dets_for(shape)
    spec = dict(shape=shape, faces=scenes.faces_from_axes([fax["x"], fax["y"], fax["z"]]), pml=th, steps=T, seed=case["seed"], grid=GRIDS[i[4]][1])
    spec.update(MATS[i[3]][1])
    if SOURCES[i[1]][1] is not None:
        spec["sources"] = [SOURCES[i[1]][1]]
    spec["detectors"] = [dict(d) for d in DETS[i[2]][1]]
    if complex_:
        spec["complex"] = True
    return spec


def det_cells_index_set(sc, codec, limit=36):
    """E and H component indices of the detector cells (first cells of each detector box)."""
    idx = []
    for d in sc.objects.detectors:
        gs = d.grid_slice_tuple
        cells = [(x, y, z) for x in range(gs[0][0], gs[0][1]) for y in range(gs[1][0], gs[1][1]) for z in range(gs[2][0], gs[2][1])][:3]
        for cell in cells:
            for c in range(3):
                idx.append(codec.index_of(("E",), (c, *cell)))
                idx.append(codec.index_of(("H",), (c, *cell)))
    out = []
    for j in idx:
        if j not in out:
            out.append(j)
    return out[:limit]


def run_case(case):
    from mc import linsys, scenes, tables

    names = {d: m[i][0] for d, m, i in zip(DIMS, [FACES, SOURCES, DETS, MATS, GRIDS], case["idx"])}
    try:
        scA = scenes.build(spec_of(case, False))
        scB = scenes.build(spec_of(case, True))
    except Exception as e:
        if not (isinstance(e, (ValueError, NotImplementedError)) or "not supported" in repr(e) or "NotImplementedError" in repr(e)):
            raise
        return dict(ok=True, detail={"rejected": repr(e)[:300], "names": names}, nontrivial=0, evals=1, states=1, transitions=1, traces=0, outcome="rejected-by-placement")
    cA, cB = linsys.Codec(scA.arrays), linsys.Codec(scB.arrays)
    assert cA.n == cB.n and not cA.is_complex and cB.is_complex, (cA.n, cB.n, cA.dtype, cB.dtype)
    n = cA.n
    keep = linsys.wall_keep(scA, cA)
    rows = tables.Rows(n, False, T, t0s=(0,), pair_idx=det_cells_index_set(scA, cA), seed=case["seed"], keep=keep)
    YA, OA = tables.run(scA, cA, rows.tvec, rows.X)
    YB, OB = tables.run(scB, cB, rows.tvec, rows.X.astype(np.complex128))
    fails = []
    sY = max(1.0, float(np.max(np.abs(YA))))
    sO = max(1e-300, float(np.max(np.abs(OA)))) if OA.size else 1.0
    dre = float(np.max(np.abs(YB.real - YA))) / sY
    dim = float(np.max(np.abs(YB.imag))) / sY
    layA, layB = tables.det_layout(scA.arrays.detector_states), tables.det_layout(scB.arrays.detector_states)
    same_layout = [(a[0], a[1], a[2]) for a in layA] == [(b[0], b[1], b[2]) for b in layB]
    dO = float(np.max(np.abs(OB - OA))) / sO if (OA.size and same_layout) else (0.0 if same_layout else float("inf"))
    daff = max(tables.affinity_defect(rows, YA, 0), tables.affinity_defect(rows, YB, 0)) / sY
    detail = dict(names=names, n=n, rows=len(rows.tvec), real_part_defect=dre, imag_part=dim, record_defect=dO, affinity_defect=daff, record_scale=sO)
    if dre > TOL:
        fails.append(dict(sig="complex-run-real-part-differs", detail=detail))
    if dim > TOL:
        fails.append(dict(sig="complex-run-imaginary-part-nonzero", detail=detail))
    if dO > TOL:
        r = int(np.argmax(np.max(np.abs(OB - OA), axis=1))) if same_layout else -1
        fails.append(dict(sig="detector-records-differ", detail=dict(detail, worst_row_label=str(rows.labels[r]) if r >= 0 else "layout")))
    if daff > TOL:
        fails.append(dict(sig="step-not-affine", detail=detail))
    M, b, R, r0 = tables.table(rows, YA, OA, 0)
    bmax = max(float(np.max(np.abs(YA[rows.index[("zero_t", t)]]))) for t in range(T))
    nontriv = (bmax > 0) or (R.size and float(np.max(np.abs(R))) > 0) or sO > 1e-200
    return dict(ok=not fails, failures=fails, detail=detail, nontrivial=int(bool(nontriv)), evals=2 * len(rows.tvec), states=2 * len(rows.tvec), transitions=2 * len(rows.tvec), traces=0, outcome=f"src={'y' if bmax > 0 else 'n'},rec={'y' if sO > 1e-200 and OA.size else 'n'}")
