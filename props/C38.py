"""C38 — equivalent grid descriptions give identical simulations.

Engine E1, three-system comparison: the same scene on UniformGrid(spacing), on an explicit RectilinearGrid with the same
equal spacings and on QuasiUniformGrid(dx=dy=dz). The real forward step + detector update of each is evaluated on the
complete row set (zero, every basis state, affinity rows, detector-cell pairs, zero/dense probes at every time index);
all next states and all detector records must coincide.
"""
import numpy as np

ID = "C38"
LEVEL = "model_checking"
MANIFEST = {
    "engine": "E1-linsys",
    "technique": "explicit-state model checking: three transition tables (uniform policy, explicit rectilinear, quasi-uniform) tabulated on all basis states and compared entrywise, detector record maps and source offsets at every time index included",
    "text": "For each scene of the menu (all boundary kinds incl. PML, plane/Gaussian/dipole sources, every detector kind, material tiers) the three grid descriptions are placed through place_objects and their real forward steps are tabulated on every basis state; equal tables mean equal fields and records for every input and any number of steps.",
    "note": "Same physical origin for all three descriptions; float64; quadratic records compared on singles, detector-cell pairs and dense probes.",
}
RULE = (
    "case = (faces, source, detector set, materials) index tuple with deviation bound; three scenes per case. Non-trivial = the scene has a "
    "non-zero source offset or a non-zero detector record (measured); distinct = distinct tuples."
)
ASSUMPTIONS = ["float64 representative of float32", "values from finite alphabets", "the three descriptions share the physical origin (centred domain)"]
TOL = 1e-9
GRIDS3 = ["uniform", "rect_uniform", "quasi", "rect_uniform_origin0"]
SHAPE38 = [4, 6, 6]  # QuasiUniformGrid requires even cell counts


def _c11():
    import props.C11 as c11

    return c11


def cases(tier, seed):
    from mc import menus as m

    c = _c11()
    sizes = [len(c.FACES), len(c.SOURCES), len(c.DETS), len(c.MATS) + 1]  # extra materials entry: block placed by real position
    if tier == "quick":
        idx = m.enumerate_deviations(sizes, 1)
    else:
        idx = m.enumerate_deviations(sizes, 2)
    return [dict(idx=list(t), seed=seed) for t in idx]


def bounds(tier, seed):
    c = _c11()
    return {
        "menus": {"faces": [f[0] for f in c.FACES], "src": [s[0] for s in c.SOURCES], "dets": [d[0] for d in c.DETS], "mats": [x[0] for x in c.MATS]},
        "grids": GRIDS3,
        "extra_materials_entry": "a material block placed through partial_real_position/partial_real_shape (centre-relative metres)",
        "deviation_bound": 1 if tier == "quick" else 2,
        "rows": "zero + all basis states + affinity + detector-cell pairs + zero/dense probes at every t",
        "tolerance": TOL,
    }


def run_case(case):
    from mc import linsys, scenes, tables

    c = _c11()
    i = case["idx"]
    placed = i[3] == len(c.MATS)
    names = dict(faces=c.FACES[i[0]][0], src=c.SOURCES[i[1]][0], dets=c.DETS[i[2]][0], mats="placed-block-by-real-position" if placed else c.MATS[i[3]][0])
    scs = []
    try:
        for g in GRIDS3:
            spec = c.spec_of(dict(idx=[i[0], i[1], i[2], 0 if placed else i[3], 0], seed=case["seed"]), False, shape=SHAPE38)
            spec["grid"] = g
            if g == "rect_uniform_origin0":
                # explicit equal-spacing edges that are NOT centred on 0 (lower corner at the origin)
                spec["grid"] = {"edges": [[50e-9 * k for k in range(SHAPE38[a] + 1)] for a in range(3)]}
            if placed:
                import fdtdx

                for k in ("eps", "mu", "sig_e", "sig_h"):
                    spec.pop(k, None)
                d = 50e-9
                blk = fdtdx.UniformMaterialObject(name="blk", partial_real_shape=(2 * d, 1 * d, 2 * d), partial_real_position=(0.0, -1.5 * d, 1.0 * d), material=fdtdx.Material(permittivity=2.5, permeability=1.5))
                spec["_extra_objects"] = [(blk, [])]
            scs.append(scenes.build(spec))
    except Exception as e:
        if not (isinstance(e, (ValueError, NotImplementedError)) or "not supported" in repr(e) or "NotImplementedError" in repr(e)):
            raise
        return dict(ok=True, detail={"rejected": repr(e)[:300], "names": names}, nontrivial=0, evals=1, states=1, transitions=1, traces=0, outcome="rejected-by-placement")
    codecs = [linsys.Codec(s.arrays) for s in scs]
    n = codecs[0].n
    fails = []
    detail = dict(names=names, n=n)
    if any(cc.n != n for cc in codecs) or any(s.T != scs[0].T for s in scs):
        fails.append(dict(sig="different-state-layout-or-step-count", detail=dict(n=[cc.n for cc in codecs], T=[s.T for s in scs])))
        return dict(ok=False, failures=fails, detail=detail, nontrivial=1, evals=1, states=1, transitions=1, traces=0)
    if placed:
        sl = [tuple(s.objects["blk"].grid_slice_tuple) for s in scs]
        detail["block_slices"] = [str(x) for x in sl]
        if any(x != sl[0] for x in sl):
            fails.append(dict(sig="object-placed-by-real-position-lands-on-different-cells", detail=dict(detail)))
    dts = [s.config.time_step_duration for s in scs]
    if max(dts) - min(dts) > 1e-12 * max(dts):
        fails.append(dict(sig="different-time-step", detail=dict(dt=dts)))
    keep = linsys.wall_keep(scs[0], codecs[0])
    rows = tables.Rows(n, bool(codecs[0].is_complex), c.T, t0s=(0,), pair_idx=c.det_cells_index_set(scs[0], codecs[0]), seed=case["seed"], keep=keep)
    outs = [tables.run(s, cc, rows.tvec, rows.X) for s, cc in zip(scs, codecs)]
    Y0, O0 = outs[0]
    sY = max(1.0, float(np.max(np.abs(Y0))))
    sO = max(1e-300, float(np.max(np.abs(O0)))) if O0.size else 1.0
    for g, (Y, O) in zip(GRIDS3[1:], outs[1:]):
        dY = float(np.max(np.abs(Y - Y0))) / sY
        dO = float(np.max(np.abs(O - O0))) / sO if O.shape == O0.shape and O.size else (0.0 if O.shape == O0.shape else float("inf"))
        detail[f"state_defect_{g}"] = dY
        detail[f"record_defect_{g}"] = dO
        if dY > TOL:
            r = int(np.argmax(np.max(np.abs(Y - Y0), axis=1)))
            fails.append(dict(sig=f"fields-differ:{g}-vs-uniform", detail=dict(detail, worst_row=str(rows.labels[r]))))
        if dO > TOL:
            fails.append(dict(sig=f"records-differ:{g}-vs-uniform", detail=dict(detail)))
    daff = tables.affinity_defect(rows, Y0, 0) / sY
    detail["affinity_defect"] = daff
    if daff > TOL:
        fails.append(dict(sig="step-not-affine", detail=detail))
    bmax = max(float(np.max(np.abs(Y0[rows.index[("zero_t", t)]]))) for t in range(c.T))
    nontriv = bmax > 0 or (O0.size and sO > 1e-200)
    ev = 3 * len(rows.tvec)
    return dict(ok=not fails, failures=fails, detail=detail, nontrivial=int(bool(nontriv)), evals=ev, states=ev, transitions=ev, traces=0, outcome=f"src={'y' if bmax > 0 else 'n'}")
