"""C35 — dispersion coefficients encode the declared pole model.

Bounded exhaustive enumeration of a pole-parameter grid (Lorentz / Drude / critical-point; isotropic, per-axis and
oriented), every element evaluated through the real coefficient functions of fdtdx.dispersion and judged against
the *declared* closed-form susceptibilities written here from the class docstrings:

  chi      susceptibility_from_coefficients(compute_pole_coefficients_*(poles, dt)) == declared model at 12 frequencies
  order    the recurrence's own frequency response (c3 + c4 z)/(z - c1 - c2/z), z = exp(-i w dt), approaches the
           declared model with error ratio ~4 when dt is halved (Lorentz, Drude), ~>=2 (critical point)
  roots    roots of z^2 - c1 z - c2 lie in the closed unit disc whenever omega_0 dt < 2 and gamma >= 0
  pad      zero-padded pole slots contribute exactly nothing (slot position, material tables, effective permittivity)
  reject   omega_0 dt >= 2 on a coupled axis raises ValueError; an uncoupled axis is exempt (documented)
"""
import cmath
import itertools
import math

import numpy as np

ID = "C35"
LEVEL = "exploration"
MANIFEST = {
    "engine": "E2-enum",
    "technique": "bounded exhaustive enumeration of the pole parameter grid (kind x omega0*dt x gamma*dt x strength x axis form x orientation x frequency) against closed-form declared susceptibilities, the z-domain response of the recurrence and the Jury root criterion",
    "text": "Every pole of the grid (all kinds, all damping/resonance products below the stability bound, zero/small/large/per-axis strengths, oriented directions) is pushed through the real compute_pole_coefficients* functions; the susceptibility reconstructed by susceptibility_from_coefficients must equal the declared model at every frequency of the menu, the recurrence's own response must converge to it at second order, its characteristic roots must lie in the unit disc, and zero-padded slots must contribute exactly zero.",
    "note": "Parameter values from finite alphabets (degenerate values 0, gamma*dt=2 (c2=0), omega0*dt -> 2, plus a VERIF_SEED generic point); frequencies exclude exact undamped resonance, where the model itself is singular.",
}
RULE = (
    "case = (part, pole kind, omega0*dt, gamma*dt); inside a case every strength, axis form (isotropic, three per-axis mixes, "
    "four orientations) and every frequency of the menu is evaluated. An element (pole, frequency) is non-trivial when the "
    "declared susceptibility is non-zero on at least one axis; distinct = distinct (pole parameters, axis form, frequency)."
)
ASSUMPTIONS = [
    "exp(-i omega t) convention of the docstrings",
    "pole parameters from finite alphabets; dt from {2e-17 s, VERIF_SEED generic}",
    "identities compared at 1e-9 relative plus the float64 conditioning of the stored coefficients (32 eps * 2D/|denominator|); zero padding and rejected inputs exactly",
    "root location decided by the Jury criterion on (c1, c2) with 1e-12 slack (roots on the unit circle are not outside)",
]
TOL = 1e-9

X0 = [0.01, 0.3, 1.0, 1.9, 1.999]  # omega_0 * dt (Lorentz) / |q| dt is derived for critical points
GD = [0.0, 0.01, 1.0, 2.0, 10.0]  # gamma * dt
WDT = [1e-4, 1e-3, 0.011, 0.03, 0.1, 0.25, 0.5, 0.9, 1.3, 2.1, 3.0, math.pi]
DE = [0.0, 1e-3, 2.25, 50.0]  # Lorentz strengths
WPDT = [0.0, 1e-3, 0.5, 3.0]  # Drude plasma frequency * dt
CP_A = [0.0, 0.5, 5.0]
CP_PHI = [0.0, -math.pi / 4, math.pi / 3, math.pi / 2]
DIRS = [(1.0, 0.0, 0.0), (1.0, 1.0, 0.0), (1.0, 2.0, 2.0), (0.3, -0.5, 0.8)]


def _dts(seed):
    rng = np.random.default_rng(4242 + seed)
    return [2e-17, float(10 ** rng.uniform(-18, -15))]


def cases(tier, seed):
    out = []
    for kind in ("lorentz", "drude", "cp"):
        xs = [0.0] if kind == "drude" else X0
        for x0 in xs:
            for g in GD:
                out.append(dict(part="chi", kind=kind, x0=x0, g=g))
    for kind in ("lorentz", "drude", "cp"):
        out.append(dict(part="order", kind=kind))
    out.append(dict(part="pad"))
    out.append(dict(part="reject"))
    if tier == "thorough":
        # a finer grid in (omega0*dt, gamma*dt), including values next to the stability bound
        xs = [0.003, 0.1, 0.7, 1.4142135623730951, 1.7, 1.99, 1.999999]
        gs = [1e-6, 0.1, 0.5, 1.999, 2.001, 5.0, 100.0]
        for kind in ("lorentz", "drude", "cp"):
            for x0 in [0.0] if kind == "drude" else xs:
                for g in gs:
                    out.append(dict(part="chi", kind=kind, x0=x0, g=g))
    for c in out:
        c["seed"] = seed
    return out


def bounds(tier, seed):
    return {
        "omega0_dt": X0 + ([0.003, 0.1, 0.7, 2**0.5, 1.7, 1.99, 1.999999] if tier == "thorough" else []),
        "gamma_dt": GD + ([1e-6, 0.1, 0.5, 1.999, 2.001, 5.0, 100.0] if tier == "thorough" else []),
        "omega_dt": WDT,
        "strengths": {"lorentz_delta_eps": DE, "drude_wp_dt": WPDT, "cp_amplitude": CP_A, "cp_phase": CP_PHI},
        "axis_forms": "isotropic; per-axis strength (s,0,small); per-axis resonance/damping (x, x/2, x/10); all three per-axis; oriented along " + str(DIRS),
        "dt": _dts(seed),
        "order": "omega*dt in {0.04,0.02,0.01,0.005}, omega0/omega in {0.5,2,5}, gamma/omega in {0,0.3,2}",
        "tolerance": TOL,
        "seed": seed,
    }


# ---------------------------------------------------------------------------------------------- declared models (oracle)
def chi_lorentz(w, w0, g, de):
    return de * w0 * w0 / (w0 * w0 - w * w - 1j * g * w)


def chi_drude(w, wp, g):
    return -wp * wp / (w * w + 1j * g * w)


def chi_cp(w, A, phi, Om, Ga):
    return A * Om * (cmath.exp(1j * phi) / (Om - w - 1j * Ga) + cmath.exp(-1j * phi) / (Om + w + 1j * Ga))


def _unit(d):
    v = np.asarray(d, dtype=np.float64)
    return v / math.sqrt(float(v @ v))


def _ax3(v):
    return v if isinstance(v, tuple) else (v, v, v)


class Elem:
    """one pole in one axis form: constructor arguments for fdtdx + the declared chi tensor (3x3) as a function of omega."""

    def __init__(self, kind, form, params, orient=None):
        self.kind, self.form, self.params, self.orient = kind, form, params, orient

    def build(self, fdtdx_disp):
        p = self.params
        kw = {} if self.orient is None else {"orientation": tuple(self.orient)}
        if self.kind == "lorentz":
            return fdtdx_disp.LorentzPole(resonance_frequency=p["w0"], damping=p["g"], delta_epsilon=p["de"], **kw)
        if self.kind == "drude":
            return fdtdx_disp.DrudePole(plasma_frequency=p["wp"], damping=p["g"], **kw)
        if any(isinstance(p[k], tuple) for k in ("A", "phi", "Om", "Ga")):
            # per-axis critical-point pole: a different (pole, residue) pair on every axis
            per = [fdtdx_disp.CCPRPole.from_critical_point(amplitude=_ax3(p["A"])[a], phase=_ax3(p["phi"])[a], resonance_frequency=_ax3(p["Om"])[a], damping=_ax3(p["Ga"])[a]) for a in range(3)]
            return fdtdx_disp.CCPRPole(pole=tuple(complex(x.pole) for x in per), residue=tuple(complex(x.residue) for x in per))
        pole = fdtdx_disp.CCPRPole.from_critical_point(amplitude=p["A"], phase=p["phi"], resonance_frequency=p["Om"], damping=p["Ga"])
        if self.orient is not None:
            pole = fdtdx_disp.CCPRPole(pole=pole.pole, residue=pole.residue, orientation=tuple(self.orient))
        return pole

    def chi_axis(self, w, a):
        p = self.params
        if self.kind == "lorentz":
            return chi_lorentz(w, _ax3(p["w0"])[a], _ax3(p["g"])[a], _ax3(p["de"])[a])
        if self.kind == "drude":
            return chi_drude(w, _ax3(p["wp"])[a], _ax3(p["g"])[a])
        return chi_cp(w, _ax3(p["A"])[a], _ax3(p["phi"])[a], _ax3(p["Om"])[a], _ax3(p["Ga"])[a])

    def chi_tensor(self, w):
        if self.orient is not None:
            u = _unit(self.orient)
            return self.chi_axis(w, 0) * np.outer(u, u)
        return np.diag([self.chi_axis(w, a) for a in range(3)])

    def omega0_axes(self):
        p = self.params
        if self.kind == "lorentz":
            return _ax3(p["w0"])
        if self.kind == "drude":
            return (0.0, 0.0, 0.0)
        return tuple(math.hypot(_ax3(p["Om"])[a], _ax3(p["Ga"])[a]) for a in range(3))

    def gamma_axes(self):
        p = self.params
        if self.kind == "cp":
            return tuple(2 * _ax3(p["Ga"])[a] for a in range(3))
        return _ax3(p["g"])

    def active_axes(self):
        p = self.params
        if self.kind == "lorentz":
            return tuple(_ax3(p["de"])[a] != 0.0 and _ax3(p["w0"])[a] != 0.0 for a in range(3))
        if self.kind == "drude":
            return tuple(_ax3(p["wp"])[a] != 0.0 for a in range(3))
        return tuple(_ax3(p["A"])[a] != 0.0 and _ax3(p["Om"])[a] != 0.0 for a in range(3))

    def desc(self):
        return dict(kind=self.kind, form=self.form, params={k: (list(v) if isinstance(v, tuple) else v) for k, v in self.params.items()}, orientation=self.orient)


def elements(kind, x0, g, dt):
    """all poles of one (kind, omega0*dt, gamma*dt) case."""
    out = []
    w0, ga = x0 / dt, g / dt
    if kind == "lorentz":
        for de in DE:
            out.append(Elem(kind, "iso", dict(w0=w0, g=ga, de=de)))
        out.append(Elem(kind, "axis-strength", dict(w0=w0, g=ga, de=(2.25, 0.0, 1e-3))))
        out.append(Elem(kind, "axis-resonance", dict(w0=(w0, w0 / 2, w0 / 10), g=(ga, ga / 2, 3 * ga), de=2.25)))
        out.append(Elem(kind, "axis-all", dict(w0=(w0 / 3, w0, w0 / 7), g=(0.0, ga, ga / 5), de=(50.0, 1e-3, 2.25))))
        # an uncoupled axis may carry any resonance, even beyond the bound (documented exemption)
        out.append(Elem(kind, "axis-uncoupled-beyond-bound", dict(w0=(w0, 5.0 / dt, w0), g=ga, de=(2.25, 0.0, 1.0))))
        for d in DIRS:
            out.append(Elem(kind, "oriented", dict(w0=w0, g=ga, de=2.25), orient=d))
        out.append(Elem(kind, "oriented", dict(w0=w0, g=ga, de=0.0), orient=DIRS[2]))
    elif kind == "drude":
        for wpdt in WPDT:
            out.append(Elem(kind, "iso", dict(wp=wpdt / dt, g=ga)))
        out.append(Elem(kind, "axis-strength", dict(wp=(0.5 / dt, 0.0, 1e-3 / dt), g=ga)))
        out.append(Elem(kind, "axis-all", dict(wp=(3.0 / dt, 0.5 / dt, 0.0), g=(ga, 0.0, ga / 2))))
        for d in DIRS:
            out.append(Elem(kind, "oriented", dict(wp=0.5 / dt, g=ga), orient=d))
    else:
        # |q| dt = x0 with Gamma = gamma/2: Omega^2 = |q|^2 - Gamma^2 must be positive
        Ga = ga / 2
        om2 = w0 * w0 - Ga * Ga
        if om2 <= 0:
            return out
        Om = math.sqrt(om2)
        for A in CP_A:
            for phi in CP_PHI:
                out.append(Elem(kind, "iso", dict(A=A, phi=phi, Om=Om, Ga=Ga)))
        for d in DIRS[1:]:
            out.append(Elem(kind, "oriented", dict(A=0.5, phi=0.0, Om=Om, Ga=Ga), orient=d))  # phi=0: purely imaginary residue
        # per-axis critical points: different damping, resonance, amplitude and phase (residue with a real part) on every axis
        out.append(Elem(kind, "axis-all", dict(A=(0.5, 1.3, 0.2), phi=(-math.pi / 4, 0.7, 0.0), Om=(Om, Om / 2, Om / 3), Ga=(Ga, Ga / 3, 0.8 * Ga))))
        out.append(Elem(kind, "axis-damping", dict(A=0.5, phi=-math.pi / 4, Om=Om, Ga=(Ga, 0.55 * Ga, Ga / 5))))
    return out


# ---------------------------------------------------------------------------------------------- parts
def _close(got, ref, scale):
    got, ref = np.asarray(got), np.asarray(ref)
    if not np.all(np.isfinite(got)):
        return False, float("inf")
    d = float(np.max(np.abs(got - ref)))
    return d <= TOL * scale, d / scale if scale > 0 else d


def _part_chi(case):
    from mc import guard

    guard.import_fdtdx()
    import fdtdx.dispersion as D

    kind, x0, g, seed = case["kind"], case["x0"], case["g"], case["seed"]
    fails, evals, nontriv = [], 0, 0
    oc = {}
    for dt in _dts(seed):
        for el in elements(kind, x0, g, dt):
            pole = el.build(D)
            w0a, gaa, act = el.omega0_axes(), el.gamma_axes(), el.active_axes()
            if el.orient is None:
                c1, c2, c3, c4 = D.compute_pole_coefficients_per_axis((pole,), dt)
                t1, t2, t3, t4 = D.compute_pole_coefficients_tensor((pole,), dt)
                evals += 2
                same = np.array_equal(t1, c1) and np.array_equal(t2, c2) and np.array_equal(t3[:, (0, 4, 8)], c3) and np.array_equal(t4[:, (0, 4, 8)], c4)
                offd = np.all(t3[:, (1, 2, 3, 5, 6, 7)] == 0) and np.all(t4[:, (1, 2, 3, 5, 6, 7)] == 0)
                if not (same and offd):
                    fails.append(dict(sig=f"{kind}:{el.form}:per-axis-and-tensor-coefficients-differ", detail=el.desc()))
                if el.form == "iso":
                    s1, s2, s3, s4 = D.compute_pole_coefficients((pole,), dt)
                    evals += 1
                    if not (np.array_equal(s1, c1[:, 0]) and np.array_equal(s2, c2[:, 0]) and np.array_equal(s3, c3[:, 0]) and np.array_equal(s4, c4[:, 0])):
                        fails.append(dict(sig=f"{kind}:iso:scalar-and-per-axis-coefficients-differ", detail=el.desc()))
            else:
                c1, c2, c3, c4 = D.compute_pole_coefficients_tensor((pole,), dt)
                evals += 1
                try:
                    D.compute_pole_coefficients_per_axis((pole,), dt)
                    fails.append(dict(sig=f"{kind}:oriented:per-axis-function-accepts-oriented-pole", detail=el.desc()))
                except ValueError:
                    oc["oriented-rejected-by-per-axis"] = oc.get("oriented-rejected-by-per-axis", 0) + 1
            # --- roots of z^2 - c1 z - c2 on every axis within the precondition
            for a in range(3):
                if w0a[a] * dt < 2.0 and gaa[a] >= 0:
                    # Jury / Schur-Cohn criterion for p(z) = z^2 - c1 z - c2 with real coefficients: both roots lie in the
                    # closed unit disc iff |p(0)| <= 1, p(1) >= 0 and p(-1) >= 0. (Numerical root finding is useless next
                    # to the double root z = 1 of weakly damped Drude poles: its error is ~sqrt(eps).)
                    a1, a0 = -float(c1[0, a]), -float(c2[0, a])
                    evals += 1
                    if abs(a0) > 1.0 + 1e-12 or 1.0 + a1 + a0 < -1e-12 or 1.0 - a1 + a0 < -1e-12:
                        r = np.roots([1.0, a1, a0])
                        fails.append(dict(sig=f"{kind}:{el.form}:recurrence-root-outside-unit-circle", detail=dict(el.desc(), axis=a, c1=-a1, c2=-a0, roots=[complex(z) for z in r], dt=dt)))
            # --- susceptibility identity at every frequency
            for wdt in WDT:
                w = wdt / dt
                # exact undamped resonance: the declared model itself is singular
                if any(gaa[a] == 0.0 and abs(w0a[a] - w) <= 1e-12 * w for a in range(3)):
                    oc["skipped-undamped-resonance"] = oc.get("skipped-undamped-resonance", 0) + 1
                    continue
                ref = el.chi_tensor(w)
                got = np.asarray(D.susceptibility_from_coefficients(c1, c2, c3, w, dt, c4))
                evals += 1
                gt = got.reshape(3, 3) if got.shape[0] == 9 else np.diag(got)
                scale = float(np.max(np.abs(ref)))
                # float64 coefficients encode omega_0^2 dt^2 as 2 - c1*D: an absolute error ~eps*2*D, amplified by the
                # cancellation in the denominator. Allow that much on top of the 1e-9 identity tolerance.
                cond = 0.0
                for a in range(3):
                    den = abs((w0a[a] * dt) ** 2 - wdt * wdt - 1j * gaa[a] * dt * wdt)
                    if den > 0:
                        cond = max(cond, 2.0 * (1.0 + 0.5 * gaa[a] * dt) / den)
                slack = 32 * np.finfo(np.float64).eps * cond
                if scale > 0:
                    nontriv += 1
                    ok, d = _close(gt, ref, scale)
                    ok = ok or d <= TOL + slack
                else:
                    ok, d = bool(np.all(gt == 0)), float(np.max(np.abs(gt)))
                oc["chi-nonzero" if scale > 0 else "chi-zero"] = oc.get("chi-nonzero" if scale > 0 else "chi-zero", 0) + 1
                if not ok:
                    fails.append(dict(sig=f"{kind}:{el.form}:susceptibility-from-coefficients-differs-from-declared-model", detail=dict(el.desc(), omega_dt=wdt, dt=dt, rel_defect=d, got=str(gt.ravel()[:9]), want=str(ref.ravel()[:9]))))
                # the model object's own evaluation must agree with the declared formula as well
                mt = D.DispersionModel(poles=(pole,)).susceptibility_tensor(w)
                evals += 1
                ok2 = _close(mt, ref, scale)[0] if scale > 0 else bool(np.all(mt == 0))
                if not ok2:
                    fails.append(dict(sig=f"{kind}:{el.form}:DispersionModel.susceptibility_tensor-differs-from-declared-model", detail=dict(el.desc(), omega_dt=wdt)))
    return fails, evals, nontriv, oc


def _disc_response(c1, c2, c3, c4, wdt):
    z = cmath.exp(-1j * wdt)
    return (c3 + c4 * z) / (z - c1 - c2 / z)


def _part_order(case):
    from mc import guard

    guard.import_fdtdx()
    import fdtdx.dispersion as D

    kind = case["kind"]
    fails, evals, nontriv, oc = [], 0, 0, {}
    w = 2 * math.pi * 3e14
    hs = [0.04, 0.02, 0.01, 0.005]
    for a in [0.5, 2.0, 5.0] if kind != "drude" else [0.0]:
        for b in [0.0, 0.3, 2.0]:
            for strength in [2.25, 1e-3]:
                errs = []
                for h in hs:
                    dt = h / w
                    if kind == "lorentz":
                        el = Elem(kind, "iso", dict(w0=a * w, g=b * w, de=strength))
                    elif kind == "drude":
                        el = Elem(kind, "iso", dict(wp=math.sqrt(strength) * w, g=b * w))
                    else:
                        el = Elem(kind, "iso", dict(A=strength, phi=-math.pi / 4, Om=a * w, Ga=max(b, 0.05) * w / 2))
                    c1, c2, c3, c4 = D.compute_pole_coefficients_per_axis((el.build(D),), dt)
                    evals += 1
                    ref = el.chi_axis(w, 0)
                    got = _disc_response(c1[0, 0], c2[0, 0], c3[0, 0], c4[0, 0], h)
                    errs.append(abs(got - ref) / abs(ref))
                ratios = [errs[i] / errs[i + 1] for i in range(len(hs) - 1)]
                nontriv += 1
                lo, hi = (3.8, 4.2) if kind != "cp" else (1.8, 4.2)
                ok = all(lo <= r <= hi for r in ratios) and errs[0] < 0.05 and errs[-1] < errs[0]
                oc["second-order" if all(3.8 <= r <= 4.2 for r in ratios) else "first-order"] = oc.get("second-order" if all(3.8 <= r <= 4.2 for r in ratios) else "first-order", 0) + 1
                if not ok:
                    fails.append(dict(sig=f"{kind}:recurrence-response-does-not-converge-at-the-stated-order", detail=dict(el.desc(), omega_dt=hs, rel_errors=errs, ratios=ratios)))
    return fails, evals, nontriv, oc


def _part_pad(case):
    from mc import guard

    guard.import_fdtdx()
    import fdtdx
    import fdtdx.dispersion as D
    import fdtdx.materials as M
    import jax.numpy as jnp

    fails, evals, nontriv, oc = [], 0, 0, {}
    for dt in _dts(case["seed"]):
        pl = D.LorentzPole(resonance_frequency=0.3 / dt, damping=0.01 / dt, delta_epsilon=2.25)
        pd = D.DrudePole(plasma_frequency=0.5 / dt, damping=1.0 / dt)
        pc = D.CCPRPole.from_critical_point(amplitude=0.5, phase=-math.pi / 4, resonance_frequency=0.3 / dt, damping=0.05 / dt)
        pa = D.LorentzPole(resonance_frequency=(0.3 / dt, 1.0 / dt, 0.01 / dt), damping=0.01 / dt, delta_epsilon=(2.25, 0.0, 1e-3))
        po = D.DrudePole(plasma_frequency=0.5 / dt, damping=0.01 / dt, orientation=(1.0, 2.0, 2.0))
        for name, pole, fn in [("lorentz", pl, D.compute_pole_coefficients_per_axis), ("drude", pd, D.compute_pole_coefficients_per_axis), ("cp", pc, D.compute_pole_coefficients_per_axis), ("per-axis", pa, D.compute_pole_coefficients_per_axis), ("oriented", po, D.compute_pole_coefficients_tensor)]:
            cs = fn((pole,), dt)
            for wdt in WDT:
                w = wdt / dt
                base = np.asarray(D.susceptibility_from_coefficients(cs[0], cs[1], cs[2], w, dt, cs[3]))
                for npad in (1, 3):
                    for pos in range(npad + 1):
                        # the real pole sits at slot `pos` of npad+1 slots, all others are zero
                        padded = []
                        for c in cs:
                            z = np.zeros((npad + 1, c.shape[1]))
                            z[pos] = c[0]
                            padded.append(z)
                        got = np.asarray(D.susceptibility_from_coefficients(padded[0], padded[1], padded[2], w, dt, padded[3]))
                        evals += 1
                        nontriv += 1
                        if not (got.shape == base.shape and np.array_equal(got, base)):
                            fails.append(dict(sig=f"{name}:zero-padded-slots-change-the-susceptibility", detail=dict(omega_dt=wdt, slots=npad + 1, pos=pos, got=str(got), want=str(base))))
                # cells: a (poles, comps, 2,1,1) array where cell 1 has no pole at all -> exactly 0 there, unchanged in cell 0
                cell = []
                for c in cs:
                    z = np.zeros((2, c.shape[1], 2, 1, 1))
                    z[1, :, 0, 0, 0] = c[0]
                    cell.append(z)
                got = np.asarray(D.susceptibility_from_coefficients(cell[0], cell[1], cell[2], w, dt, cell[3]))
                evals += 1
                if not (np.array_equal(got[:, 0, 0, 0], base) and np.all(got[:, 1, 0, 0] == 0)):
                    fails.append(dict(sig=f"{name}:pole-free-cell-has-nonzero-susceptibility", detail=dict(omega_dt=wdt, got=str(got.ravel()))))
                if cs[2].shape[1] == 3:
                    inv_eps = jnp.asarray(np.full((3, 2, 1, 1), 1 / 2.25))
                    eff = np.asarray(D.effective_inv_permittivity(inv_eps, jnp.asarray(cell[0]), jnp.asarray(cell[1]), jnp.asarray(cell[2]), w, dt, c4=jnp.asarray(cell[3])))
                    evals += 1
                    want0 = 1.0 / (2.25 + np.real(base))
                    if not (np.all(eff[:, 1, 0, 0] == 1 / 2.25) and np.allclose(eff[:, 0, 0, 0], want0, rtol=1e-9, atol=0)):
                        fails.append(dict(sig=f"{name}:effective-inverse-permittivity-of-pole-free-cell-changed", detail=dict(omega_dt=wdt, got=str(eff.ravel()), want=str(want0))))
        # material tables: fewer poles / no dispersion -> zero slots, in the canonical material order
        mats = {
            "none": fdtdx.Material(permittivity=1.0),
            "one": fdtdx.Material(permittivity=2.0, dispersion=D.DispersionModel(poles=(pl,))),
            "three": fdtdx.Material(permittivity=3.0, dispersion=D.DispersionModel(poles=(pd, pl, pc))),
            "axis": fdtdx.Material(permittivity=4.0, dispersion=D.DispersionModel(poles=(pa, pd))),
            "empty": fdtdx.Material(permittivity=5.0, dispersion=D.DispersionModel(poles=())),
        }
        names = M.compute_ordered_names(mats)
        npmax = M.compute_max_dispersive_poles(mats)
        if npmax != 3:
            fails.append(dict(sig="materials:max-dispersive-poles-wrong", detail=dict(got=npmax)))
        for slots in (3, 5):
            for ncomp, ccomp in ((3, 3), (3, 9)):
                c1, c2, c3, c4 = M.compute_allowed_dispersive_coefficients(mats, dt, slots, ncomp, ccomp)
                evals += 1
                for mi, nm in enumerate(names):
                    poles = mats[nm].dispersion.poles if mats[nm].dispersion is not None else ()
                    t = D.compute_pole_coefficients_tensor(poles, dt)
                    n = len(poles)
                    sel = slice(None) if ccomp == 9 else (0, 4, 8)
                    ok = (
                        np.array_equal(c1[mi, :n], t[0])
                        and np.array_equal(c2[mi, :n], t[1])
                        and np.array_equal(c3[mi, :n], t[2][:, sel])
                        and np.array_equal(c4[mi, :n], t[3][:, sel])
                        and all(np.all(c[mi, n:] == 0) for c in (c1, c2, c3, c4))
                    )
                    nontriv += 1
                    if not ok:
                        fails.append(dict(sig="materials:dispersive-coefficient-table-row-differs-or-padding-nonzero", detail=dict(material=nm, slots=slots, comps=(ncomp, ccomp))))
                    for wdt in WDT[::3]:
                        w = wdt / dt
                        got = np.asarray(D.susceptibility_from_coefficients(c1[mi], c2[mi], c3[mi], w, dt, c4[mi]))
                        evals += 1
                        ref = D.DispersionModel(poles=poles).susceptibility_tensor(w)
                        gt = got.reshape(3, 3) if ccomp == 9 else np.diag(got)
                        scale = float(np.max(np.abs(ref)))
                        ok = _close(gt, ref, scale)[0] if scale > 0 else bool(np.all(gt == 0))
                        if not ok:
                            fails.append(dict(sig="materials:padded-table-row-does-not-reproduce-the-material-susceptibility", detail=dict(material=nm, omega_dt=wdt, slots=slots)))
        oc["tables"] = oc.get("tables", 0) + 1
    return fails, evals, nontriv, oc


def _part_reject(case):
    from mc import guard

    guard.import_fdtdx()
    import fdtdx.dispersion as D

    fails, evals, nontriv, oc = [], 0, 0, {}
    for dt in _dts(case["seed"]):
        for x in [2.0, 2.0000001, 3.0, 50.0]:
            for gd in GD:
                w0, ga = x / dt, gd / dt
                bad = [
                    ("lorentz-iso", D.LorentzPole(resonance_frequency=w0, damping=ga, delta_epsilon=2.25)),
                    ("lorentz-axis", D.LorentzPole(resonance_frequency=(0.3 / dt, w0, 0.3 / dt), damping=ga, delta_epsilon=(1.0, 1e-3, 0.0))),
                    ("cp", D.CCPRPole(pole=complex(-ga / 2, -w0), residue=complex(0.1 * w0, 0.3 * w0))),
                    ("lorentz-oriented", D.LorentzPole(resonance_frequency=w0, damping=ga, delta_epsilon=2.25, orientation=(1.0, 1.0, 0.0))),
                ]
                for name, pole in bad:
                    for fn in (D.compute_pole_coefficients_per_axis, D.compute_pole_coefficients_tensor):
                        if name == "lorentz-oriented" and fn is D.compute_pole_coefficients_per_axis:
                            continue
                        evals += 1
                        nontriv += 1
                        try:
                            fn((pole,), dt)
                            fails.append(dict(sig=f"{name}:omega0*dt>=2-accepted", detail=dict(omega0_dt=x, gamma_dt=gd, fn=fn.__name__)))
                        except ValueError:
                            oc["rejected"] = oc.get("rejected", 0) + 1
                # uncoupled axis beyond the bound is exempt (documented) and must not raise
                ok_pole = D.LorentzPole(resonance_frequency=(0.3 / dt, w0, 0.3 / dt), damping=ga, delta_epsilon=(1.0, 0.0, 1.0))
                for fn in (D.compute_pole_coefficients_per_axis, D.compute_pole_coefficients_tensor):
                    evals += 1
                    try:
                        fn((ok_pole,), dt)
                        oc["uncoupled-axis-exempt"] = oc.get("uncoupled-axis-exempt", 0) + 1
                    except ValueError:
                        fails.append(dict(sig="lorentz-axis:uncoupled-axis-beyond-bound-rejected", detail=dict(omega0_dt=x, fn=fn.__name__)))
        # just below the bound is accepted
        for x in [1.9999999, 1.999]:
            evals += 1
            try:
                D.compute_pole_coefficients_per_axis((D.LorentzPole(resonance_frequency=x / dt, damping=0.0, delta_epsilon=1.0),), dt)
                oc["accepted-below-bound"] = oc.get("accepted-below-bound", 0) + 1
            except ValueError:
                fails.append(dict(sig="lorentz-iso:omega0*dt<2-rejected", detail=dict(omega0_dt=x)))
    return fails, evals, nontriv, oc


def run_case(case):
    fn = {"chi": _part_chi, "order": _part_order, "pad": _part_pad, "reject": _part_reject}[case["part"]]
    fails, evals, nontriv, oc = fn(case)
    seen, out = {}, []
    for f in fails:  # a few per signature are enough for the replay file
        seen[f["sig"]] = seen.get(f["sig"], 0) + 1
        if seen[f["sig"]] <= 3:
            out.append(f)
    return dict(ok=not fails, failures=out, detail={"failing_elements": len(fails), "by_sig": seen}, nontrivial=nontriv, evals=evals, outcome=oc)
