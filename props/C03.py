"""C03 — the full backward pass reconstructs the interior fields despite absorbing layers.

Engine E1 on trajectories. For a scene with PML on a face subset, the map
    s0 (interior E,H)  |->  forward T steps with interface recording  |->  reverse sweep r_T..r_0
is affine in s0. It is evaluated (one jit per scene, vmapped) on 0, on EVERY interior basis state and on affinity rows;
the oracle is r_t == s_t on every cell outside every PML slab at EVERY t of the sweep.
"""
import itertools

import numpy as np

ID = "C03"
LEVEL = "model_checking"
MANIFEST = {
    "engine": "E1-linsys",
    "technique": "explicit-state model checking: the real forward(record)/backward sweep tabulated on every interior basis state, interior equality checked at every time index of the reverse sweep",
    "text": "For every PML face subset (all 64), thickness, kind of the remaining faces and source kind in the bound, the affine map initial interior state -> (forward trajectory, reverse-sweep trajectory) is tabulated on all interior basis states through the real forward (with interface recording through the Recorder) and backward steps; equality outside the PML slabs at every step of the sweep then holds for every initial field.",
    "note": "Interior 3x3x3, lossless materials from the all-distinct/seed alphabets, float64, Recorder without modules (and a widening DtypeConversion variant in float32 at 1e-5); conformance: run_fdtd + full_backward (JIT while_loop drivers) on source scenes.",
}
RULE = (
    "case = (PML face subset, thickness, kind of non-PML faces, source, recorder pipeline, materials, grid); states = interior basis "
    "states + zero + affinity rows; non-trivial when some basis state puts non-zero field into a PML slab within T steps "
    "(measured) and the scene has at least one PML face; distinct = distinct case descriptors."
)
ASSUMPTIONS = [
    "float64 evaluation is representative of the float32 default (one float32 variant with widening DtypeConversion is included)",
    "default PML grading (no loss or stretching at the inner face) as the property requires",
    "material values from finite alphabets (all-distinct, seed)",
]
TOL = 1e-9
T = 6
FACES = ("min_x", "max_x", "min_y", "max_y", "min_z", "max_z")
INTERIOR = 3


def cases(tier, seed):
    out = []
    subsets = [s for k in range(7) for s in itertools.combinations(range(6), k)]
    if tier == "quick":
        for s in subsets:
            k = len(out)
            out.append(dict(pml=list(s), thick=2, other=["none", "periodic", "pec", "pmc"][k % 4], src=["none", "dipole", "plane"][k % 3], rec="plain", mats="iso", grid="uniform", conf=(k % 8 == 1)))
        # thickness / materials / grid / recorder deviations on a mixed subset
        base = dict(pml=[1, 2, 5], thick=2, other="periodic", src="dipole", rec="plain", mats="iso", grid="uniform", conf=False)
        for th in (1, 3):
            out.append(dict(base, thick=th))
        for m in ("diag", "full", "full-inner"):
            out.append(dict(base, mats=m))
        out.append(dict(base, grid="rect_distinct"))
        out.append(dict(base, rec="widen32"))
        out.append(dict(base, pml=[0, 1, 2, 3, 4, 5], src="plane", conf=True))
    else:
        k = 0
        for s in subsets:
            for th in (1, 2, 3):
                for other in ("none", "periodic", "pec", "pmc"):
                    if len(s) == 6 and other != "none":
                        continue
                    src = ["none", "dipole", "plane"][k % 3]
                    mats = ["iso", "diag", "iso", "full"][(k // 3) % 4]
                    grid = ["uniform", "uniform", "rect_distinct"][(k // 5) % 3]
                    rec = "widen32" if k % 41 == 7 else "plain"
                    conf = k % 53 == 0
                    if rec == "widen32":
                        # float32 scenes run under jax_enable_x64: keep them on the uniform grid with isotropic materials (non-uniform
                        # metrics / tensor solves are computed in float64 there and promote the float32 fields, which the library's own
                        # dtype guards then reject) and out of the while_loop drivers (carry dtype must be stable)
                        mats, grid, conf = "iso", "uniform", False
                    out.append(dict(pml=list(s), thick=th, other=other, src=src, rec=rec, mats=mats, grid=grid, conf=conf))
                    k += 1
    for c in out:
        c["seed"] = seed
    return out


def bounds(tier, seed):
    return {
        "pml_subsets": "all 64 subsets of the six faces",
        "thickness": [2] if tier == "quick" else [1, 2, 3],
        "other_faces": ["none", "periodic (axis pairs without PML)", "pec", "pmc"],
        "sources": ["none", "dipole", "plane"],
        "interior": [INTERIOR] * 3,
        "steps": T,
        "every_time_index_of_reverse_sweep": True,
        "tolerance": TOL,
        "seed": seed,
    }


def spec_of(case):
    pml = set(case["pml"])
    th = case["thick"]
    faces = {}
    lo = [0, 0, 0]
    shape = [INTERIOR] * 3
    for a, name in enumerate("xyz"):
        imin, imax = 2 * a, 2 * a + 1
        if imin in pml:
            faces[f"min_{name}"] = "pml"
            lo[a] = th
            shape[a] += th
        if imax in pml:
            faces[f"max_{name}"] = "pml"
            shape[a] += th
        o = case["other"]
        if imin not in pml and imax not in pml:
            if o != "none":
                faces[f"min_{name}"] = faces[f"max_{name}"] = o
        else:
            if o in ("pec", "pmc"):
                if imin not in pml:
                    faces[f"min_{name}"] = o
                if imax not in pml:
                    faces[f"max_{name}"] = o
    interior = [[lo[a], lo[a] + INTERIOR] for a in range(3)]
    mats = None if case["mats"] == "full-inner" else {"iso": dict(eps={"tier": "iso", "pat": "distinct", "lo": 1.0, "hi": 3.0}), "diag": dict(eps={"tier": "diag", "pat": "distinct", "lo": 1.0, "hi": 3.0}, mu={"tier": "iso", "pat": "seed", "lo": 1.0, "hi": 2.0}), "full": dict(eps={"tier": "full", "pat": "distinct", "lo": 1.0, "hi": 3.0})}[case["mats"]]
    if case["mats"] == "full-inner":
        # full tensors only in the centre cell of the interior (>= 1 cell away from every PML interface cell)
        cc = [lo[a] + 1 for a in range(3)]
        mats = dict(eps={"tier": "full", "pat": "distinct", "lo": 1.0, "hi": 3.0, "box": [[cc[0], cc[0] + 1], [cc[1], cc[1] + 1], [cc[2], cc[2] + 1]]})
    spec = dict(shape=shape, faces=faces, pml=th, steps=T, seed=case["seed"], grid=case["grid"], **mats)
    if case["rec"] == "plain":
        spec["gradient"] = {"method": "reversible", "recorder": []}
    else:
        spec["gradient"] = {"method": "reversible", "recorder": [{"kind": "dtype", "dtype": "f64"}]}
        spec["dtype"] = "f32"
    c = [lo[a] + 1 for a in range(3)]
    w = {"wavelength": 0.6e-6}
    if case["src"] == "dipole":
        spec["sources"] = [dict(kind="dipole", box=[[c[0], c[0] + 1], [c[1], c[1] + 1], [c[2], c[2] + 1]], polarization=2, wave=w)]
    elif case["src"] == "plane":
        spec["sources"] = [dict(kind="plane", box=[[0, shape[0]], [0, shape[1]], [c[2], c[2] + 1]], direction="+", fixed_E_polarization_vector=[1, 0, 0], wave=w)]
    return spec, interior


def run_case(case):
    from mc import guard, linsys, scenes

    guard.import_fdtdx()
    import jax
    import jax.numpy as jnp
    from fdtdx.fdtd.backward import backward, full_backward
    from fdtdx.fdtd.forward import forward

    spec, interior = spec_of(case)
    names = dict(case)
    try:
        sc = scenes.build(spec)
    except Exception as e:
        if not (isinstance(e, (ValueError, NotImplementedError)) or "not supported" in repr(e) or "NotImplementedError" in repr(e)):
            raise
        return dict(ok=True, detail={"rejected": repr(e)[:300]}, nontrivial=0, evals=1, states=1, transitions=1, traces=0, outcome="rejected-by-placement")
    tol = TOL if spec.get("dtype", "f64") == "f64" else 1e-5
    shape = tuple(spec["shape"])
    isl = tuple(slice(a, b) for a, b in interior)
    ncell = INTERIOR**3
    n = 6 * ncell
    fdt = sc.arrays.fields.E.dtype
    pml_mask = np.zeros(shape, dtype=bool)
    for p in sc.objects.pml_objects:
        pml_mask[p.grid_slice] = True
    out_mask = ~pml_mask  # cells outside every PML slab
    key = jax.random.PRNGKey(0)
    objects, config = sc.objects, sc.config
    om = jnp.asarray(out_mask)
    pm = jnp.asarray(pml_mask)

    from jax.flatten_util import ravel_pytree

    flat0, unravel = ravel_pytree((sc.arrays.fields, sc.arrays.recording_state))
    nfull = flat0.shape[0]

    def _with(a, tree):
        fields, rec = tree
        return a.aset("fields", fields).aset("recording_state", rec)

    def fstep(t, vec):
        a = _with(sc.arrays, unravel(vec))
        _, a2 = forward((t, a), config, objects, key, record_detectors=False, record_boundaries=True, simulate_boundaries=True)
        return ravel_pytree((a2.fields, a2.recording_state))[0]

    def bstep(t, vec):
        a = _with(sc.arrays, unravel(vec))
        t2, a2 = backward((t, a), config, objects, key, record_detectors=False, reset_fields=True)
        return ravel_pytree((a2.fields, a2.recording_state))[0], t2

    def embed(v):
        E = jnp.zeros((3, *shape), dtype=fdt).at[(slice(None), *isl)].set(v[: 3 * ncell].reshape(3, INTERIOR, INTERIOR, INTERIOR).astype(fdt))
        H = jnp.zeros((3, *shape), dtype=fdt).at[(slice(None), *isl)].set(v[3 * ncell :].reshape(3, INTERIOR, INTERIOR, INTERIOR).astype(fdt))
        a = sc.arrays.aset("fields->E", E).aset("fields->H", H)
        return ravel_pytree((a.fields, a.recording_state))[0]

    def observe(vec):
        fields, _ = unravel(vec)
        o = jnp.concatenate([(fields.E * om).ravel(), (fields.H * om).ravel()])
        r = jnp.maximum(jnp.max(jnp.abs(fields.E * pm)), jnp.max(jnp.abs(fields.H * pm)))
        return o, r

    # wall-consistent interior basis: basis states that violate a PEC/PMC wall condition are not physical states
    codec = linsys.Codec(sc.arrays, with_psi=False)
    keep_full = linsys.wall_keep(sc, codec)
    kE = keep_full[: 3 * int(np.prod(shape))].reshape(3, *shape)[(slice(None), *isl)].ravel()
    kH = keep_full[3 * int(np.prod(shape)) :].reshape(3, *shape)[(slice(None), *isl)].ravel()
    keep = np.concatenate([kE, kH])
    block = [i for i in range(0, n, max(1, n // 10)) if keep[i] > 0][:8]
    A = linsys.affinity_rows(n, block, False)
    X = np.concatenate([np.zeros((1, n)), np.eye(n) * keep[None, :], A], axis=0)
    Fj = jax.jit(jax.vmap(fstep, in_axes=(None, 0)))
    Bj = jax.jit(jax.vmap(bstep, in_axes=(None, 0)))
    Oj = jax.jit(jax.vmap(observe))
    V = jax.jit(jax.vmap(embed))(jnp.asarray(X))
    fw_l, reach = [], 0.0
    o, r = Oj(V)
    fw_l.append(np.asarray(o, dtype=np.float64))
    for t in range(T):
        V = Fj(jnp.asarray(t, dtype=jnp.int32), V)
        o, r = Oj(V)
        fw_l.append(np.asarray(o, dtype=np.float64))
        reach = np.maximum(reach, np.asarray(r, dtype=np.float64))
    bw_l = [None] * (T + 1)
    bw_l[T] = fw_l[T]
    tcur = None
    for k in range(T, 0, -1):
        V, tcur = Bj(jnp.asarray(k, dtype=jnp.int32), V)
        o, _ = Oj(V)
        bw_l[k - 1] = np.asarray(o, dtype=np.float64)
    fw = np.stack(fw_l, axis=1)
    bw = np.stack(bw_l, axis=1)
    tfin = np.asarray(tcur)
    rows = X.shape[0]
    fails = []
    scale = max(1e-30, float(np.max(np.abs(fw))))
    res_t = np.max(np.abs(bw - fw), axis=(0, 2)) / scale  # per time index
    worst_t = int(np.argmax(res_t))
    detail = dict(residual_per_t=[float(x) for x in res_t], scale=scale, pml_reach=float(np.max(reach[1 : n + 1])), final_time=int(tfin[0]))
    if float(np.max(res_t)) > tol:
        row = int(np.argmax(np.max(np.abs(bw - fw), axis=(1, 2))))
        cls = "full-tensor-touching-pml" if (case["mats"] == "full" and len(case["pml"]) > 0) else case["mats"]
        fails.append(dict(sig=f"interior-not-reconstructed:{cls}", detail=dict(worst_t=worst_t, residual=float(np.max(res_t)), worst_input_row=row)))
    if int(tfin[0]) != 0:
        fails.append(dict(sig="reverse-sweep-wrong-final-time", detail=dict(t=int(tfin[0]))))
    # affinity of the whole sweep map (so that basis states decide all inputs)
    Y = np.concatenate([fw.reshape(rows, -1), bw.reshape(rows, -1)], axis=1)
    b = Y[0]
    M = (Y[1 : n + 1] - b[None, :]).T
    daff = linsys.affinity_defect_from(A, Y[n + 1 :], M, b) / scale
    detail["affinity_defect"] = daff
    if daff > max(tol, 1e-9):
        fails.append(dict(sig="sweep-not-affine", detail=dict(defect=daff)))
    traces = 0
    if case.get("conf") and case["src"] != "none":
        import fdtdx

        tT, aT = fdtdx.run_fdtd(sc.arrays, sc.objects, sc.config, key, show_progress=False)
        gotE = np.asarray(aT.fields.E) * out_mask
        gotH = np.asarray(aT.fields.H) * out_mask
        got = np.concatenate([gotE.ravel(), gotH.ravel()])
        d1 = float(np.max(np.abs(got - fw[0, T]))) / scale
        t0, a0 = full_backward((tT, aT), sc.objects, sc.config, key, record_detectors=False, reset_fields=True)
        back = np.concatenate([(np.asarray(a0.fields.E) * out_mask).ravel(), (np.asarray(a0.fields.H) * out_mask).ravel()])
        d2 = float(np.max(np.abs(back))) / scale
        detail["conformance"] = dict(run_fdtd_vs_stepwise=d1, full_backward_interior_at_t0=d2, t0=int(t0), tT=int(tT))
        traces = 2
        if d1 > tol:
            fails.append(dict(sig="conformance:run_fdtd-vs-stepwise", detail=dict(defect=d1)))
        if d2 > tol or int(t0) != 0:
            cls2 = "full-tensor-touching-pml" if (case["mats"] == "full" and len(case["pml"]) > 0) else case["mats"]
            fails.append(dict(sig=f"full_backward-does-not-return-initial-interior:{cls2}", detail=dict(defect=d2, t0=int(t0))))
    nontriv = len(case["pml"]) > 0 and detail["pml_reach"] > 0
    return dict(ok=not fails, failures=fails, detail=detail, nontrivial=int(nontriv), evals=rows * 2 * T, states=rows, transitions=rows * 2 * T, traces=traces, outcome=f"npml={len(case['pml'])},reach={'y' if detail['pml_reach'] > 0 else 'n'}")
