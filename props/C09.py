"""C09 — a periodic / Bloch domain of N cells evolves exactly like its m*N supercell.

Engine E1, two-system comparison. A = N-cell domain, B = (m*N)-cell domain with the same boundaries whose materials and
grid widths are A's tiled m times. For EVERY basis state of A (and i*e_j, affinity rows, dense probes) the tiled state
(Bloch phase exp(i k L) per copy) is pushed through B's real forward step:  forward_B(Tile s) == Tile(forward_A s).
"""
import itertools

import numpy as np

ID = "C09"
LEVEL = "model_checking"
MANIFEST = {
    "engine": "E1-linsys",
    "technique": "explicit-state model checking: the cell's transition table (all basis states) compared with the supercell's step on the tiled states, M_big Tile = Tile M_small",
    "text": "For every periodic-axis subset, cell count N, tiling factor m, Bloch vector class and transverse boundary kind in the bound, the small cell's forward step is tabulated on all of its basis states and the supercell's real forward step is evaluated on the tiled images of all of them; the intertwining identity then holds for every initial field of the cell and, by induction, for every number of steps.",
    "note": "Materials all-distinct/seed per cell (tiled), uniform and non-uniform (tiled widths) grids, iso/diag/full tensors; k in {0, +generic, -generic, pi/L, seed}; float64/complex128.",
}
RULE = (
    "case = (periodic axis subset, N, m, k class, transverse faces, material tier, grid); rows = zero + all basis states of the small cell "
    "(+ i*e_j for Bloch) + affinity rows + dense probes. Non-trivial = the small step couples across the wrap (some basis state of a face cell "
    "changes a cell on the opposite face, measured on M) ; distinct = distinct case tuples."
)
ASSUMPTIONS = ["float64/complex128 representative of float32/complex64", "material and width values from finite alphabets (all-distinct, seed)"]
TOL = 1e-9
SP = 50e-9


def cases(tier, seed):
    out = []
    subsets = [s for k in (1, 2, 3) for s in itertools.combinations(range(3), k)]
    if tier == "quick":
        Ns, ms, ks = (2, 3), (2, 3), ("0", "+g", "-g", "pi")
        others = ("none", "pecpmc")
    else:
        Ns, ms, ks = (2, 3, 4), (2, 3), ("0", "+g", "-g", "pi", "seed")
        others = ("none", "pecpmc", "pec", "pmc")
    i = 0
    for sub in subsets:
        for N in Ns:
            for m in ms:
                for k in ks:
                    for oth in others:
                        if len(sub) == 3 and oth != others[0]:
                            continue
                        if tier == "quick" and len(sub) == 3 and N * m > 6:
                            continue
                        mats = ["iso", "diag", "full", "iso+mu"][i % 4]
                        grid = ["uniform", "rect_distinct"][(i // 4) % 2] if mats != "full" else ["uniform", "rect_distinct"][(i // 8) % 2]
                        i += 1
                        out.append(dict(axes=list(sub), N=N, m=m, k=k, other=oth, mats=mats, grid=grid, seed=seed))
    return out


def bounds(tier, seed):
    return {
        "periodic_axis_subsets": "all 7 non-empty subsets",
        "N": [2, 3] if tier == "quick" else [2, 3, 4],
        "m": [2, 3],
        "k_classes": ["0 (periodic)", "+generic", "-generic", "pi/L"] if tier == "quick" else ["0", "+generic", "-generic", "pi/L", "seed"],
        "transverse": "size 2-3 cells, faces none | (pec,pmc) | pec | pmc",
        "materials": ["iso", "diag", "full", "iso+mu"],
        "grids": ["uniform", "rect_distinct (tiled widths)"],
        "tolerance": TOL,
    }


def _kval(kc, L, seed):
    return {"0": 0.0, "+g": 0.83 / L, "-g": -0.83 / L, "pi": np.pi / L, "seed": (0.31 + 0.17 * (seed % 7)) / L}[kc]


def build_pair(case):
    from mc import scenes
    import jax.numpy as jnp

    axes, N, m, seed = case["axes"], case["N"], case["m"], case["seed"]
    shapeA = [N if a in axes else (3 if a == 0 else 2 + (a % 2)) for a in range(3)]
    shapeB = [N * m if a in axes else shapeA[a] for a in range(3)]
    edgesA = [scenes.edges_for(case["grid"] if case["grid"] != "uniform" else "rect_uniform", shapeA[a], SP, seed, a) for a in range(3)]
    wA = [np.diff(e) for e in edgesA]
    wB = [np.tile(wA[a], m) if a in axes else wA[a] for a in range(3)]
    edgesB = [np.concatenate([[0.0], np.cumsum(w)]) for w in wB]
    LA = [float(np.sum(wA[a])) for a in range(3)]
    kind = "periodic" if case["k"] == "0" else "bloch"
    per_axis = []
    for a in range(3):
        if a in axes:
            per_axis.append(kind)
        else:
            per_axis.append({"none": "none", "pecpmc": ("pec", "pmc"), "pec": ("pec", "pec"), "pmc": ("pmc", "pmc")}[case["other"]])
    faces = scenes.faces_from_axes(per_axis)
    bloch = [(_kval(case["k"], LA[a], seed) * (1 + 0.21 * a)) if a in axes else 0.0 for a in range(3)]
    base = dict(faces=faces, bloch=bloch, steps=2, seed=seed)
    if case["grid"] == "uniform":
        specA = dict(base, shape=shapeA, grid="uniform")
        specB = dict(base, shape=shapeB, grid="uniform")
    else:
        specA = dict(base, shape=shapeA, grid={"edges": [list(map(float, e)) for e in edgesA]})
        specB = dict(base, shape=shapeB, grid={"edges": [list(map(float, e)) for e in edgesB]})
    mats = {
        "iso": dict(eps={"tier": "iso", "pat": "distinct"}),
        "diag": dict(eps={"tier": "diag", "pat": "distinct"}),
        "full": dict(eps={"tier": "full", "pat": "distinct"}),
        "iso+mu": dict(eps={"tier": "iso", "pat": "seed"}, mu={"tier": "diag", "pat": "distinct"}),
    }[case["mats"]]
    specA.update(mats)
    scA = scenes.build(specA)
    scB = scenes.build(specB)
    reps = [1] + [m if a in axes else 1 for a in range(3)]
    arrB = scB.arrays.aset("inv_permittivities", jnp.asarray(np.tile(np.asarray(scA.arrays.inv_permittivities), reps)))
    imu = scA.arrays.inv_permeabilities
    if hasattr(imu, "shape") and np.ndim(imu) > 0:
        arrB = arrB.aset("inv_permeabilities", jnp.asarray(np.tile(np.asarray(imu), reps)))
    scB.arrays = arrB
    scenes.reapply(scB)
    phases = [np.exp(1j * bloch[a] * LA[a]) if a in axes else 1.0 for a in range(3)]
    return scA, scB, shapeA, shapeB, phases


def tile_state(v, shapeA, axes, m, phases, is_complex):
    """Tile a flat (E,H) state of the small cell into the supercell with the Bloch phase per copy."""
    nA = 3 * int(np.prod(shapeA))
    out = []
    for part in (v[..., :nA], v[..., nA:]):
        f = part.reshape(*part.shape[:-1], 3, *shapeA)
        for a in range(3):
            if a not in axes:
                continue
            ax = f.ndim - 3 + a
            copies = [f * (phases[a] ** c) for c in range(m)]
            f = np.concatenate(copies, axis=ax)
        out.append(f.reshape(*part.shape[:-1], -1))
    r = np.concatenate(out, axis=-1)
    return r if is_complex else r.real


def run_case(case):
    from mc import linsys, tables

    scA, scB, shapeA, shapeB, phases = build_pair(case)
    cA, cB = linsys.Codec(scA.arrays), linsys.Codec(scB.arrays)
    n = cA.n
    isc = bool(cA.is_complex)
    assert bool(cB.is_complex) == isc
    keep = linsys.wall_keep(scA, cA)
    rows = tables.Rows(n, isc, 1, t0s=(0,), seed=case["seed"], keep=keep)
    YA, _ = tables.run(scA, cA, rows.tvec, rows.X, record_detectors=False)
    XB = tile_state(rows.X, shapeA, case["axes"], case["m"], phases, isc)
    YB, _ = tables.run(scB, cB, rows.tvec, XB, record_detectors=False)
    exp = tile_state(YA, shapeA, case["axes"], case["m"], phases, isc)
    sc = max(1.0, float(np.max(np.abs(YA))))
    d = float(np.max(np.abs(YB - exp))) / sc
    daff = tables.affinity_defect(rows, YA, 0) / sc
    M, b, _, _ = tables.table(rows, YA, np.zeros((len(rows.tvec), 0)), 0)
    # non-trivial: a basis state located in the last cell along a periodic axis changes the first cell (wrap coupling)
    wrap = 0.0
    nA = 3 * int(np.prod(shapeA))
    for a in case["axes"]:
        idx_last = np.zeros((3, *shapeA), dtype=bool)
        sl = [slice(None)] * 4
        sl[a + 1] = shapeA[a] - 1
        idx_last[tuple(sl)] = True
        idx_first = np.zeros((3, *shapeA), dtype=bool)
        sl[a + 1] = 0
        idx_first[tuple(sl)] = True
        il = np.concatenate([idx_last.ravel(), idx_last.ravel()])
        i_f = np.concatenate([idx_first.ravel(), idx_first.ravel()])
        if shapeA[a] > 1:
            sub = M[np.ix_(i_f, il)] if shapeA[a] > 2 else M[np.ix_(i_f, il)]
            wrap = max(wrap, float(np.max(np.abs(sub))))
    detail = dict(defect=d, affinity_defect=daff, nA=n, nB=cB.n, wrap_coupling=wrap, rows=len(rows.tvec), phases=[complex(p).real for p in phases])
    fails = []
    if d > TOL:
        r = int(np.argmax(np.max(np.abs(YB - exp), axis=1)))
        fails.append(dict(sig=f"supercell-differs-from-tiled-cell:grid={case['grid']}:mats={case['mats']}", detail=dict(detail, worst_row=str(rows.labels[r]))))
    if daff > TOL:
        fails.append(dict(sig="step-not-affine", detail=detail))
    ev = 2 * len(rows.tvec)
    return dict(ok=not fails, failures=fails, detail=detail, nontrivial=int(wrap > 0), evals=ev, states=len(rows.tvec), transitions=ev, traces=0, outcome=f"k={case['k']},axes={len(case['axes'])}")
