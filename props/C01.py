"""C01 — discrete Yee energy is conserved; electric conductivity only dissipates.

Engine E1: for every configuration the real `forward` step is tabulated on all basis states (M), the energy of
the state pair (s_{k-1}, s_k) is written as the quadratic form Q1 on s_{k-1}, the energy one step later as
Q2 = M^H Q1 M, and `Pi^H (Q2 - Q1) Pi = 0` (lossless) / `<= 0` (sigma_E >= 0) is checked on the wall-consistent
subspace. By induction that is "for every field and any number of steps".
"""
import itertools
import json

import numpy as np

ID = "C01"
LEVEL = "model_checking"
MANIFEST = {
    "engine": "E1-linsys",
    "technique": "explicit-state model checking: exhaustive tabulation of the real step on all basis states, energy identity on the transition table",
    "text": "For every configuration of the bounded space (all admissible face combinations, material tiers, grids, shapes) the real forward step is tabulated on every basis state of (E,H); the energy form of consecutive states is proved invariant (or non-increasing with sigma_E>=0) as a matrix identity on that table, which covers every field input and, by induction, any number of steps.",
    "note": "Material/grid values from finite alphabets (vacuum, all-distinct, seed); float64; affinity of the step checked on all pairs of a 12-state block; tables replayed against custom_fdtd_forward (JIT while_loop) on dense states.",
}
RULE = (
    "case = (shape, per-axis face pair from the 11 admissible (min,max) combinations, eps tier/pattern, mu tier/pattern, "
    "sigma_E, grid kind); all basis states of (E,H) are tabulated through fdtdx.fdtd.forward.forward. A case is non-trivial "
    "when the tabulated step couples E and H (||M_EH||>0 and ||M_HE||>0) and at least one basis state reaches a non-default "
    "face treatment (wall/wrap) or a non-vacuum material; distinct = distinct case descriptors."
)
ASSUMPTIONS = [
    "float64 evaluation is representative of the float32 default",
    "material/grid-edge values come from finite alphabets (vacuum, uniform, all-distinct, VERIF_SEED pattern)",
    "eager jax.vmap over basis states evaluates the same Python code as a single call (spot-checked by conformance replays through custom_fdtd_forward)",
]
TOL = 1e-9

AXIS_ALPHA = [(a, b) for a in ("none", "pec", "pmc") for b in ("none", "pec", "pmc")] + [("periodic", "periodic"), ("bloch", "bloch")]
OTHER_Q = ["none", "periodic", "pec"]


def _faces_key(f):
    return "|".join(f"{a}-{b}" for a, b in f)


def cases(tier, seed):
    out = []
    mats_q = [
        ({"tier": "iso", "pat": "distinct"}, None),
        ({"tier": "diag", "pat": "distinct"}, {"tier": "diag", "pat": "distinct"}),
        ({"tier": "iso", "pat": "vac"}, {"tier": "iso", "pat": "seed"}),
    ]
    sig_q = [None, {"tier": "iso", "pat": "some"}, {"tier": "diag", "pat": "distinct"}]
    if tier == "quick":
        shapes = [(3, 3, 3), (2, 3, 4)]
        grids = ["uniform", "rect_distinct"]
        face_sets = []
        for ax in range(3):
            for pair in AXIS_ALPHA:
                for o1 in OTHER_Q:
                    for o2 in OTHER_Q:
                        f = [None, None, None]
                        f[ax] = pair
                        oth = [a for a in range(3) if a != ax]
                        f[oth[0]] = (o1, o1)
                        f[oth[1]] = (o2, o2)
                        face_sets.append(tuple(f))
        face_sets = sorted(set(face_sets), key=_faces_key)
        k = 0
        for shape in shapes:
            for g in grids:
                for fs in face_sets:
                    # rotate through material/sigma menus so that every (face set) meets every tier pair over the run
                    eps, mu = mats_q[k % 3]
                    sig = sig_q[(k // 3) % 3]
                    k += 1
                    out.append(dict(shape=shape, faces=fs, eps=eps, mu=mu, sig_e=sig, grid=g, conf=False))
        # full material x sigma x grid product on a face set that contains every kind
        mix = [(("pec", "pmc"), ("periodic", "periodic"), ("none", "pec")), (("bloch", "bloch"), ("pmc", "none"), ("periodic", "periodic"))]
        for fi, fs in enumerate(mix):
            for shape in shapes:
                for g in ["uniform", "rect_uniform", "rect_distinct", "rect_seed"]:
                    for mi, (eps, mu) in enumerate(mats_q + [({"tier": "diag", "pat": "seed"}, {"tier": "iso", "pat": "distinct"})]):
                        for sig in sig_q:
                            # conformance replay through the JIT driver (a compile each): one per (shape, grid, tier)
                            conf = (fi == 0 and sig is None) or (fi == 1 and mi == 1 and sig is not None and sig["tier"] == "diag")
                            out.append(dict(shape=shape, faces=fs, eps=eps, mu=mu, sig_e=sig, grid=g, conf=conf))
    else:
        shapes = [(3, 3, 3), (2, 3, 4), (4, 2, 3)]
        grids = ["uniform", "rect_distinct", "rect_seed"]
        tiers = [
            ({"tier": "iso", "pat": "distinct"}, None),
            ({"tier": "diag", "pat": "distinct"}, {"tier": "diag", "pat": "distinct"}),
            ({"tier": "iso", "pat": "seed"}, {"tier": "iso", "pat": "seed"}),
            ({"tier": "diag", "pat": "seed"}, {"tier": "iso", "pat": "distinct"}),
        ]
        k = 0
        for fs in itertools.product(AXIS_ALPHA, repeat=3):
            for shape in shapes:
                for g in grids:
                    eps, mu = tiers[k % 4]
                    sig = sig_q[(k // 4) % 3]
                    k += 1
                    out.append(dict(shape=shape, faces=fs, eps=eps, mu=mu, sig_e=sig, grid=g, conf=(k % 97 == 0)))
        # full material x conductivity product on the axis-exhaustive face sets (each axis over all 11 pairs, the others
        # over {none, periodic, pec}) for every shape and grid
        face_sets = set()
        for ax in range(3):
            for pair in AXIS_ALPHA:
                for o1 in OTHER_Q:
                    for o2 in OTHER_Q:
                        f = [None, None, None]
                        f[ax] = pair
                        oth = [a for a in range(3) if a != ax]
                        f[oth[0]] = (o1, o1)
                        f[oth[1]] = (o2, o2)
                        face_sets.add(tuple(f))
        seen = {json.dumps([c["shape"], c["faces"], c["eps"], c["mu"], c["sig_e"], c["grid"]], sort_keys=True) for c in out}
        for fs in sorted(face_sets, key=_faces_key):
            for shape in shapes + [(3, 2, 4)]:
                for g in grids:
                    for eps, mu in tiers:
                        for sig in sig_q:
                            c = dict(shape=shape, faces=fs, eps=eps, mu=mu, sig_e=sig, grid=g, conf=False)
                            key = json.dumps([c["shape"], c["faces"], c["eps"], c["mu"], c["sig_e"], c["grid"]], sort_keys=True)
                            if key not in seen:
                                seen.add(key)
                                out.append(c)
    for c in out:
        c["seed"] = seed
    return out


def bounds(tier, seed):
    return {
        "shapes": [(3, 3, 3), (2, 3, 4)] + ([(4, 2, 3), (3, 2, 4)] if tier == "thorough" else []),
        "faces": "quick: each axis ranges over all 11 admissible (min,max) pairs while the other two range over {none,periodic,pec}; thorough: full 11^3 product (materials rotating) + the quick face sets with the full materials x sigma x grid x shape product",
        "materials": "eps/mu tiers iso|diag with patterns vac|distinct|seed; sigma_E none|iso(with zeros)|diag",
        "grids": "uniform, rect_uniform, rect_distinct, rect_seed",
        "basis": "all 2*3*N basis states of (E,H) per configuration (and i*e_j for Bloch), affinity on all pairs of a 12-state block",
        "tolerance": TOL,
        "seed": seed,
    }


def _spec(case):
    from mc import scenes

    faces = scenes.faces_from_axes(case["faces"])
    spec = dict(shape=case["shape"], faces=faces, grid=case["grid"], eps=case["eps"], mu=case["mu"], sig_e=case["sig_e"], seed=case["seed"], steps=6)
    if any(p[0] == "bloch" for p in case["faces"]):
        # generic non-zero Bloch vector on the bloch axes (and a seed-dependent one)
        L = 50e-9 * 3
        spec["bloch"] = [(0.9 + 0.1 * (case["seed"] % 5)) / L * (1 + 0.37 * a) if case["faces"][a][0] == "bloch" else 0.0 for a in range(3)]
    return spec


def energy_weights(sc, periodic_avg=False):
    """Primal/dual cell-volume weights of every E and H component, from the grid the check itself set."""
    cfg = sc.config
    shape = sc.objects.volume.grid_shape
    g = cfg.resolved_grid
    prim, dual = [], []
    wrap = [False] * 3
    for b in sc.objects.boundary_objects:
        if b.uses_wrap_padding:
            wrap[b.axis] = True
    for a in range(3):
        w = np.asarray(g.cell_widths(a), dtype=np.float64)
        prev = np.concatenate([w[:1], w[:-1]])
        if periodic_avg and wrap[a]:
            prev = np.concatenate([w[-1:], w[:-1]])
        prim.append(w)
        dual.append(0.5 * (w + prev))

    def vol(kinds):
        ws = [prim[a] if kinds[a] == "p" else dual[a] for a in range(3)]
        return ws[0][:, None, None] * ws[1][None, :, None] * ws[2][None, None, :]

    wE = np.stack([vol("pdd"), vol("dpd"), vol("ddp")])
    wH = np.stack([vol("dpp"), vol("pdp"), vol("ppd")])
    return wE, wH


def wall_projector(sc, n):
    """Diagonal 0/1 projector on states satisfying the PEC (tangential E) and PMC (tangential H) wall conditions."""
    shape = sc.objects.volume.grid_shape
    keepE = np.ones((3, *shape))
    keepH = np.ones((3, *shape))
    import fdtdx

    for b in sc.objects.boundary_objects:
        tang = [c for c in range(3) if c != b.axis]
        if isinstance(b, fdtdx.PerfectElectricConductor):
            for c in tang:
                keepE[(c, *b.grid_slice)] = 0
        elif isinstance(b, fdtdx.PerfectMagneticConductor):
            for c in tang:
                keepH[(c, *b.grid_slice)] = 0
    return np.concatenate([keepE.ravel(), keepH.ravel()])


def run_case(case):
    from mc import linsys, scenes
    import jax.numpy as jnp

    sc = scenes.build(_spec(case))
    codec = linsys.Codec(sc.arrays)
    n = codec.n
    nE = n // 2
    f = linsys.forward_fn(sc, codec, 0)
    block = list(range(0, n, max(1, n // 12)))[:12]
    M, b, d_aff, evals = linsys.tabulate_checked(f, n, codec.dtype, block, codec.is_complex)
    detail = {}
    fails = []
    if np.max(np.abs(b)) != 0.0:
        fails.append(dict(sig="nonzero-offset-in-source-free-domain", detail={"max_b": float(np.max(np.abs(b)))}))
    if d_aff > TOL:
        fails.append(dict(sig="step-not-affine", detail={"defect": d_aff}))

    inv_eps = np.asarray(sc.arrays.inv_permittivities, dtype=np.float64)
    inv_mu = sc.arrays.inv_permeabilities
    inv_mu = np.asarray(inv_mu, dtype=np.float64) if hasattr(inv_mu, "shape") and np.ndim(inv_mu) > 0 else np.full((1, 1, 1, 1), float(inv_mu))
    shape = sc.objects.volume.grid_shape
    eps = np.broadcast_to(1.0 / inv_eps, (3, *shape))
    mu = np.broadcast_to(1.0 / inv_mu, (3, *shape))
    keep = wall_projector(sc, n)
    idx = np.nonzero(keep)[0]
    best = None
    for pavg in (False, True):
        wE, wH = energy_weights(sc, periodic_avg=pavg)
        P = (wE * eps).ravel()
        R = (wH * mu).ravel()
        ME, MH = M[:nE, :], M[nE:, :]
        # W(s) = (M s)_E^H P (M s)_E + Re( s_H^H R (M s)_H )
        Q1 = ME.conj().T @ (P[:, None] * ME)
        Bm = np.zeros((n, n), dtype=M.dtype)
        Bm[nE:, :] = R[:, None] * MH
        Q1 = Q1 + 0.5 * (Bm + Bm.conj().T)
        Q2 = M.conj().T @ Q1 @ M
        D = (Q2 - Q1)[np.ix_(idx, idx)]
        scale = float(np.max(np.abs(Q1[np.ix_(idx, idx)])))
        if case["sig_e"] is None:
            r = float(np.max(np.abs(D))) / scale
        else:
            Dh = 0.5 * (D + D.conj().T)
            r = float(np.max(np.linalg.eigvalsh(Dh))) / scale
            detail["min_eig_rel"] = float(np.min(np.linalg.eigvalsh(Dh))) / scale
        if best is None or r < best[0]:
            best = (r, pavg)
        if not any(p[0] in ("periodic", "bloch") for p in case["faces"]) or case["grid"] in ("uniform", "rect_uniform"):
            break
    detail["residual_rel"] = best[0]
    detail["periodic_avg_weights"] = best[1]
    detail["affinity_defect"] = d_aff
    if best[0] > TOL:
        fails.append(dict(sig="energy-not-conserved" if case["sig_e"] is None else "energy-increases-with-sigma", detail=dict(detail)))
    # positivity of the energy form itself on the CFL-stable scheme guards against a vacuous (zero) form
    coupl = float(np.max(np.abs(M[:nE, nE:]))) > 0 and float(np.max(np.abs(M[nE:, :nE]))) > 0
    nontriv = coupl and (any(p != ("none", "none") for p in case["faces"]) or case["eps"]["pat"] != "vac")
    traces = 0
    if case.get("conf"):
        # conformance: 4-step trajectory of a dense generic state through the public JIT driver vs M^4 s
        from fdtdx.fdtd.fdtd import custom_fdtd_forward
        import jax

        for kind in ("distinct",):
            s0 = linsys.dense_state(n, kind, case["seed"], codec.is_complex) * keep
            a0 = codec.unpack(sc.arrays, jnp.asarray(s0, dtype=codec.dtype))
            _, a4 = custom_fdtd_forward(a0, sc.objects, sc.config, jax.random.PRNGKey(0), reset_container=False, record_detectors=False, start_time=0, end_time=4, show_progress=False)
            got = np.asarray(codec.pack(a4))
            exp = np.linalg.matrix_power(M, 4) @ s0
            dconf = float(np.max(np.abs(got - exp))) / max(1e-300, float(np.max(np.abs(exp))))
            detail["conformance_defect"] = dconf
            traces += 1
            if dconf > 1e-9:
                fails.append(dict(sig="conformance:table-vs-driver-diverge", detail={"defect": dconf}))
    return dict(
        ok=not fails,
        failures=fails,
        detail=detail,
        nontrivial=int(nontriv),
        evals=evals,
        states=n + len(block) * (len(block) + 1) // 2 + 1,
        transitions=evals,
        traces=traces,
        outcome="lossless" if case["sig_e"] is None else ("dissipates" if detail.get("min_eig_rel", 0) < -1e-6 else "lossy-but-flat"),
    )
