"""C15 — detectors record the co-located fields of their region.

Engine E1 on the recording map: for every configuration (per-axis boundary kind incl. an electric symmetry plane,
grid) FieldDetectors on *all* sub-boxes of the domain are updated by the real `update_detector_states` on 0 and on
every basis state of (E, H_prev, H); the resulting record matrices are compared with an independent numpy
co-location oracle that knows nothing about the interior fast path, so agreement on all boxes *is* the
fast-path / fallback agreement.
"""
import itertools

import numpy as np

ID = "C15"
LEVEL = "model_checking"
MANIFEST = {
    "engine": "E1-linsys (record map)",
    "technique": "explicit-state model checking: exhaustive tabulation of the real detector recording map (update_detector_states) on all basis states of (E,H_prev,H) for all sub-boxes of the domain, matrix comparison with an independent co-location oracle",
    "text": "For every per-axis boundary combination (none/PEC/PMC/periodic/Bloch/electric symmetry plane) and grid (uniform, non-uniform) FieldDetectors on every sub-box of a 3x4x3 (thorough 4x4x4) domain, with and without exact interpolation, are updated through update_detector_states on 0 and every basis state of (E,H_prev,H) plus affinity rows; the tabulated record matrix of each box must equal the numpy reference (backward half-step averages with zero / wrap / Bloch-phase / parity-mirror halo, distance-weighted on non-uniform grids; raw components without interpolation). Tables are replayed against multi-step custom_fdtd_forward runs.",
    "note": "Field values are covered completely by linearity (checked on affinity rows); grid-edge values and Bloch phases come from finite alphabets (uniform, all-distinct, VERIF_SEED). On periodic non-uniform axes the width attributed to the wrapped neighbour cell may be the cell's own width (documented halo convention) or the last cell's width.",
}
RULE = (
    "case = (domain shape, per-axis boundary kind, grid, raw flag); inside a case every sub-box of the domain is one element "
    "(one exact detector, plus one raw detector when the raw flag is set), tabulated on all 9N basis states. An element is "
    "non-trivial when its co-location stencil reaches a domain edge (fallback path, halo matters); distinct = distinct boxes x cases."
)
ASSUMPTIONS = [
    "float64/complex128 evaluation is representative of the float32 default",
    "grid-edge values and Bloch phases come from finite alphabets (uniform, all-distinct, VERIF_SEED pattern)",
    "eager (disable_jit) jax.vmap over basis states evaluates the same Python code as the jitted driver (checked by conformance replays through custom_fdtd_forward)",
    "detectors are placed with Detector.place_on_grid, the call place_objects makes; the conformance replays use place_objects",
]
TOL = 1e-9
# On a periodic/Bloch axis of a non-uniform grid the cell behind cell 0 is the wrapped last cell. interpolate_fields
# attributes the width of cell 0 itself to it (documented halo convention); both readings are accepted. Set to False to
# demand the wrapped width (then the current code fails with sig record-differs-from-colocation:exact:edge:wrap|bloch:nonuniform).
ACCEPT_OWN_WIDTH_ON_PERIODIC_AXES = True

Q_KINDS = ["none", "periodic", "bloch", "sym"]
WALL_KINDS = ["pec-pmc", "pmc-pec", "pec-pec", "pmc-pmc", "none-pec", "pmc-none", "sym-pec", "sym-pmc"]
T_KINDS = ["none", "pec-pmc", "periodic", "bloch", "sym", "sym-pec"]


def _kind_sets(tier):
    if tier == "quick":
        sets = list(itertools.product(Q_KINDS, repeat=3))
        for ax in range(3):
            for k in WALL_KINDS:
                for other in ("none", "periodic"):
                    f = [other] * 3
                    f[ax] = k
                    sets.append(tuple(f))
        # a z-symmetric plane next to walls on the other axes, and the mixed case of every kind
        sets += [("pec-pmc", "sym", "bloch"), ("bloch", "pmc-pec", "sym"), ("sym", "bloch", "pec-pmc")]
    else:
        sets = list(itertools.product(T_KINDS, repeat=3))
        for ax in range(3):
            for k in WALL_KINDS:
                for other in ("none", "periodic", "sym"):
                    f = [other] * 3
                    f[ax] = k
                    sets.append(tuple(f))
    seen, out = set(), []
    for s in sets:
        if s not in seen:
            seen.add(s)
            out.append(s)
    return out


def _simplicity(ks):
    order = {"none": 0, "periodic": 2, "pec-pmc": 1, "pmc-pec": 1, "bloch": 3, "sym": 3}
    return sum(order.get(k, 2) for k in ks)


def cases(tier, seed):
    shape = (3, 4, 3) if tier == "quick" else (4, 4, 4)
    grids = ["uniform", "rect_distinct"] + (["rect_seed"] if (tier == "thorough" or seed) else [])
    out = []
    ksets = sorted(_kind_sets(tier), key=_simplicity)
    conf_sets = {("none", "none", "none"), ("periodic", "bloch", "none"), ("sym", "periodic", "pec-pmc") if tier == "thorough" else ("sym", "none", "periodic"), ("bloch", "sym", "none")}
    for g in grids:
        for i, ks in enumerate(ksets):
            if g == "rect_seed" and not all(k in Q_KINDS for k in ks):
                continue  # the VERIF_SEED width pattern widens the alphabet on the full {none,periodic,bloch,sym}^3 product
            out.append(dict(shape=shape, kinds=ks, grid=g, raw=(i == 0 or ks == ("bloch", "periodic", "sym")), conf=(ks in conf_sets and g != "rect_seed"), seed=seed))
    return out


def bounds(tier, seed):
    shape = (3, 4, 3) if tier == "quick" else (4, 4, 4)
    from math import prod

    nb = prod(n * (n + 1) // 2 for n in shape)
    return {
        "domain": shape,
        "boxes_per_case": nb,
        "axis_kinds": "quick: {none,periodic,bloch,sym}^3 plus every wall pair (pec/pmc/none combinations, sym with pec/pmc far wall) on each axis with the other axes none|periodic; thorough: {none,pec-pmc,periodic,bloch,sym,sym-pec}^3 plus the wall pairs with other axes none|periodic|sym",
        "cases": len(cases(tier, seed)),
        "grids": ["uniform", "rect_distinct"] + (["rect_seed (on the {none,periodic,bloch,sym}^3 product)"] if (tier == "thorough" or seed) else []),
        "basis": "all 9N basis states of (E,H_prev,H) + 0 + 36 affinity rows (+ i*e_j rows for complex fields)",
        "exact_interpolation": "True for every box in every case; False for every box in two cases per grid (raw records do not depend on the halo)",
        "tolerance": TOL,
        "seed": seed,
    }


_CACHE = {}


def _detectors(shape, sc, key, raw):
    """Placed detectors for all sub-boxes (cached per worker and configuration of the SimulationConfig)."""
    from mc import guard
    from mc.oracles import det_scenes as DS

    fdtdx = guard.import_fdtdx()
    import jax.numpy as jnp

    ck = (key, raw)
    if ck in _CACHE:
        return _CACHE[ck]
    cplx = jnp.issubdtype(sc.arrays.fields.E.dtype, jnp.complexfloating)
    dt = jnp.complex128 if cplx else jnp.float64
    dets = []
    boxes = DS.all_boxes(shape)
    for i, b in enumerate(boxes):
        for ex in (True, False) if raw else (True,):
            d = fdtdx.FieldDetector(name=f"b{i}_{'x' if ex else 'r'}", dtype=dt, exact_interpolation=ex, plot=False)
            dets.append((DS.place(d, b, sc.config), b, ex))
    if len(_CACHE) > 6:
        _CACHE.clear()
    _CACHE[ck] = dets
    return dets


def run_case(case):
    from mc import guard, linsys
    from mc.oracles import det_scenes as DS
    from mc.oracles import detectors as O

    guard.import_fdtdx()
    import jax
    import jax.numpy as jnp

    shape = tuple(case["shape"])
    kinds = tuple(case["kinds"])
    spec, info = DS.halo_spec(shape, kinds, case["grid"], case["seed"], steps=1)
    sc = DS.build(spec)
    if tuple(sc.objects.volume.grid_shape) != shape:
        raise RuntimeError(f"harness: reduced shape {sc.objects.volume.grid_shape} != {shape}")
    g = sc.config.resolved_grid
    if g is not None and not info["uniform"]:
        for a in range(3):
            if not np.allclose(np.asarray(g.cell_widths(a)), info["widths"][a], rtol=1e-12, atol=0):
                raise RuntimeError("harness: resolved grid widths differ from the widths the check set")
    cplx = bool(jnp.issubdtype(sc.arrays.fields.E.dtype, jnp.complexfloating))
    dets = _detectors(shape, sc, (shape, case["grid"], info["sym"], cplx, case["seed"], tuple(np.round(np.angle(info["phases"]), 12))), case["raw"])
    objs, arrays = DS.with_detectors(sc, [d for d, _, _ in dets])
    n, _ = DS.field_codec(shape)
    dtype = jnp.complex128 if cplx else jnp.float64
    block = list(range(0, n, max(1, n // 8)))[:8]
    Xa = linsys.affinity_rows(n, block, cplx)
    X = np.concatenate([np.zeros((1, n)), np.eye(n), Xa], axis=0).astype(np.complex128 if cplx else np.float64)
    f = DS.record_fn(arrays, objs, sc.config, shape, t=0, pick=lambda st: {k: v["fields"][0] for k, v in st.items()})
    with jax.disable_jit():
        out = jax.vmap(f)(jnp.asarray(X, dtype=dtype))
    out = {k: np.asarray(v) for k, v in out.items()}
    E, Hp, H = DS.unpack_np(X, shape)
    fails = []
    best = None
    wrapped_nonuniform = not info["uniform"] and any(h in ("wrap", "bloch") for h in info["halos"])
    variants = (["own"] if (ACCEPT_OWN_WIDTH_ON_PERIODIC_AXES or not wrapped_nonuniform) else []) + (["wrap"] if wrapped_nonuniform else [])
    nontriv = 0
    n_edge = n_int = 0
    for hv in variants:
        Ec, Hc = O.colocate(E, Hp, H, info["halos"], info["phases"], info["widths"], info["uniform"], halo_width=hv)
        worst = (0.0, None)
        vf = []
        for d, b, ex in dets:
            if ex:
                exp = np.concatenate([O.restrict(Ec, b), O.restrict(Hc, b)], axis=1)
            else:
                exp = np.concatenate([O.restrict(E, b), O.restrict(H, b)], axis=1)
            got = out[d.name]
            if got.shape != exp.shape:
                vf.append((b, ex, "shape", 1.0))
                continue
            r = float(np.max(np.abs(got - exp)))
            if r > worst[0]:
                worst = (r, (b, ex))
            if r > TOL:
                vf.append((b, ex, "value", r))
        if best is None or len(vf) < len(best[1]):
            best = (hv, vf, worst)
        if not vf:
            break
    hv, vf, worst = best
    for d, b, ex in dets:
        if ex:
            edge = any(b[a][0] == 0 or b[a][1] == shape[a] for a in range(3))
            n_edge += int(edge)
            n_int += int(not edge)
    if vf:
        # classify the smallest failing box
        vf.sort(key=lambda x: (sum(bb[1] - bb[0] for bb in x[0]), x[0]))
        b, ex, what, r = vf[0]
        touch = []
        for a in range(3):
            if b[a][0] == 0:
                touch.append(f"min{'xyz'[a]}:{info['halos'][a]}")
            if b[a][1] == shape[a]:
                touch.append(f"max{'xyz'[a]}:{info['halos'][a]}")
        cls = "interior-fast-path" if not touch else "edge:" + "+".join(sorted(set(t.split(":")[1] for t in touch)))
        fails.append(
            dict(
                sig=f"record-differs-from-colocation:{'exact' if ex else 'raw'}:{cls}:{'uniform' if info['uniform'] else 'nonuniform'}",
                detail=dict(box=b, what=what, max_abs=r, failing_boxes=len(vf), of=len(dets), kinds=kinds, grid=case["grid"], touches=touch),
            )
        )
    # zero state -> zero record (no offset), exact
    zmax = max(float(np.max(np.abs(v[0]))) for v in out.values())
    if zmax != 0.0:
        fails.append(dict(sig="record-of-zero-state-nonzero", detail=dict(max=zmax)))
    traces = 0
    detail = dict(worst_abs=worst[0], worst_box=worst[1], halo_width_variant=hv, boxes=len(dets), edge_boxes=n_edge, interior_boxes=n_int)
    if case.get("conf") and not fails:
        tr, tf = _conformance(case, sc, spec, info, out, dets, shape)
        traces += tr
        fails += tf
    return dict(
        ok=not fails,
        failures=fails,
        detail=detail,
        nontrivial=n_edge,
        evals=len(dets) * X.shape[0],
        states=X.shape[0],
        transitions=len(dets) * X.shape[0],
        traces=traces,
        outcome={"edge-box": n_edge, "interior-box": n_int, f"halo-width-{hv}": 1},
    )


def _conformance(case, sc0, spec, info, out, dets, shape):
    """Replay: a multi-step jitted run with a source and three detectors placed by place_objects; the recorded arrays
    must equal the *tabulated* record matrices applied to the trajectory (obtained by stepping `forward` eagerly)."""
    from mc import linsys
    from mc.oracles import det_scenes as DS

    import jax
    import jax.numpy as jnp
    from fdtdx.fdtd.fdtd import custom_fdtd_forward
    from fdtdx.fdtd.forward import forward

    T = 4
    sym = info["sym"]
    full = info["full_shape"]
    # boxes in reduced coordinates: interior (if any), min-corner, max-corner
    picks = [tuple((1, shape[a] - 1) if shape[a] > 2 else (0, shape[a]) for a in range(3)), tuple((0, 2) for a in range(3)), tuple((shape[a] - 2, shape[a]) for a in range(3)), tuple((0, shape[a]) for a in range(3))]
    dspecs = []
    for i, b in enumerate(picks):
        fb = [[b[a][0] + (shape[a] if sym[a] else 0), b[a][1] + (shape[a] if sym[a] else 0)] for a in range(3)]
        dspecs.append(dict(kind="field", name=f"c{i}", box=fb, exact_interpolation=True))
    src_box = [[(shape[a] if sym[a] else 0) + min(1, shape[a] - 1), (shape[a] if sym[a] else 0) + min(1, shape[a] - 1) + 1] for a in range(3)]
    spec2 = dict(spec, steps=T, detectors=dspecs, sources=[dict(kind="dipole", box=src_box, polarization=1, wave={"wavelength": 4.3e-7})])
    sc = DS.build(spec2, check_boxes=False)
    for i, b in enumerate(picks):
        d = [o for o in sc.objects.detectors if o.name == f"c{i}"][0]
        if tuple(tuple(p) for p in d.grid_slice_tuple) != tuple(b):
            raise RuntimeError(f"harness: conformance detector c{i} at {d.grid_slice_tuple}, wanted {b}")
    codec = linsys.Codec(sc.arrays)
    cplx = codec.is_complex
    s0 = linsys.dense_state(codec.n, "distinct", case["seed"], cplx) * 1e-3
    arrays0 = codec.unpack(sc.arrays, jnp.asarray(s0, dtype=codec.dtype))
    key = jax.random.PRNGKey(0)
    _, aT = custom_fdtd_forward(arrays0, sc.objects, sc.config, key, reset_container=False, record_detectors=True, start_time=0, end_time=T, show_progress=False)
    fails = []
    # trajectory by eager stepping (no detectors), records from the table
    name_of = {b: d.name for d, b, ex in dets if ex}
    arr = arrays0
    N = int(np.prod(shape))
    worst = 0.0
    with jax.disable_jit():
        for t in range(T):
            Hp = np.asarray(arr.fields.H)
            _, arr = forward((jnp.asarray(t, dtype=jnp.int32), arr), sc.config, sc.objects, key, False, False, True)
            v = np.concatenate([np.asarray(arr.fields.E).ravel(), Hp.ravel(), np.asarray(arr.fields.H).ravel()])
            for i, b in enumerate(picks):
                tab = out[name_of[tuple(b)]]  # (1+n+extra, 6, *box)
                R = tab[1 : 1 + 9 * N]  # rows: basis states
                exp = np.tensordot(v, R, axes=(0, 0))
                got = np.asarray(aT.detector_states[f"c{i}"]["fields"][t])
                scale = max(1e-300, float(np.max(np.abs(exp))))
                r = float(np.max(np.abs(got - exp))) / scale
                worst = max(worst, r)
                if r > 1e-9:
                    fails.append(dict(sig="conformance:table-vs-driver-diverge", detail=dict(box=b, step=t, rel=r)))
                    break
    return 1, fails[:2]
