"""C06 — the simulation state depends only on the steps executed, not on how the run is split; reset / a new run
zero all time-dependent state and keep the materials.

Explicit-state exploration of operation histories on one real scene (PML, a switched source, detectors with
window / interval switches and a phasor accumulator). Operations:
    F(l)  custom_fdtd_forward(arrays, t -> t+l)      (all l in 1..T-t: every split point)
    R     arrays.reset()
    RUN   run_fdtd(arrays)                           (on fresh arrays and on arrays returned by any earlier operation)
Part 1 (history trie, NO deduplication): every sequence of partial runs F(l1)F(l2)... with l1+l2+... <= T is executed
    in its own right — 2^T histories, of which 2^(T-1) are the complete compositions of T.  Every history followed by R.
Part 2 (BFS with deduplication by canonical state): nodes (time index, canonical state, resets used <= 2); every node is
    expanded with every operation (F(l) for all l, R, RUN).
Invariant: the canonical state (fields, PML psi, detector states) is a function of the time index alone  =>  exactly T+1
distinct canonical states; R/RUN states coincide with the t=0 / t=T state; the material arrays never change (bitwise).
Part 3 (conformance): the exploration drives custom_fdtd_forward/run_fdtd under one jax.jit with *traced* start/end
    (one compile instead of one per (start,end) pair); a subset of histories (every single split 0->k->T, the unsplit
    run, run_fdtd on fresh arrays and on the arrays it returned) is replayed through the real un-jitted public calls with
    Python-int arguments and must reach the same canonical states.
"""

ID = "C06"
LEVEL = "model_checking"
MANIFEST = {
    "engine": "E3-bfs",
    "technique": "explicit-state model checking: exhaustive exploration of all operation histories (all 2^(T-1) compositions of T as a history trie without deduplication, plus BFS with canonical-state deduplication over partial runs, resets (<=2) and new runs) on real ArrayContainers; invariant 'canonical state is a function of the time index' => exactly T+1 reachable states",
    "text": "All histories of partial forward runs whose lengths sum to at most T are executed on real arrays (every composition of T individually), every history is followed by a reset, and a breadth-first search with canonical-state deduplication expands every reachable (time index, state, resets used) node with every operation (all partial-run lengths, reset, run_fdtd). The reachable canonical state set must have exactly T+1 elements indexed by the time index, reset and new-run states must coincide with the t=0 and t=T states, and the material arrays must stay bitwise unchanged.",
    "note": "T=6 (quick) / T=10 (thorough); finite scene menu (PML + switched source + switched detectors + phasor). The exploration calls custom_fdtd_forward/run_fdtd under jax.jit with traced start/end times; conformance replays go through the un-jitted public calls with Python ints. Canonical state = (E, H, psi_E, psi_H, all detector states) compared at 1e-12 relative.",
}
RULE = (
    "explore case: every history F(l1)...F(lm) with sum<=T is one trie state (2^T of them, transitions = real custom_fdtd_forward calls), each followed by one reset; "
    "BFS nodes = (time index, canonical state id, resets used<=2), each expanded with F(l) for all l, R and RUN. A history is non-trivial when it has >=2 partial runs or a reset after "
    "a state with non-zero fields/psi/detectors; distinct = distinct histories. The scene is non-trivial when the T+1 reference states are pairwise different and psi, "
    "every detector state and the phasor accumulator are non-zero before the end. conf cases: one real un-jitted replay each (traces)."
)
ASSUMPTIONS = [
    "float64 evaluation is representative of the float32 default",
    "finite scene menu; a jitted call of custom_fdtd_forward with traced start/end executes the same driver code as the un-jitted call (checked by the conformance replays)",
]
TOL = 1e-12
# A run that overflowed leaves inf/nan in the container; the statement ("resetting ... or starting a new run from the arrays returned
# by a previous run zeroes all time-dependent state") makes no exception for that, so one extra case resets such a container.
INCLUDE_NONFINITE_RESET = True


def _scene_specs():
    per_yz = {"min_y": "periodic", "max_y": "periodic", "min_z": "periodic", "max_z": "periodic"}
    W = {"wavelength": 4e-7, "phase_shift": 1.0}  # non-zero injection already at t=0, so that all T+1 states differ
    S = {}
    S["pmlx_switched"] = dict(
        shape=[7, 3, 3], faces={"min_x": "pml", "max_x": "pml", **per_yz}, pml=2, eps={"tier": "iso", "pat": "distinct"},
        sources=[dict(kind="dipole", box=[[2, 3], [1, 2], [1, 2]], polarization=2, source_type="magnetic", wave=W, switch={"fixed_on_time_steps": [0, 1, 3, 4, 7]})],
        detectors=[
            dict(kind="field", box=[[3, 4], [1, 2], [1, 2]], reduce_volume=False, switch={"interval": 2}),
            dict(kind="energy", box=[[2, 5], [0, 3], [0, 3]], reduce_volume=True, switch={"fixed_on_time_steps": [1, 2, 4, 5, 8]}),
            dict(kind="phasor", box=[[4, 5], [1, 2], [0, 1]], wave_characters=[W]),
            dict(kind="poynting", box=[[4, 5], [0, 3], [0, 3]], direction="+"),
        ],
    )
    S["pml_all_plane"] = dict(
        shape=[7, 7, 7], faces={k: "pml" for k in ("min_x", "max_x", "min_y", "max_y", "min_z", "max_z")}, pml=2, eps={"tier": "iso", "pat": "seed"},
        sources=[dict(kind="dipole", box=[[3, 4], [3, 4], [2, 3]], polarization=0, source_type="magnetic", wave=W, switch={"interval": 3})],
        detectors=[
            dict(kind="field", box=[[2, 3], [3, 4], [3, 4]], reduce_volume=True, switch={"fixed_on_time_steps": [2, 3, 5, 9]}),
            dict(kind="phasor", box=[[3, 4], [4, 5], [3, 4]], wave_characters=[W], switch={"interval": 2}),
            dict(kind="energy", box=[[2, 5], [2, 5], [2, 5]], reduce_volume=True),
        ],
    )
    S["pmlz_walls_sigma"] = dict(
        shape=[3, 3, 7], faces={"min_z": "pec", "max_z": "pml", "min_x": "pmc", "max_x": "pmc", "min_y": "periodic", "max_y": "periodic"}, pml=3,
        eps={"tier": "iso", "pat": "distinct"}, mu={"tier": "iso", "pat": "distinct", "lo": 1.0, "hi": 2.0}, sig_e={"tier": "iso", "pat": "some"},
        sources=[dict(kind="plane", box=[[0, 3], [0, 3], [1, 2]], direction="+", fixed_E_polarization_vector=[0, 1, 0], wave=W, switch={"fixed_on_time_steps": [0, 2, 3, 4, 6]})],
        detectors=[
            dict(kind="poynting", box=[[0, 3], [0, 3], [3, 4]], direction="+", switch={"interval": 3}),
            dict(kind="phasor", box=[[1, 2], [1, 2], [2, 3]], wave_characters=[W]),
            dict(kind="field", box=[[1, 2], [1, 2], [3, 4]], reduce_volume=False, switch={"fixed_on_time_steps": [1, 4, 5]}),
        ],
    )
    # dispersive medium: the polarisation (current and previous step) is time-dependent state as well
    S["periodic_dispersive"] = dict(
        shape=[3, 3, 4], faces={"min_x": "periodic", "max_x": "periodic", **per_yz},
        vol_poles=[dict(kind="lorentz", w0dt=0.3, gdt=0.05, de=1.5), dict(kind="drude", wpdt=0.2, gdt=0.02)], vol_eps_inf=2.0,
        sources=[dict(kind="dipole", box=[[1, 2], [1, 2], [1, 2]], polarization=2, wave=W, switch={"fixed_on_time_steps": [0, 1, 3, 4]})],
        detectors=[
            dict(kind="field", box=[[1, 2], [1, 2], [2, 3]], reduce_volume=False, switch={"interval": 2}),
            dict(kind="energy", box=[[0, 3], [0, 3], [0, 4]], reduce_volume=True),
        ],
    )
    return S


def _menu(tier):
    if tier == "quick":
        return [("pmlx_switched", 6), ("periodic_dispersive", 5)]
    return [("pmlx_switched", 10), ("pml_all_plane", 10), ("pmlz_walls_sigma", 10), ("periodic_dispersive", 8)]


def cases(tier, seed):
    out = []
    for name, T in _menu(tier):
        out.append(dict(kind="explore", scene=name, T=T, seed=seed))
    for name, T in _menu(tier):
        for k in range(1, T):
            out.append(dict(kind="conf_split", scene=name, T=T, k=k, seed=seed))
        out.append(dict(kind="conf_run", scene=name, T=T, seed=seed))
    if INCLUDE_NONFINITE_RESET:
        out.append(dict(kind="reset_nonfinite", scene=_menu(tier)[0][0], T=_menu(tier)[0][1], seed=seed))
    return out


def bounds(tier, seed):
    m = _menu(tier)
    return {
        "scenes": [n for n, _ in m],
        "T": m[0][1],
        "histories_without_dedup": f"all sequences of partial runs with total <= T: 2^T = {2 ** m[0][1]} per scene, including all 2^(T-1) = {2 ** (m[0][1] - 1)} compositions of T; each followed by reset()",
        "bfs": "nodes (t, canonical state, resets used <= 2) expanded with F(l) for every l in 1..T-t, reset(), run_fdtd()",
        "conformance": "un-jitted custom_fdtd_forward(0->k), (k->T) for every k, unsplit 0->T, un-jitted run_fdtd on fresh arrays and on its own result",
        "tolerance": TOL,
        "seed": seed,
    }


# ------------------------------------------------------------------------------------------------------------
def _build(case):
    from mc import scenes

    import copy

    sp = copy.deepcopy(_scene_specs()[case["scene"]])
    sp["steps"] = case["T"]
    sp["seed"] = case.get("seed", 0)
    for o in sp["sources"] + sp["detectors"]:  # explicit on-step lists are cut to the run length
        sw = o.get("switch")
        if sw and "fixed_on_time_steps" in sw:
            sw["fixed_on_time_steps"] = [t for t in sw["fixed_on_time_steps"] if t < case["T"]]
    return scenes.build(sp)


class _Ops:
    """The three operations, driven through the public drivers under one jit each (traced start/end)."""

    def __init__(self, sc):
        import jax
        import jax.numpy as jnp

        fdtdx = __import__("fdtdx")
        from fdtdx.fdtd.fdtd import custom_fdtd_forward

        self.sc, self.jnp = sc, jnp
        key = jax.random.PRNGKey(0)
        self._fwd = jax.jit(
            lambda a, s, e: custom_fdtd_forward(a, sc.objects, sc.config, key, reset_container=False, record_detectors=True, start_time=s, end_time=e, show_progress=False)
        )
        self._run = jax.jit(lambda a: fdtdx.run_fdtd(a, sc.objects, sc.config, key, show_progress=False))
        self.n_fwd = self.n_reset = self.n_run = 0

    def F(self, arrays, t, l):
        self.n_fwd += 1
        t2, a2 = self._fwd(arrays, self.jnp.asarray(t, dtype=self.jnp.int32), self.jnp.asarray(t + l, dtype=self.jnp.int32))
        return int(t2), a2

    def R(self, arrays):
        self.n_reset += 1
        return 0, arrays.reset()

    def RUN(self, arrays):
        self.n_run += 1
        t2, a2 = self._run(arrays)
        return int(t2), a2


def _reference(sc, ops, T):
    """Reference canonical states: t=0 (freshly placed arrays) and one step at a time."""
    from mc.oracles import drivers as D

    reps = [D.snapshot(sc.arrays)]
    a, t = sc.arrays, 0
    for _ in range(T):
        t, a = ops.F(a, t, 1)
        reps.append(D.snapshot(a))
    # one common scale per comparison group over the whole trajectory
    scale = {}
    for r in reps:
        for g, s in D.scales(r).items():
            scale[g] = max(scale.get(g, 0.0), s)
    return reps, scale


class _Judge:
    def __init__(self, sc, reps, scale, T):
        from mc.oracles import drivers as D

        self.D, self.reps, self.scale, self.T = D, reps, scale, T
        self.mats0 = D.materials(sc.arrays)
        self.fails = []
        self.extra_states = []  # canonical states that are NOT one of the T+1 references: (t, snapshot)
        self.worst = 0.0

    def state_id(self, t_ret, arrays, expect_t, what, hist):
        """Canonical state id: index of the matching representative. Records failures. Returns id (int)."""
        import numpy as np

        D = self.D
        if t_ret != expect_t:
            self._fail(f"{what}:returned-time-index-wrong", dict(returned=t_ret, expected=expect_t, history=hist))
        snap = D.snapshot(arrays)
        m = D.materials(arrays)
        for k, v in self.mats0.items():
            if k not in m or m[k].shape != v.shape or not np.array_equal(m[k], v):
                self._fail(f"{what}:materials-changed", dict(array=k, history=hist))
                break
        if 0 <= expect_t <= self.T:
            w, key, problems = D.compare(self.reps[expect_t], snap, TOL, scale=self.scale)
            if not problems and w <= TOL:
                self.worst = max(self.worst, w)
                return expect_t
            grp = "structure" if problems else ("detectors" if key.startswith("det/") else ("psi" if key.startswith("psi") else "fields"))
            self._fail(f"{what}:state-differs-from-time-index-state:{grp}", dict(rel=w, key=key, problems=problems[:3], t=expect_t, history=hist))
        # a state outside the T+1 references: give it its own id so the exploration can go on (bounded by the caller)
        for i, (t, s) in enumerate(self.extra_states):
            w, key, problems = D.compare(s, snap, TOL, scale=self.scale)
            if t == expect_t and not problems and w <= TOL:
                return self.T + 1 + i
        self.extra_states.append((expect_t, snap))
        return self.T + len(self.extra_states)

    def _fail(self, sig, detail):
        if len(self.fails) < 40:
            self.fails.append(dict(sig=sig, detail=detail))


def _explore(case):
    import numpy as np

    from mc.oracles import drivers as D

    T = case["T"]
    sc = _build(case)
    ops = _Ops(sc)
    reps, scale = _reference(sc, ops, T)
    J = _Judge(sc, reps, scale, T)
    detail = {}

    # ---- scene non-triviality: references pairwise different; psi / detectors / phasor non-zero somewhere
    pair_same = []
    for i in range(T + 1):
        for j in range(i + 1, T + 1):
            w, _, pr = D.compare(reps[i], reps[j], TOL, scale=scale)
            if w <= 1e-6:
                pair_same.append((i, j))
    nzT = set()
    for r in reps:
        nzT |= set(D.nonzero_groups(r))
    det_groups = [g for g in scale if g.startswith("det/")]
    psi_groups = [g for g in scale if g.startswith("psi")]
    scene_nt = not pair_same and all(g in nzT for g in det_groups) and all(g in nzT for g in psi_groups) and "E" in nzT and "H" in nzT
    detail["reference_states_pairwise_distinct"] = not pair_same
    detail["coinciding_reference_states"] = pair_same[:6]
    detail["nonzero_groups"] = sorted(nzT)[:12]

    # ---- part 1: history trie without deduplication (every history executed in its own right), each followed by R
    trie_states = 1
    trie_trans = 0
    complete = 0
    nontriv = 0
    zero0 = reps[0]

    def dfs(arrays, t, hist):
        nonlocal trie_states, trie_trans, complete, nontriv
        # reset after this history
        t0, a0 = ops.R(arrays)
        trie_trans += 1
        sid = J.state_id(t0, a0, 0, "reset", hist + ["R"])
        s0 = D.snapshot(a0)
        if any(np.any(v != 0) for v in s0.values()):
            J._fail("reset:time-dependent-state-not-zero", dict(history=hist + ["R"], nonzero=[k for k, v in s0.items() if np.any(v != 0)][:5]))
        if t > 0:
            nontriv += 1
        if t == T:
            complete += 1
            return
        for l in range(1, T - t + 1):
            t2, a2 = ops.F(arrays, t, l)
            trie_trans += 1
            trie_states += 1
            J.state_id(t2, a2, t + l, "partial-run", hist + [f"F({t}->{t + l})"])
            if len(hist) >= 1:
                nontriv += 1
            if len(J.fails) >= 40:
                return
            dfs(a2, t + l, hist + [f"F({t}->{t + l})"])

    dfs(sc.arrays, 0, [])
    detail["trie_histories"] = trie_states
    detail["complete_compositions"] = complete

    # ---- part 2: BFS with canonical-state deduplication over F(l), R, RUN with <= 2 resets
    start = (0, 0, 0)  # (t, state id, resets used)
    store = {start: (sc.arrays, [])}
    frontier = [start]
    bfs_trans = 0
    cap = 6 * (T + 1) * 3
    while frontier and len(store) <= cap and len(J.fails) < 40:
        nxt = []
        for node in frontier:
            t, sid, nr = node
            arrays, hist = store[node]
            succ = []
            for l in range(1, T - t + 1):
                t2, a2 = ops.F(arrays, t, l)
                h = hist + [f"F({t}->{t + l})"]
                succ.append((t + l, J.state_id(t2, a2, t + l, "partial-run", h), nr, a2, h))
            if nr < 2:
                t2, a2 = ops.R(arrays)
                h = hist + ["R"]
                succ.append((0, J.state_id(t2, a2, 0, "reset", h), nr + 1, a2, h))
            t2, a2 = ops.RUN(arrays)
            h = hist + ["RUN"]
            succ.append((T, J.state_id(t2, a2, T, "run_fdtd-on-reused-arrays" if hist else "run_fdtd-on-fresh-arrays", h), nr, a2, h))
            bfs_trans += len(succ)
            for t2, sid2, nr2, a2, h in succ:
                key = (t2, sid2, nr2)
                if len(h) >= 2:
                    nontriv += 1
                if key not in store:
                    store[key] = (a2, h)
                    nxt.append(key)
        frontier = nxt
    canon = sorted({(t, sid) for (t, sid, _) in store})
    detail["bfs_nodes"] = len(store)
    detail["canonical_states"] = len(canon)
    detail["worst_rel"] = J.worst
    detail["ops"] = dict(custom_fdtd_forward=ops.n_fwd, reset=ops.n_reset, run_fdtd=ops.n_run)
    if len(canon) != T + 1 or J.extra_states:
        J._fail("state-count:not-T+1", dict(canonical_states=len(canon), expected=T + 1, extra=[t for t, _ in J.extra_states][:10]))
    if len(store) > cap:
        J._fail("state-space-does-not-close", dict(nodes=len(store)))
    if complete != 2 ** (T - 1) and len(J.fails) == 0:
        J._fail("harness:compositions-not-all-visited", dict(complete=complete))
    return dict(
        ok=not J.fails,
        failures=J.fails[:8],
        detail=detail,
        evals=trie_trans + bfs_trans + T,
        nontrivial=nontriv if scene_nt else 0,
        states=trie_states + len(store),
        transitions=trie_trans + bfs_trans,
        traces=0,
        outcome={f"canonical-states={len(canon)}": 1, "scene-nontrivial" if scene_nt else "scene-trivial": 1},
    )


def _conf(case):
    """Real, un-jitted public calls with Python-int arguments; compared with the canonical states of the exploration's driver."""
    import jax

    fdtdx = __import__("fdtdx")
    from fdtdx.fdtd.fdtd import custom_fdtd_forward

    T = case["T"]
    sc = _build(case)
    ops = _Ops(sc)
    reps, scale = _reference(sc, ops, T)
    J = _Judge(sc, reps, scale, T)
    key = jax.random.PRNGKey(0)

    def real_fwd(a, s, e, reset=False):
        t2, a2 = custom_fdtd_forward(a, sc.objects, sc.config, key, reset_container=reset, record_detectors=True, start_time=s, end_time=e, show_progress=False)
        return int(t2), a2

    traces = 0
    if case["kind"] == "conf_split":
        k = case["k"]
        t1, a1 = real_fwd(sc.arrays, 0, k)
        J.state_id(t1, a1, k, "conformance:partial-run", [f"F({0}->{k})"])
        t2, a2 = real_fwd(a1, k, T)
        J.state_id(t2, a2, T, "conformance:partial-run", [f"F(0->{k})", f"F({k}->{T})"])
        # reset_container=True on a used container restarts from zero
        t3, a3 = real_fwd(a2, 0, k, reset=True)
        J.state_id(t3, a3, k, "conformance:reset_container", [f"F(0->{k})", f"F({k}->{T})", f"F(0->{k},reset_container)"])
        traces = 3
        evals = 3
    else:
        t1, a1 = real_fwd(sc.arrays, 0, T)
        J.state_id(t1, a1, T, "conformance:unsplit-run", [f"F(0->{T})"])
        t2, a2 = fdtdx.run_fdtd(sc.arrays, sc.objects, sc.config, key, show_progress=False)
        J.state_id(int(t2), a2, T, "conformance:run_fdtd-on-fresh-arrays", ["RUN"])
        t3, a3 = fdtdx.run_fdtd(a2, sc.objects, sc.config, key, show_progress=False)
        J.state_id(int(t3), a3, T, "conformance:run_fdtd-on-reused-arrays", ["RUN", "RUN"])
        t4, a4 = fdtdx.run_fdtd(a1.reset(), sc.objects, sc.config, key, show_progress=False)
        J.state_id(int(t4), a4, T, "conformance:run_fdtd-after-reset", [f"F(0->{T})", "R", "RUN"])
        traces = 4
        evals = 4
    return dict(
        ok=not J.fails, failures=J.fails[:8], detail=dict(worst_rel=J.worst), evals=evals, nontrivial=traces if not J.fails else 0,
        states=0, transitions=evals, traces=traces, outcome="conformance-ok" if not J.fails else "conformance-diverges",
    )


def _reset_nonfinite(case):
    """reset() / run_fdtd on a container whose time-dependent state holds inf and nan (the arrays a diverged run returns)."""
    import jax
    import jax.numpy as jnp
    import numpy as np

    from mc.oracles import drivers as D

    fdtdx = __import__("fdtdx")
    T = case["T"]
    sc = _build(case)
    ops = _Ops(sc)
    reps, scale = _reference(sc, ops, T)
    fails = []
    evals = 0
    for val, vname in ((np.inf, "inf"), (np.nan, "nan")):
        a = sc.arrays
        a = a.aset("fields->E", jnp.full_like(a.fields.E, val))
        a = a.aset("fields->H", jnp.full_like(a.fields.H, val))
        a = a.aset("fields->psi_E", jax.tree.map(lambda v: jnp.full_like(v, val), a.fields.psi_E))
        a = a.aset("fields->psi_H", jax.tree.map(lambda v: jnp.full_like(v, val), a.fields.psi_H))
        a = a.aset("detector_states", jax.tree.map(lambda v: jnp.full_like(v, val), a.detector_states))
        snap = D.snapshot(a.reset())
        evals += 1
        bad = sorted(k for k, v in snap.items() if not np.all(v == 0))
        if bad:
            grp = "detector-state" if all(k.startswith("det/") for k in bad) else "fields"
            fails.append(dict(sig=f"reset:non-finite-{grp}-survives", detail=dict(value=vname, not_zero=bad[:6])))
        t2, a2 = fdtdx.run_fdtd(a, sc.objects, sc.config, jax.random.PRNGKey(0), show_progress=False)
        evals += 1
        w, key, problems = D.compare(reps[T], D.snapshot(a2), TOL, scale=scale)
        if problems or w > TOL:
            grp = "detector-state" if (problems and all("det/" in p for p in problems)) or (key or "").startswith("det/") else "fields"
            fails.append(dict(sig=f"run_fdtd-on-reused-arrays:non-finite-{grp}-survives", detail=dict(value=vname, rel=w, key=key, problems=problems[:4])))
    return dict(ok=not fails, failures=fails, detail={}, evals=evals, nontrivial=2, states=2, transitions=evals, traces=2,
                outcome="nonfinite-reset-ok" if not fails else "nonfinite-survives-reset")


def run_case(case):
    if case["kind"] == "explore":
        return _explore(case)
    if case["kind"] == "reset_nonfinite":
        return _reset_nonfinite(case)
    return _conf(case)
