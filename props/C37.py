"""C37 — grid geometry helpers are exact.

Bounded exhaustive enumeration (E2) over edge arrays {uniform, generic-uniform spacing, geometric, all-distinct, seed,
shifted-uniform; n <= 6 (quick 5)} placed on each of the three axes (the other two axes carry different arrays, so an
axis mix-up changes the answer), x coordinates {every edge, every midpoint, edge +- 1e-12 span, outside} x all sizes x
anchor positions, judged by oracles written from the docstrings:

  snap      coord_to_index nearest/lower/upper returns the edge its name says (ties accept either)
  interval  bounds_for_center / bounds_for_anchor return a size-preserving interval inside the grid whose centre/anchor
            distance is minimal among all such intervals (ties accept either); anchor_coordinate is linear in position
  metric    axis_extent / slice_extent / cell_widths / centers / face_area / cell_volume equal the values read off the edges
  cfl       dt * c * sqrt(sum_a 1/min_a(d)^2) <= courant_factor, for RectilinearGrid.cfl_time_step and
            SimulationConfig.time_step_duration on every grid description
  uniform   is_uniform: exactly uniform grids at any scale/offset/cell count -> True, >= 0.1 % variation -> False;
            uniform_spacing equals the spacing / raises for non-uniform grids
  symred    reduce_symmetric keeps edges[n//2:] on symmetric axes, leaves the others and the original untouched,
            raises for odd counts and non-mirror-symmetric widths
  policy    UniformGrid / QuasiUniformGrid helpers (centre-relative snapping, extents, areas, volumes, resolve)
"""
import itertools
import math

import numpy as np

ID = "C37"
LEVEL = "exploration"
MANIFEST = {
    "engine": "E2-enum",
    "technique": "bounded exhaustive enumeration of edge arrays x axis x coordinates (every edge, midpoint, +-1e-12, outside) x sizes x anchor positions x symmetry tuples against definition-level numpy oracles (argmin over all admissible intervals, tie-agnostic)",
    "text": "Every edge array of the alphabet (n<=6) is placed on every axis; every edge, midpoint, perturbed edge and outside coordinate is snapped with every rule; every interval size and anchor position is resolved from every such coordinate; all extents, areas and volumes of all sub-slices, the CFL bound for four Courant factors, uniform detection over a jitter ladder and symmetric reduction over all 27 symmetry tuples are compared with oracles that only read the edge arrays.",
    "note": "float64 edges; spacings 1 nm .. 1 mm; near-ties (1e-12 relative) accept either answer; uniform detection is only judged outside the documented tolerance band (exact grids / >=0.1% variation).",
}
RULE = (
    "case = (part, edge-array kind, n, axis); inside a case every coordinate/size/position/slice of the menu is evaluated. "
    "An element is non-trivial when the array is non-uniform or the coordinate is not an edge (snapping has to choose); "
    "distinct = distinct (array, axis, coordinate, rule|size|position)."
)
ASSUMPTIONS = [
    "edge arrays from a finite alphabet (uniform 50 nm, uniform 12.3456789 nm, geometric ratio 1.3, all-distinct, VERIF_SEED, uniform 1 nm shifted by 1 mm)",
    "ties within 1e-12 of the span accept either answer",
    "lower snapping below the first edge / upper snapping above the last edge has no defined edge and is not judged",
]
TOL = 1e-9
KINDS = ["uniform50", "uniform-generic", "geometric", "distinct", "seed", "shifted-uniform"]
C0 = 299792458.0


def edges_of(kind, n, seed, axis=0):
    if kind == "uniform50":
        return -0.5 * n * 50e-9 + 50e-9 * np.arange(n + 1)
    if kind == "uniform-generic":
        s = 12.3456789e-9
        return -0.5 * n * s + s * np.arange(n + 1)
    if kind == "shifted-uniform":
        return 1e-3 + 1e-9 * np.arange(n + 1)
    if kind == "geometric":
        w = 20e-9 * 1.3 ** np.arange(n)
    elif kind == "distinct":
        k = np.arange(n) + 3 * axis
        w = 50e-9 * (0.7 + 0.9 * np.mod(0.211 + k * 0.6180339887498949, 1.0))
    elif kind == "seed":
        w = 50e-9 * np.random.default_rng(31 + seed + 7 * axis).uniform(0.6, 1.7, size=n)
    elif kind == "sym":
        k = np.minimum(np.arange(n), n - 1 - np.arange(n))
        w = 50e-9 * (0.7 + 0.9 * np.mod(0.211 + k * 0.6180339887498949, 1.0))
    else:
        raise ValueError(kind)
    e = np.concatenate([[0.0], np.cumsum(w)])
    return e - 0.37 * e[-1]


def cases(tier, seed):
    nmax = 5 if tier == "quick" else 6
    out = []
    for kind in KINDS:
        for n in range(1, nmax + 1):
            for axis in range(3):
                out.append(dict(part="axis", kind=kind, n=n, axis=axis))
    for kind in KINDS:
        out.append(dict(part="cfl", kind=kind, nmax=nmax))
    out.append(dict(part="uniform"))
    for n in range(1, nmax + 1):
        out.append(dict(part="symred", n=n))
    out.append(dict(part="policy"))
    for c in out:
        c["seed"] = seed
    return out


def bounds(tier, seed):
    nmax = 5 if tier == "quick" else 6
    return {
        "edge_kinds": KINDS,
        "n": [1, nmax],
        "axes": [0, 1, 2],
        "coordinates": "every edge, every midpoint, every edge +- 1e-12*span, one below and one above the domain, quarter points",
        "sizes": "1..n (and 0, n+1 must raise)",
        "anchor_positions": [-1.0, 0.0, 1.0, -0.5, 0.3],
        "slices": "all (lo,hi) on the axis under test x two fixed transverse slices",
        "courant_factors": [0.5, 0.9, 0.99, 1.0],
        "uniform_jitter_ladder": [0.0, 1e-12, 1e-3, 1e-2, 0.3],
        "symmetry_tuples": "all 27",
        "tolerance": TOL,
        "seed": seed,
    }


def _grid(fdtdx, kind, n, axis, seed):
    """array under test on `axis`, two other (different, non-uniform) arrays elsewhere."""
    import jax.numpy as jnp

    es = [None, None, None]
    es[axis] = edges_of(kind, n, seed, axis)
    oth = [a for a in range(3) if a != axis]
    es[oth[0]] = edges_of("distinct", 3, seed, oth[0])
    es[oth[1]] = edges_of("geometric", 2, seed, oth[1])
    g = fdtdx.RectilinearGrid.custom(jnp.asarray(es[0]), jnp.asarray(es[1]), jnp.asarray(es[2]))
    return g, es


def _coords(e):
    span = e[-1] - e[0]
    cs = []
    for i, x in enumerate(e):
        cs.append(("edge", float(x)))
        cs.append(("edge+", float(x + 1e-12 * span)))
        cs.append(("edge-", float(x - 1e-12 * span)))
    for i in range(len(e) - 1):
        cs.append(("mid", float(0.5 * (e[i] + e[i + 1]))))
        cs.append(("quarter", float(e[i] + 0.25 * (e[i + 1] - e[i]))))
    cs.append(("below", float(e[0] - 0.3 * span)))
    cs.append(("above", float(e[-1] + 0.3 * span)))
    return cs


def _part_axis(case):
    from mc import guard

    fdtdx = guard.import_fdtdx()
    kind, n, axis, seed = case["kind"], case["n"], case["axis"], case["seed"]
    g, es = _grid(fdtdx, kind, n, axis, seed)
    e = es[axis]
    span = e[-1] - e[0]
    tie = 1e-12 * span
    fails, evals, nontriv, oc = [], 0, 0, {}
    meta = dict(kind=kind, n=n, axis=axis)
    nonuni = kind not in ("uniform50", "uniform-generic", "shifted-uniform")

    def bad(sig, **d):
        fails.append(dict(sig=sig, detail=dict(meta, **d)))

    # ---- basic metric accessors
    if tuple(g.shape) != tuple(len(x) - 1 for x in es):
        bad("metric:shape-wrong", got=g.shape)
    for a in range(3):
        evals += 3
        if not np.array_equal(np.asarray(g.edges(a)), es[a]):
            bad("metric:edges-differ", a=a)
        if not np.allclose(np.asarray(g.cell_widths(a)), np.diff(es[a]), rtol=1e-12, atol=0):
            bad("metric:cell-widths-differ", a=a)
        if not np.allclose(np.asarray(g.centers(a)), 0.5 * (es[a][:-1] + es[a][1:]), rtol=1e-12, atol=1e-12 * span):
            bad("metric:centers-differ", a=a)
    ms = tuple(float(np.min(np.diff(x))) for x in es)
    if not (np.allclose(g.min_spacings, ms, rtol=1e-12) and abs(g.min_spacing - min(ms)) <= 1e-12 * min(ms)):
        bad("metric:min-spacing-wrong", got=g.min_spacings, want=ms)
    # ---- snapping
    for tag, c in _coords(e):
        d = np.abs(e - c)
        for snap in ("nearest", "lower", "upper"):
            got = g.coord_to_index(axis, c, snap=snap)
            evals += 1
            if tag != "edge" or nonuni:
                nontriv += 1
            if snap == "nearest":
                ok = isinstance(got, int) and 0 <= got <= n and d[got] <= d.min() + tie
            elif snap == "lower":
                le = np.nonzero(e <= c + (tie if tag == "edge" else 0))[0]
                if len(le) == 0:
                    oc["lower-below-domain->%d" % got] = oc.get("lower-below-domain->%d" % got, 0) + 1
                    continue
                ok = got == le.max() or (tag == "edge" and got == np.nonzero(e <= c)[0].max())
            else:
                ge = np.nonzero(e >= c - (tie if tag == "edge" else 0))[0]
                if len(ge) == 0:
                    oc["upper-above-domain->n+%d" % (got - n)] = oc.get("upper-above-domain->n+%d" % (got - n), 0) + 1
                    continue
                ok = got == ge.min() or (tag == "edge" and got == np.nonzero(e >= c)[0].min())
            if not ok:
                bad(f"snap:{snap}-returns-another-edge:{tag}", coord=c, got=got, edges=e.tolist())
    evals += 1
    try:
        g.coord_to_index(axis, float(e[0]), snap="closest")
        bad("snap:unknown-rule-accepted")
    except ValueError:
        oc["unknown-rule-rejected"] = 1
    # ---- interval choice
    positions = [-1.0, 0.0, 1.0, -0.5, 0.3]
    for size in range(1, n + 1):
        lows = np.arange(0, n - size + 1)
        for tag, c in _coords(e):
            got = g.bounds_for_center(axis, c, size)
            evals += 1
            nontriv += 1
            centers = 0.5 * (e[lows] + e[lows + size])
            dist = np.abs(centers - c)
            ok = isinstance(got, tuple) and len(got) == 2 and got[1] - got[0] == size and 0 <= got[0] <= n - size and dist[got[0]] <= dist.min() + tie
            if not ok:
                bad("interval:bounds_for_center-not-size-preserving-argmin", coord=c, tag=tag, size=size, got=got, edges=e.tolist())
            for pos in positions:
                got = g.bounds_for_anchor(axis, size, c, pos)
                evals += 1
                anchors = e[lows] + 0.5 * (pos + 1.0) * (e[lows + size] - e[lows])
                dist = np.abs(anchors - c)
                ok = isinstance(got, tuple) and len(got) == 2 and got[1] - got[0] == size and 0 <= got[0] <= n - size and dist[got[0]] <= dist.min() + tie
                if not ok:
                    bad("interval:bounds_for_anchor-not-size-preserving-argmin", coord=c, tag=tag, size=size, position=pos, got=got, edges=e.tolist())
    for size in (0, -1, n + 1):
        for fn, args in ((g.bounds_for_center, (axis, float(e[0]), size)), (g.bounds_for_anchor, (axis, size, float(e[0]), 0.0))):
            evals += 1
            try:
                fn(*args)
                bad("interval:impossible-size-accepted", size=size, fn=fn.__name__)
            except ValueError:
                oc["impossible-size-rejected"] = oc.get("impossible-size-rejected", 0) + 1
    # ---- anchor coordinate, extents
    for lo in range(0, n + 1):
        for hi in range(lo, n + 1):
            got = g.axis_extent(axis, (lo, hi))
            evals += 1
            if abs(got - (e[hi] - e[lo])) > 1e-12 * span:
                bad("metric:axis_extent-differs-from-edges", lo=lo, hi=hi, got=got)
            for pos in positions:
                got = g.anchor_coordinate(axis, (lo, hi), pos)
                evals += 1
                want = e[lo] + 0.5 * (pos + 1.0) * (e[hi] - e[lo])
                if abs(got - want) > 1e-12 * span:
                    bad("interval:anchor_coordinate-not-linear-between-sides", lo=lo, hi=hi, position=pos, got=got, want=want)
            # 3d slice helpers with fixed transverse slices
            oth = [a for a in range(3) if a != axis]
            for tsl in (((0, len(es[oth[0]]) - 1), (0, len(es[oth[1]]) - 1)), ((1, 3), (1, 2))):
                sl = [None, None, None]
                sl[axis] = (lo, hi)
                sl[oth[0]], sl[oth[1]] = tsl
                sl = tuple(sl)
                ext = g.slice_extent(sl)
                evals += 1
                want = tuple(es[a][sl[a][1]] - es[a][sl[a][0]] for a in range(3))
                if not np.allclose(ext, want, rtol=0, atol=1e-12 * 1e-6):
                    bad("metric:slice_extent-differs-from-edges", slice=sl, got=ext, want=want)
                w = [np.diff(es[a])[sl[a][0] : sl[a][1]] for a in range(3)]
                vol = np.asarray(g.cell_volume(sl))
                evals += 1
                wantv = w[0][:, None, None] * w[1][None, :, None] * w[2][None, None, :]
                if vol.shape != wantv.shape or not np.allclose(vol, wantv, rtol=1e-12, atol=0):
                    bad("metric:cell_volume-differs-from-edge-products", slice=sl, got_shape=vol.shape, want_shape=wantv.shape)
                elif vol.size and abs(vol.sum() - np.prod(want)) > 1e-9 * abs(np.prod(want)):
                    bad("metric:cell-volumes-do-not-sum-to-the-box-volume", slice=sl)
                for fa in range(3):
                    area = np.asarray(g.face_area(fa, sl))
                    evals += 1
                    tr = [a for a in range(3) if a != fa]
                    wa = w[tr[0]][:, None] * w[tr[1]][None, :]
                    shp = [1, 1, 1]
                    shp[tr[0]], shp[tr[1]] = wa.shape
                    if tuple(area.shape) != tuple(shp) or not np.allclose(area.reshape(wa.shape), wa, rtol=1e-12, atol=0):
                        bad("metric:face_area-differs-from-transverse-width-products", slice=sl, normal=fa, got_shape=area.shape, want_shape=shp)
    # ---- length_to_cell_count: cells from the lower domain edge
    for tag, c in _coords(e):
        L = c - e[0]
        for snap in ("nearest", "lower", "upper"):
            evals += 1
            if L < 0:
                try:
                    g.length_to_cell_count(axis, L, snap=snap)
                    bad("snap:negative-length-accepted")
                except ValueError:
                    oc["negative-length-rejected"] = oc.get("negative-length-rejected", 0) + 1
                continue
            got = g.length_to_cell_count(axis, L, snap=snap)
            want = g.coord_to_index(axis, float(e[0]) + L, snap=snap)
            if got != want:
                bad("snap:length_to_cell_count-inconsistent-with-coord_to_index", length=L, snap=snap, got=got, want=want)
    # ---- subgrid
    for lo in range(0, n):
        for hi in range(lo + 1, n + 1):
            sl = [slice(0, len(es[a]) - 1) for a in range(3)]
            sl[axis] = slice(lo, hi)
            sg = g.subgrid(tuple(sl))
            evals += 1
            if not np.array_equal(np.asarray(sg.edges(axis)), e[lo : hi + 1]):
                bad("metric:subgrid-edges-differ", lo=lo, hi=hi)
    return fails, evals, nontriv, oc


def _part_cfl(case):
    from mc import guard

    fdtdx = guard.import_fdtdx()
    import jax.numpy as jnp

    kind, nmax, seed = case["kind"], case["nmax"], case["seed"]
    fails, evals, nontriv, oc = [], 0, 0, {}
    other = ["distinct", "geometric", "uniform50", "uniform-generic"]
    for n in range(1, nmax + 1):
        for k2 in [kind] + other:
            for k3 in [kind, "seed"]:
                es = [edges_of(kind, n, seed, 0), edges_of(k2, max(1, n - 1), seed, 1), edges_of(k3, 2, seed, 2)]
                g = fdtdx.RectilinearGrid.custom(*[jnp.asarray(x) for x in es])
                dmin = [float(np.min(np.diff(x))) for x in es]
                for cf in (0.5, 0.9, 0.99, 1.0):
                    bound = cf / (C0 * math.sqrt(sum(1.0 / d**2 for d in dmin)))
                    for where, dt in (("RectilinearGrid.cfl_time_step", g.cfl_time_step(cf)), ("SimulationConfig.time_step_duration", fdtdx.SimulationConfig(time=1e-13, grid=g, backend="cpu", courant_factor=cf).time_step_duration)):
                        evals += 1
                        nontriv += 1
                        excess = dt / bound - 1.0
                        cls = "uniform-detected" if g.is_uniform else "non-uniform"
                        oc[cls] = oc.get(cls, 0) + 1
                        if not (dt > 0 and excess <= TOL):
                            # name the class: does the excess equal what rounding the first cell width to 14 decimals predicts?
                            why = "general"
                            if g.is_uniform:
                                w0 = float(np.diff(es[0])[0])
                                pred = (cf / math.sqrt(3.0)) * round(w0, 14) / C0
                                why = "spacing-rounded-to-14-decimals" if abs(dt / pred - 1.0) <= 1e-12 else "other"
                            sig = f"cfl:dt-exceeds-the-bound:{cls}:{why}"
                            fails.append(dict(sig=sig, detail=dict(kinds=[kind, k2, k3], n=n, courant_factor=cf, where=where, dt=dt, bound=bound, rel_excess=excess, min_spacings=dmin, uniform_spacing=(g.uniform_spacing if g.is_uniform else None))))
                        # not absurdly conservative either: a uniform grid must use the full bound
                        if g.is_uniform and excess < -1e-3:
                            fails.append(dict(sig="cfl:uniform-grid-dt-far-below-the-bound", detail=dict(kinds=[kind, k2, k3], n=n, rel_excess=excess)))
    # policies: UniformGrid / QuasiUniformGrid through SimulationConfig
    for sp in (50e-9, 12.3456789e-9, 1e-3):
        for cf in (0.5, 0.99, 1.0):
            cfg = fdtdx.SimulationConfig(time=100 * sp / C0, grid=fdtdx.UniformGrid(spacing=sp), backend="cpu", courant_factor=cf)
            dt = cfg.time_step_duration
            bound = cf * sp / (C0 * math.sqrt(3))
            evals += 1
            if not (dt / bound - 1 <= TOL and dt / bound - 1 >= -TOL):
                fails.append(dict(sig="cfl:UniformGrid-time-step-is-not-the-cfl-bound", detail=dict(spacing=sp, cf=cf, dt=dt, bound=bound)))
            T = cfg.time_steps_total
            if T != round(cfg.time / dt):
                fails.append(dict(sig="cfl:time_steps_total-is-not-round(time/dt)", detail=dict(spacing=sp, cf=cf, got=T)))
            # the resolved grid of the same policy must give the same step (placement swaps the policy for the resolved grid)
            rg = fdtdx.UniformGrid(spacing=sp).resolve((4, 6, 2))
            dt2 = fdtdx.SimulationConfig(time=100 * sp / C0, grid=rg, backend="cpu", courant_factor=cf).time_step_duration
            evals += 1
            if abs(dt2 / dt - 1) > TOL:
                pred = cf / math.sqrt(3.0) * round(float(np.diff(np.asarray(rg.x_edges))[0]), 14) / C0
                why = "spacing-rounded-to-14-decimals" if abs(dt2 / pred - 1.0) <= 1e-12 else "other"
                fails.append(dict(sig=f"cfl:resolved-uniform-grid-gives-another-time-step-than-its-policy:{why}", detail=dict(spacing=sp, cf=cf, policy_dt=dt, resolved_dt=dt2, rel=dt2 / dt - 1)))
        for d3 in ((sp, sp, sp), (sp, 2 * sp, 0.5 * sp)):
            cfg = fdtdx.SimulationConfig(time=1e-13, grid=fdtdx.QuasiUniformGrid(dx=d3[0], dy=d3[1], dz=d3[2]), backend="cpu", courant_factor=0.99)
            dt = cfg.time_step_duration
            bound = 0.99 / (C0 * math.sqrt(sum(1 / d**2 for d in d3)))
            evals += 1
            if not (0 < dt <= bound * (1 + TOL)):
                fails.append(dict(sig="cfl:QuasiUniformGrid-time-step-exceeds-the-bound", detail=dict(d=d3, dt=dt, bound=bound)))
    return fails, evals, nontriv, oc


def _part_uniform(case):
    from mc import guard

    fdtdx = guard.import_fdtdx()
    import jax.numpy as jnp

    fails, evals, nontriv, oc = [], 0, 0, {}
    rng = np.random.default_rng(5 + case["seed"])
    for sp in (1e-9, 50e-9, 12.3456789e-9, 1e-6, 1e-3, float(10 ** rng.uniform(-9, -4))):
        for off in (0.0, -1e-6, 1e-3, 1.0):
            for n in (1, 2, 5, 64, 1000):
                e = off + sp * np.arange(n + 1)
                for jit in (0.0, 1e-12, 1e-3, 1e-2, 0.3):
                    w = np.full(n, sp)
                    if jit > 0:
                        if n < 2:
                            continue
                        w = w * (1 + jit * np.where(np.arange(n) % 2 == 0, 1.0, -1.0))
                    e = off + np.concatenate([[0.0], np.cumsum(w)])
                    # float64 resolution of the coordinates themselves limits what "exactly uniform" can mean
                    resolvable = sp * max(jit, 1e-15) > 64 * np.finfo(np.float64).eps * max(abs(e[0]), abs(e[-1]))
                    for ax in range(3):
                        es = [off + sp * np.arange(3), off + sp * np.arange(4), off + sp * np.arange(2)]
                        es[ax] = e
                        g = fdtdx.RectilinearGrid.custom(*[jnp.asarray(x) for x in es])
                        evals += 1
                        nontriv += 1
                        meta = dict(spacing=sp, offset=off, n=n, jitter=jit, axis=ax)
                        if jit <= 1e-12:
                            want = True
                        elif jit >= 1e-3 and resolvable:
                            want = False
                        else:
                            continue
                        oc["uniform" if g.is_uniform else "non-uniform"] = oc.get("uniform" if g.is_uniform else "non-uniform", 0) + 1
                        if g.is_uniform != want:
                            fails.append(dict(sig=f"uniform:detection-wrong:{'exact-grid-called-non-uniform' if want else 'jittered-grid-called-uniform'}", detail=meta))
                            continue
                        if want:
                            us = g.uniform_spacing
                            if abs(us / sp - 1) > max(TOL, 1e-12 + 16 * np.finfo(np.float64).eps * abs(off) / sp):
                                why = "rounded-to-14-decimals" if us == round(float(np.diff(es[0])[0]), 14) else "other"
                                fails.append(dict(sig=f"uniform:uniform_spacing-differs-from-the-spacing:{why}", detail=dict(meta, got=us, rel=us / sp - 1)))
                        else:
                            try:
                                g.uniform_spacing
                                fails.append(dict(sig="uniform:uniform_spacing-available-on-non-uniform-grid", detail=meta))
                            except ValueError:
                                pass
    # constructors
    for shape in ((1, 1, 1), (2, 3, 4), (5, 1, 2)):
        for sp in (50e-9, 12.3456789e-9):
            for center in ((0.0, 0.0, 0.0), (1e-6, -2e-6, 3e-3)):
                g = fdtdx.RectilinearGrid.uniform(shape=shape, spacing=sp, center=center)
                g2 = fdtdx.UniformGrid(spacing=sp, center=center).resolve(shape)
                evals += 2
                for a in range(3):
                    want = center[a] - shape[a] * sp / 2 + sp * np.arange(shape[a] + 1)
                    for nm, gg in (("RectilinearGrid.uniform", g), ("UniformGrid.resolve", g2)):
                        if not np.allclose(np.asarray(gg.edges(a)), want, rtol=0, atol=1e-12 * sp + 4e-16 * abs(center[a])):
                            fails.append(dict(sig=f"uniform:{nm}-edges-not-centred", detail=dict(shape=shape, spacing=sp, center=center, axis=a)))
                    if not g.is_uniform:
                        fails.append(dict(sig="uniform:constructor-grid-not-detected-uniform", detail=dict(shape=shape, spacing=sp)))
            g3 = fdtdx.RectilinearGrid.uniform(shape=shape, spacing=sp, origin=(1e-6, 2e-6, 3e-6))
            evals += 1
            if not all(abs(float(g3.edges(a)[0]) - (1e-6, 2e-6, 3e-6)[a]) <= 1e-20 for a in range(3)):
                fails.append(dict(sig="uniform:origin-argument-ignored", detail=dict(shape=shape)))
    for badkw in (dict(shape=(2, 2, 2), spacing=0.0), dict(shape=(2, 0, 2), spacing=1e-9), dict(shape=(2, 2, 2), spacing=-1e-9)):
        evals += 1
        try:
            fdtdx.RectilinearGrid.uniform(**badkw)
            fails.append(dict(sig="uniform:invalid-constructor-arguments-accepted", detail=dict(kw=str(badkw))))
        except ValueError:
            oc["invalid-constructor-rejected"] = oc.get("invalid-constructor-rejected", 0) + 1
    for bad_edges in ([0.0, 1.0, 1.0], [0.0, 2.0, 1.0], [0.0]):
        evals += 1
        try:
            fdtdx.RectilinearGrid.custom(jnp.asarray(bad_edges), jnp.asarray([0.0, 1.0]), jnp.asarray([0.0, 1.0]))
            fails.append(dict(sig="uniform:non-increasing-edges-accepted", detail=dict(edges=bad_edges)))
        except ValueError:
            oc["bad-edges-rejected"] = oc.get("bad-edges-rejected", 0) + 1
    return fails, evals, nontriv, oc


def _part_symred(case):
    from mc import guard

    fdtdx = guard.import_fdtdx()
    import jax.numpy as jnp

    n, seed = case["n"], case["seed"]
    fails, evals, nontriv, oc = [], 0, 0, {}
    kinds = ["sym", "uniform50", "distinct", "geometric"]
    for kx, ky, kz in itertools.product(kinds, repeat=3):
        ns = (n, max(1, n - 1), 2)
        es = [edges_of(k, m, seed, a) for a, (k, m) in enumerate(zip((kx, ky, kz), ns))]
        g = fdtdx.RectilinearGrid.custom(*[jnp.asarray(x) for x in es])
        for sym in itertools.product((-1, 0, 1), repeat=3):
            evals += 1
            must_raise = False
            for a in range(3):
                if sym[a] != 0:
                    w = np.diff(es[a])
                    if ns[a] < 2 or ns[a] % 2 != 0 or not np.allclose(w, w[::-1], rtol=1e-6, atol=0):
                        must_raise = True
            meta = dict(kinds=[kx, ky, kz], shape=ns, symmetry=sym)
            try:
                r = g.reduce_symmetric(sym)
            except ValueError:
                oc["rejected"] = oc.get("rejected", 0) + 1
                if not must_raise:
                    fails.append(dict(sig="symred:valid-symmetric-grid-rejected", detail=meta))
                continue
            if must_raise:
                fails.append(dict(sig="symred:odd-or-asymmetric-axis-accepted", detail=meta))
                continue
            oc["reduced" if any(sym) else "unchanged"] = oc.get("reduced" if any(sym) else "unchanged", 0) + 1
            if any(sym):
                nontriv += 1
            for a in range(3):
                want = es[a][ns[a] // 2 :] if sym[a] != 0 else es[a]
                if not np.array_equal(np.asarray(r.edges(a)), want):
                    fails.append(dict(sig="symred:reduced-edges-are-not-the-upper-half", detail=dict(meta, axis=a)))
                if not np.array_equal(np.asarray(g.edges(a)), es[a]):
                    fails.append(dict(sig="symred:original-grid-changed", detail=dict(meta, axis=a)))
    return fails, evals, nontriv, oc


def _part_policy(case):
    from mc import guard

    fdtdx = guard.import_fdtdx()
    fails, evals, nontriv, oc = [], 0, 0, {}
    for sp in (50e-9, 12.3456789e-9):
        for center in ((0.0, 0.0, 0.0), (1e-6, -2e-7, 3e-3)):
            ug = fdtdx.UniformGrid(spacing=sp, center=center)
            qg = fdtdx.QuasiUniformGrid(dx=sp, dy=2 * sp, dz=0.5 * sp, center=center)
            for grid, spc in ((ug, (sp, sp, sp)), (qg, (sp, 2 * sp, 0.5 * sp))):
                nm = type(grid).__name__
                for a in range(3):
                    s = spc[a]
                    for k in range(-4, 5):
                        for frac, tag in ((0.0, "edge"), (0.5, "mid"), (0.25, "quarter"), (1e-9, "edge+"), (-1e-9, "edge-")):
                            c = center[a] + (k + frac) * s
                            x = (c - center[a]) / s
                            for snap in ("nearest", "lower", "upper"):
                                got = grid.coord_to_index(a, c, snap=snap)
                                evals += 1
                                nontriv += 1
                                if snap == "nearest":
                                    ok = abs(got - x) <= 0.5 + 1e-9
                                elif snap == "lower":
                                    ok = got <= x + 1e-6 and x - got < 1 + 1e-6 if tag == "edge" else (got <= x and x - got < 1)
                                else:
                                    ok = got >= x - 1e-6 and got - x < 1 + 1e-6 if tag == "edge" else (got >= x and got - x < 1)
                                if not (isinstance(got, int) and ok):
                                    fails.append(dict(sig=f"policy:{nm}.coord_to_index-{snap}-wrong", detail=dict(axis=a, coord=c, scaled=x, got=got)))
                            L = (abs(k) + frac) * s
                            got = grid.length_to_cell_count(a, L, snap="nearest")
                            evals += 1
                            if abs(got - L / s) > 0.5 + 1e-9:
                                fails.append(dict(sig=f"policy:{nm}.length_to_cell_count-wrong", detail=dict(axis=a, length=L, got=got)))
                    for lo in range(-2, 3):
                        for hi in range(lo, 4):
                            got = grid.axis_extent(a, (lo, hi))
                            evals += 1
                            if abs(got - (hi - lo) * s) > 1e-12 * s:
                                fails.append(dict(sig=f"policy:{nm}.axis_extent-wrong", detail=dict(axis=a, bounds=(lo, hi), got=got)))
                sl = ((0, 2), (1, 4), (2, 3))
                ext = grid.slice_extent(sl)
                vol = np.asarray(grid.cell_volume(sl))
                evals += 2
                if not np.allclose(ext, [(sl[a][1] - sl[a][0]) * spc[a] for a in range(3)], rtol=1e-12):
                    fails.append(dict(sig=f"policy:{nm}.slice_extent-wrong", detail=dict(got=ext)))
                if vol.shape != (2, 3, 1) or not np.allclose(vol, spc[0] * spc[1] * spc[2], rtol=1e-12):
                    fails.append(dict(sig=f"policy:{nm}.cell_volume-wrong", detail=dict(shape=vol.shape)))
                for fa in range(3):
                    ar = np.asarray(grid.face_area(fa, sl))
                    evals += 1
                    tr = [a for a in range(3) if a != fa]
                    if ar.shape != tuple((2, 3, 1)[a] for a in tr) or not np.allclose(ar, spc[tr[0]] * spc[tr[1]], rtol=1e-12):
                        fails.append(dict(sig=f"policy:{nm}.face_area-wrong", detail=dict(normal=fa, shape=ar.shape)))
            # UniformGrid interval helpers (centre-relative indices)
            for size in range(1, 5):
                for k in range(-3, 4):
                    for frac in (0.0, 0.5, 0.25):
                        c = center[0] + (k + frac) * sp
                        lo, hi = ug.bounds_for_center(0, c, size)
                        evals += 1
                        mid = center[0] + 0.5 * (lo + hi) * sp
                        # the unresolved policy rounds twice (centre, then lower edge): documented only as "convert a centre
                        # and a size to bounds", so one cell of slack is accepted and half-cell ties are merely counted
                        if abs(mid - c) > (0.5 + 1e-9) * sp:
                            oc["policy-centre-off-by-more-than-half-a-cell(double rounding)"] = oc.get("policy-centre-off-by-more-than-half-a-cell(double rounding)", 0) + 1
                        if hi - lo != size or abs(mid - c) > (1.0 + 1e-9) * sp:
                            fails.append(dict(sig="policy:UniformGrid.bounds_for_center-not-size-preserving-or-off-by-more-than-a-cell", detail=dict(coord=c, size=size, got=(lo, hi))))
                        for pos in (-1.0, 0.0, 1.0):
                            lo, hi = ug.bounds_for_anchor(0, size, c, pos)
                            evals += 1
                            anc = ug.anchor_coordinate(0, (lo, hi), pos)
                            want_anc = center[0] + lo * sp + 0.5 * (pos + 1) * (hi - lo) * sp
                            if hi - lo != size or abs(anc - want_anc) > 1e-9 * sp or abs(anc - c) > (1.0 + 1e-9) * sp:
                                fails.append(dict(sig="policy:UniformGrid.bounds_for_anchor-not-near-the-anchor", detail=dict(coord=c, size=size, position=pos, got=(lo, hi), anchor=anc)))
            # QuasiUniformGrid.resolve: even counts only, centred, per-axis spacing
            for shape in ((2, 4, 6), (2, 2, 2)):
                r = qg.resolve(shape)
                evals += 1
                for a in range(3):
                    s = (sp, 2 * sp, 0.5 * sp)[a]
                    want = center[a] - shape[a] * s / 2 + s * np.arange(shape[a] + 1)
                    if not np.allclose(np.asarray(r.edges(a)), want, rtol=0, atol=1e-12 * s + 4e-16 * abs(center[a])):
                        fails.append(dict(sig="policy:QuasiUniformGrid.resolve-edges-wrong", detail=dict(shape=shape, axis=a)))
            for shape in ((3, 2, 2), (2, 2, 5)):
                evals += 1
                try:
                    qg.resolve(shape)
                    fails.append(dict(sig="policy:QuasiUniformGrid.resolve-accepts-odd-count", detail=dict(shape=shape)))
                except ValueError:
                    oc["odd-count-rejected"] = oc.get("odd-count-rejected", 0) + 1
    for kw in (dict(spacing=0.0), dict(spacing=-1.0)):
        evals += 1
        try:
            fdtdx.UniformGrid(**kw)
            fails.append(dict(sig="policy:non-positive-spacing-accepted", detail=kw))
        except ValueError:
            oc["bad-spacing-rejected"] = oc.get("bad-spacing-rejected", 0) + 1
    return fails, evals, nontriv, oc


def run_case(case):
    import warnings

    fn = {"axis": _part_axis, "cfl": _part_cfl, "uniform": _part_uniform, "symred": _part_symred, "policy": _part_policy}[case["part"]]
    with warnings.catch_warnings():
        warnings.simplefilter("ignore")
        fails, evals, nontriv, oc = fn(case)
    seen, out = {}, []
    for f in fails:
        seen[f["sig"]] = seen.get(f["sig"], 0) + 1
        if seen[f["sig"]] <= 3:
            out.append(f)
    return dict(ok=not fails, failures=out, detail={"failing_elements": len(fails), "by_sig": seen}, nontrivial=nontriv, evals=evals, outcome=oc)
