"""C39 — material descriptions are normalised and classified consistently.

Bounded exhaustive enumeration (E2):
  norm      every value pattern of the menu is given as scalar / 3-tuple / 9-tuple / nested 3x3 (whenever the pattern can be
            written that way), for each of the four properties, through Material(...) and through the functional
            setter; all forms must store the same 9-tuple, and the isotropy / diagonality / magnetic / conductive
            predicates must agree with an independent reading of that tensor.
  order     all dictionaries of <= 4 (quick: <= 3) materials from an 8-material menu in all insertion orders: every
            per-property list, the name list, the material list and the dispersive-coefficient table use one common
            order, which is ascending in the documented key.
  complex   Material.from_complex_permittivity / from_refractive_index / from_loss_tangent over value forms x reference
            kinds: eps' + i sigma/(eps0 omega) reproduces the requested permittivity at the reference frequency
            (and mu likewise), cross-checked with effective_complex_inv_permittivity.
"""
import itertools
import math

import numpy as np

ID = "C39"
LEVEL = "exploration"
MANIFEST = {
    "engine": "E2-enum",
    "technique": "bounded exhaustive enumeration of input forms x value patterns x properties, of all material dictionaries (<=4 materials, every insertion order) and of complex-permittivity forms x reference kinds, against an independent tensor reading",
    "text": "Every value pattern is fed in every admissible input form to every material property; all dictionaries of up to four materials in every insertion order are passed to all per-property list builders; every complex permittivity form is built with every reference kind. Stored tensors, predicates, list orders and the reconstructed complex permittivity are compared with an independent oracle.",
    "note": "Value menus are finite (degenerate: zeros, equal components, near-ties 1e-12 apart, off-diagonal only; generic all-distinct; one VERIF_SEED pattern).",
}
RULE = (
    "norm: element = (property, value pattern, input form, route); non-trivial when the form is not already the 9-tuple. "
    "order: element = (material subset, insertion order); non-trivial when the insertion order differs from the sorted order. "
    "complex: element = (constructor, value form, reference kind); non-trivial when an imaginary part is present."
)
ASSUMPTIONS = [
    "3-tuple inputs are tuples of Python floats (documented type); ints in a 3-tuple are rejected by the library with ValueError and are recorded, not judged",
    "near-ties (relative difference <= 1e-9) in isotropy predicates accept either answer",
]
TOL = 1e-9
PROPS = ["permittivity", "permeability", "electric_conductivity", "magnetic_conductivity"]


def _patterns(seed):
    rng = np.random.default_rng(777 + seed)
    g = [float(x) for x in rng.uniform(0.5, 9.0, size=9)]
    pats = {
        "iso-1": ("iso", 1.0),
        "iso-2.25": ("iso", 2.25),
        "iso-0": ("iso", 0.0),
        "diag-equal": ("diag", (3.0, 3.0, 3.0)),
        "diag-distinct": ("diag", (2.0, 3.5, 5.25)),
        "diag-two-equal": ("diag", (2.0, 2.0, 5.25)),
        "diag-near-tie": ("diag", (2.0, 2.0 * (1 + 1e-12), 2.0)),
        "diag-zero-entry": ("diag", (0.0, 1.5, 0.0)),
        "full-distinct": ("full", (2.0, 0.1, 0.2, 0.3, 3.5, 0.4, 0.5, 0.6, 5.25)),
        "full-sym": ("full", (2.0, 0.1, 0.2, 0.1, 3.5, 0.4, 0.2, 0.4, 5.25)),
        "full-offdiag-only-one": ("full", (2.0, 0.0, 0.0, 0.0, 2.0, 0.0, 1e-30, 0.0, 2.0)),
        "full-actually-diag": ("full", (2.0, 0.0, 0.0, 0.0, 3.5, 0.0, 0.0, 0.0, 5.25)),
        "full-actually-iso": ("full", (4.0, 0.0, 0.0, 0.0, 4.0, 0.0, 0.0, 0.0, 4.0)),
        "full-negative-offdiag": ("full", (2.0, -0.1, 0.0, 0.1, 2.0, 0.0, 0.0, 0.0, 2.0)),
        "seed-diag": ("diag", tuple(g[:3])),
        "seed-full": ("full", tuple(g)),
    }
    return pats


def _tensor(kind, v):
    if kind == "iso":
        return (v, 0.0, 0.0, 0.0, v, 0.0, 0.0, 0.0, v)
    if kind == "diag":
        return (v[0], 0.0, 0.0, 0.0, v[1], 0.0, 0.0, 0.0, v[2])
    return tuple(v)


def _forms(kind, v):
    """every admissible way of writing the pattern."""
    t = _tensor(kind, v)
    forms = {"9-tuple": t, "nested": (t[0:3], t[3:6], t[6:9])}
    offd = [t[i] for i in (1, 2, 3, 5, 6, 7)]
    if all(x == 0.0 for x in offd):
        forms["3-tuple"] = (t[0], t[4], t[8])
        if t[0] == t[4] == t[8]:
            forms["scalar"] = t[0]
    return forms


MENU = {
    "vac": dict(permittivity=1.0),
    "glass": dict(permittivity=2.25),
    "glass-mag": dict(permittivity=2.25, permeability=1.5),
    "glass-lossy": dict(permittivity=2.25, electric_conductivity=10.0),
    "glass-mloss": dict(permittivity=2.25, magnetic_conductivity=5.0),
    "aniso": dict(permittivity=(2.25, 4.0, 9.0), permeability=(1.0, 2.0, 3.0)),
    "aniso-tie": dict(permittivity=(2.25, 5.0, 6.0), electric_conductivity=(0.0, 1.0, 2.0)),
    "si": dict(permittivity=12.25),
}


def cases(tier, seed):
    out = []
    for pn in _patterns(seed):
        out.append(dict(part="norm", pattern=pn))
    names = sorted(MENU)
    maxn = 3 if tier == "quick" else 4
    for n in range(1, maxn + 1):
        for sub in itertools.combinations(names, n):
            out.append(dict(part="order", subset=list(sub)))
    out.append(dict(part="complex"))
    for c in out:
        c["seed"] = seed
    return out


def bounds(tier, seed):
    return {
        "patterns": sorted(_patterns(seed)),
        "forms": ["scalar", "3-tuple", "9-tuple", "nested"],
        "routes": ["Material(...)", "Material().aset(property, value)"],
        "properties": PROPS,
        "material_menu": sorted(MENU),
        "dict_sizes": [1, 3 if tier == "quick" else 4],
        "insertion_orders": "all permutations of every subset",
        "complex_forms": ["scalar", "3-tuple", "9-tuple", "nested"],
        "reference_kinds": ["frequency", "wavelength", "WaveCharacter(wavelength|frequency|period)"],
        "tolerance": TOL,
        "seed": seed,
    }


# ---------------------------------------------------------------------------------------------- oracle
def _iso_verdict(t):
    """True / False / None (tie: either answer acceptable)."""
    offd = [t[i] for i in (1, 2, 3, 5, 6, 7)]
    if any(x != 0.0 for x in offd):
        return False
    d = (t[0], t[4], t[8])
    if d[0] == d[1] == d[2]:
        return True
    m = max(abs(x) for x in d)
    if max(d) - min(d) <= 1e-8 * m:
        return None
    return False


def _diag_verdict(t):
    return all(t[i] == 0.0 for i in (1, 2, 3, 5, 6, 7))


def _agree(got, want):
    return want is None or bool(got) == want


def _part_norm(case):
    from mc import guard

    fdtdx = guard.import_fdtdx()
    Material = fdtdx.Material
    kind, v = _patterns(case["seed"])[case["pattern"]]
    want = _tensor(kind, v)
    fails, evals, nontriv, oc = [], 0, 0, {}
    for prop in PROPS:
        for fname, fval in _forms(kind, v).items():
            for route in ("init", "aset"):
                evals += 1
                if fname != "9-tuple":
                    nontriv += 1
                meta = dict(property=prop, pattern=case["pattern"], form=fname, route=route)
                import warnings

                with warnings.catch_warnings():
                    warnings.simplefilter("ignore")
                    if route == "init":
                        m = Material(**{prop: fval})
                    else:
                        m0 = Material()
                        snap = tuple(getattr(m0, p) for p in PROPS)
                        m = m0.aset(prop, fval)
                        if tuple(getattr(m0, p) for p in PROPS) != snap:
                            fails.append(dict(sig=f"norm:{route}:original-mutated", detail=meta))
                got = getattr(m, prop)
                ok = isinstance(got, tuple) and len(got) == 9 and tuple(got) == want
                oc[f"{fname}"] = oc.get(fname, 0) + 1
                if not ok:
                    fails.append(dict(sig=f"norm:{route}:{fname}-form-stores-a-different-tensor", detail=dict(meta, got=repr(got)[:300], want=want)))
                    continue
                # the other properties keep their defaults
                for p2 in PROPS:
                    if p2 != prop:
                        d = (1.0, 0.0, 0.0, 0.0, 1.0, 0.0, 0.0, 0.0, 1.0) if p2 in PROPS[:2] else (0.0,) * 9
                        if tuple(getattr(m, p2)) != d:
                            fails.append(dict(sig=f"norm:{route}:other-property-changed", detail=dict(meta, other=p2)))
                # predicates against the tensor
                short = {"permittivity": "permittivity", "permeability": "permeability", "electric_conductivity": "electric_conductivity", "magnetic_conductivity": "magnetic_conductivity"}[prop]
                iso_got = getattr(m, f"is_isotropic_{short}")
                diag_got = getattr(m, f"is_diagonally_anisotropic_{short}")
                if not _agree(iso_got, _iso_verdict(want)):
                    fails.append(dict(sig=f"predicate:is_isotropic_{short}-disagrees-with-tensor", detail=dict(meta, got=iso_got, tensor=want)))
                if bool(diag_got) != _diag_verdict(want):
                    fails.append(dict(sig=f"predicate:is_diagonally_anisotropic_{short}-disagrees-with-tensor", detail=dict(meta, got=diag_got, tensor=want)))
                if not _agree(m.is_all_isotropic, _iso_verdict(want)):
                    fails.append(dict(sig="predicate:is_all_isotropic-disagrees-with-tensor", detail=dict(meta, got=m.is_all_isotropic)))
                if bool(m.is_all_diagonally_anisotropic) != _diag_verdict(want):
                    fails.append(dict(sig="predicate:is_all_diagonally_anisotropic-disagrees-with-tensor", detail=dict(meta)))
                ident = (1.0, 0.0, 0.0, 0.0, 1.0, 0.0, 0.0, 0.0, 1.0)
                mag_want = (want != ident) if prop == "permeability" else False
                econd_want = any(x != 0.0 for x in want) if prop == "electric_conductivity" else False
                mcond_want = any(x != 0.0 for x in want) if prop == "magnetic_conductivity" else False
                for nm, g, w in (("is_magnetic", m.is_magnetic, mag_want), ("is_electrically_conductive", m.is_electrically_conductive, econd_want), ("is_magnetically_conductive", m.is_magnetically_conductive, mcond_want)):
                    # a permeability within 1e-9 of the identity may count as non-magnetic
                    tie = nm == "is_magnetic" and prop == "permeability" and want != ident and max(abs(a - b) for a, b in zip(want, ident)) <= 1e-8
                    if bool(g) != w and not tie:
                        fails.append(dict(sig=f"predicate:{nm}-disagrees-with-tensor", detail=dict(meta, got=g, want=w, tensor=want)))
    # ints inside a 3-tuple: documented type is float; record what happens
    if kind == "diag" and all(float(x).is_integer() for x in v):
        try:
            Material(permittivity=tuple(int(x) for x in v))
            oc["int-3-tuple-accepted"] = 1
        except ValueError:
            oc["int-3-tuple-rejected(ValueError)"] = 1
    # malformed shapes are rejected
    for bad in ((1.0, 2.0), (1.0,) * 4, ((1.0, 2.0), (1.0, 2.0), (1.0, 2.0))):
        evals += 1
        try:
            Material(permittivity=bad)
            fails.append(dict(sig="norm:malformed-tuple-accepted", detail=dict(value=repr(bad))))
        except ValueError:
            oc["malformed-rejected"] = oc.get("malformed-rejected", 0) + 1
    return fails, evals, nontriv, oc


def _part_order(case):
    from mc import guard

    fdtdx = guard.import_fdtdx()
    import fdtdx.materials as M
    import fdtdx.dispersion as D

    dt = 2e-17
    disp = {
        "glass": D.DispersionModel(poles=(D.LorentzPole(resonance_frequency=0.3 / dt, damping=0.01 / dt, delta_epsilon=1.0),)),
        "si": D.DispersionModel(poles=(D.DrudePole(plasma_frequency=0.5 / dt, damping=0.1 / dt), D.LorentzPole(resonance_frequency=0.1 / dt, damping=0.0, delta_epsilon=(2.0, 0.0, 1.0)))),
    }
    mats = {n: fdtdx.Material(**MENU[n], **({"dispersion": disp[n]} if n in disp else {})) for n in case["subset"]}
    fails, evals, nontriv, oc = [], 0, 0, {}

    def key(m):
        return (m.permittivity[0], m.permeability[0], m.electric_conductivity[0], m.magnetic_conductivity[0])

    for perm in itertools.permutations(case["subset"]):
        d = {n: mats[n] for n in perm}
        evals += 1
        names = M.compute_ordered_names(d)
        meta = dict(insertion=list(perm), order=list(names))
        if sorted(names) != sorted(perm):
            fails.append(dict(sig="order:name-list-is-not-a-permutation-of-the-dictionary", detail=meta))
            continue
        if list(names) != list(perm):
            nontriv += 1
        ks = [key(d[n]) for n in names]
        if any(ks[i] > ks[i + 1] for i in range(len(ks) - 1)):
            fails.append(dict(sig="order:not-ascending-in-the-documented-key", detail=dict(meta, keys=ks)))
        # insertion order must not matter when the documented keys are all distinct
        if len(set(ks)) == len(ks) and list(names) != [n for n, _ in sorted(mats.items(), key=lambda kv: key(kv[1]))]:
            fails.append(dict(sig="order:depends-on-insertion-order-without-ties", detail=meta))
        ol = M.compute_ordered_materials(d)
        if [id(x) for x in ol] != [id(d[n]) for n in names]:
            fails.append(dict(sig="order:compute_ordered_materials-uses-another-order", detail=meta))
        nt = M.compute_ordered_material_name_tuples(d)
        if [a for a, _ in nt] != list(names) or [id(b) for _, b in nt] != [id(d[n]) for n in names]:
            fails.append(dict(sig="order:name-tuples-use-another-order", detail=meta))
        fns = {
            "permittivity": M.compute_allowed_permittivities,
            "permeability": M.compute_allowed_permeabilities,
            "electric_conductivity": M.compute_allowed_electric_conductivities,
            "magnetic_conductivity": M.compute_allowed_magnetic_conductivities,
        }
        for prop, fn in fns.items():
            for mode, kw, sel in (("iso", dict(isotropic=True), (0,)), ("diag", dict(diagonally_anisotropic=True), (0, 4, 8)), ("full", {}, tuple(range(9)))):
                got = fn(d, **kw)
                evals += 1
                want = [tuple(getattr(d[n], prop)[i] for i in sel) for n in names]
                if [tuple(x) for x in got] != want:
                    fails.append(dict(sig=f"order:{prop}-list-uses-another-order-or-values", detail=dict(meta, mode=mode, got=[tuple(x) for x in got], want=want)))
        npmax = M.compute_max_dispersive_poles(d)
        c = M.compute_allowed_dispersive_coefficients(d, dt, npmax, 3, 9)
        evals += 1
        for i, n in enumerate(names):
            poles = d[n].dispersion.poles if d[n].dispersion is not None else ()
            t = D.compute_pole_coefficients_tensor(poles, dt)
            k = len(poles)
            if not (all(np.array_equal(c[j][i, :k], t[j]) for j in range(4)) and all(np.all(c[j][i, k:] == 0) for j in range(4))):
                fails.append(dict(sig="order:dispersive-coefficient-table-uses-another-order", detail=dict(meta, material=n)))
        oc["with-key-ties" if len(set(ks)) < len(ks) else "distinct-keys"] = oc.get("with-key-ties" if len(set(ks)) < len(ks) else "distinct-keys", 0) + 1
    return fails, evals, nontriv, oc


def _part_complex(case):
    from mc import guard

    fdtdx = guard.import_fdtdx()
    import fdtdx.dispersion as D
    import jax.numpy as jnp

    Material = fdtdx.Material
    c0, eps0, mu0 = fdtdx.constants.c, fdtdx.constants.eps0, fdtdx.constants.mu0
    rng = np.random.default_rng(99 + case["seed"])
    fails, evals, nontriv, oc = [], 0, 0, {}
    gen = [complex(a, b) for a, b in zip(rng.uniform(1, 12, 9), rng.uniform(-1, 3, 9))]
    values = {
        "scalar-real": 2.25,
        "scalar-lossy": 2.25 + 0.3j,
        "scalar-gain": 4.0 - 0.05j,
        "scalar-metal-like": -10.0 + 1.5j,
        "3-tuple": (2.25 + 0.1j, 4.0 + 0j, 9.0 + 2j),
        "3-tuple-seed": tuple(gen[:3]),
        "9-tuple-hermitian": (2.0 + 0.1j, 0.3j, 0j, -0.3j, 2.0 + 0.1j, 0j, 0j, 0j, 3.0 + 0.2j),
        "9-tuple-seed": tuple(gen[i] if i in (0, 4, 8) else 0.05 * gen[i] for i in range(9)),
    }
    values["nested-seed"] = tuple(tuple(values["9-tuple-seed"][3 * r : 3 * r + 3]) for r in range(3))
    lam = 1.55e-6
    f0 = c0 / lam
    refs = {
        "frequency": dict(frequency=f0),
        "wavelength": dict(wavelength=lam),
        "wc-wavelength": dict(reference=fdtdx.WaveCharacter(wavelength=lam)),
        "wc-frequency": dict(reference=fdtdx.WaveCharacter(frequency=f0)),
        "wc-period": dict(reference=fdtdx.WaveCharacter(period=1.0 / f0)),
    }
    omega = 2 * math.pi * f0

    def flat9(v):
        if isinstance(v, tuple):
            if len(v) == 3 and isinstance(v[0], tuple):
                return [complex(x) for r in v for x in r]
            if len(v) == 3:
                return [complex(v[0]), 0, 0, 0, complex(v[1]), 0, 0, 0, complex(v[2])]
            return [complex(x) for x in v]
        return [complex(v), 0, 0, 0, complex(v), 0, 0, 0, complex(v)]

    import warnings

    for vn, val in values.items():
        for rn, ref in refs.items():
            for mu_val in (1.0, (1.5 + 0.2j, 2.0 + 0j, 1.0 + 0.01j)):
                evals += 1
                meta = dict(value=vn, reference=rn, permeability=repr(mu_val))
                with warnings.catch_warnings():
                    warnings.simplefilter("ignore")
                    m = Material.from_complex_permittivity(val, permeability=mu_val, **ref)
                want_e, want_m = np.array(flat9(val)), np.array(flat9(mu_val))
                got_e = np.array(m.permittivity) + 1j * np.array(m.electric_conductivity) / (eps0 * omega)
                got_m = np.array(m.permeability) + 1j * np.array(m.magnetic_conductivity) / (mu0 * omega)
                if np.any(want_e.imag != 0):
                    nontriv += 1
                for nm, g, w in (("permittivity", got_e, want_e), ("permeability", got_m, want_m)):
                    if not np.all(np.abs(g - w) <= TOL * np.max(np.abs(w))):
                        fails.append(dict(sig=f"complex:from_complex_permittivity-does-not-reproduce-{nm}-at-reference", detail=dict(meta, got=str(g), want=str(w))))
                for p in PROPS:
                    t = getattr(m, p)
                    if not (isinstance(t, tuple) and len(t) == 9 and all(isinstance(x, float) for x in t)):
                        fails.append(dict(sig="complex:stored-property-is-not-a-real-9-tuple", detail=dict(meta, prop=p, got=repr(t)[:200])))
                # the library's own consumer of (eps_inf, sigma) must see the same complex permittivity (diagonal forms)
                if vn.startswith(("scalar", "3-tuple")) and want_e[0].real > 0:
                    inv = jnp.asarray(np.array([1 / m.permittivity[i] for i in (0, 4, 8)]).reshape(3, 1, 1, 1))
                    spacing = 0.37
                    sig = jnp.asarray(np.array([m.electric_conductivity[i] * spacing for i in (0, 4, 8)]).reshape(3, 1, 1, 1))
                    ce = 1.0 / np.asarray(D.effective_complex_inv_permittivity(inv, omega, 1e-17, electric_conductivity=sig, conductivity_spacing=spacing)).ravel()
                    evals += 1
                    if not np.all(np.abs(ce - want_e[[0, 4, 8]]) <= TOL * np.max(np.abs(want_e))):
                        fails.append(dict(sig="complex:effective_complex_inv_permittivity-sees-another-permittivity", detail=dict(meta, got=str(ce), want=str(want_e[[0, 4, 8]]))))
        oc[vn.split("-")[0]] = oc.get(vn.split("-")[0], 0) + 1
    # refractive index and loss tangent constructors
    for n_val in (1.5, 1.5 + 0.1j, 0.2 + 3.0j, (1.5 + 0.1j, 2.0 + 0j, 3.0 + 0.5j)):
        for rn, ref in refs.items():
            evals += 1
            nontriv += 1
            m = Material.from_refractive_index(n_val, **ref)
            nn = [complex(x) ** 2 for x in (n_val if isinstance(n_val, tuple) else (n_val,) * 3)]
            got = np.array([m.permittivity[i] for i in (0, 4, 8)]) + 1j * np.array([m.electric_conductivity[i] for i in (0, 4, 8)]) / (eps0 * omega)
            if not np.all(np.abs(got - np.array(nn)) <= TOL * np.max(np.abs(nn))):
                fails.append(dict(sig="complex:from_refractive_index-does-not-reproduce-n^2", detail=dict(n=repr(n_val), reference=rn, got=str(got))))
            offd = [m.permittivity[i] for i in (1, 2, 3, 5, 6, 7)] + [m.electric_conductivity[i] for i in (1, 2, 3, 5, 6, 7)]
            if any(x != 0.0 for x in offd):
                fails.append(dict(sig="complex:from_refractive_index-creates-off-diagonal-entries", detail=dict(n=repr(n_val))))
    for e_val, t_val in ((2.25, 0.01), ((2.25, 4.0, 9.0), 0.02), ((2.25, 4.0, 9.0), (0.0, 0.1, 0.2)), (3.0, (0.1, 0.2, 0.3))):
        for rn, ref in refs.items():
            evals += 1
            nontriv += 1
            m = Material.from_loss_tangent(e_val, t_val, **ref)
            ev = e_val if isinstance(e_val, tuple) else (e_val,) * 3
            tv = t_val if isinstance(t_val, tuple) else (t_val,) * 3
            want = np.array([e * (1 + 1j * t) for e, t in zip(ev, tv)])
            got = np.array([m.permittivity[i] for i in (0, 4, 8)]) + 1j * np.array([m.electric_conductivity[i] for i in (0, 4, 8)]) / (eps0 * omega)
            if not np.all(np.abs(got - want) <= TOL * np.max(np.abs(want))):
                fails.append(dict(sig="complex:from_loss_tangent-does-not-reproduce-eps(1+i tan d)", detail=dict(eps=repr(e_val), tan=repr(t_val), reference=rn, got=str(got))))
    # documented errors: not exactly one reference; singular real part
    for kw in ({}, dict(frequency=f0, wavelength=lam), dict(frequency=f0, reference=fdtdx.WaveCharacter(wavelength=lam))):
        evals += 1
        try:
            Material.from_complex_permittivity(2.0 + 1j, **kw)
            fails.append(dict(sig="complex:ambiguous-reference-accepted", detail=dict(kw=sorted(kw))))
        except ValueError:
            oc["reference-error"] = oc.get("reference-error", 0) + 1
    for bad in (0.0 + 1j, (1.0 + 0j, 0.0 + 1j, 1.0 + 0j)):
        evals += 1
        try:
            with warnings.catch_warnings():
                warnings.simplefilter("ignore")
                Material.from_complex_permittivity(bad, frequency=f0)
            fails.append(dict(sig="complex:singular-real-part-accepted", detail=dict(value=repr(bad))))
        except ValueError:
            oc["singular-error"] = oc.get("singular-error", 0) + 1
    return fails, evals, nontriv, oc


def run_case(case):
    import warnings

    fn = {"norm": _part_norm, "order": _part_order, "complex": _part_complex}[case["part"]]
    with warnings.catch_warnings():
        warnings.simplefilter("ignore")  # e.g. the library's own warning about non-positive static permittivities
        fails, evals, nontriv, oc = fn(case)
    seen, out = {}, []
    for f in fails:
        seen[f["sig"]] = seen.get(f["sig"], 0) + 1
        if seen[f["sig"]] <= 3:
            out.append(f)
    return dict(ok=not fails, failures=out, detail={"failing_elements": len(fails), "by_sig": seen}, nontrivial=nontriv, evals=evals, outcome=oc)
