"""C33 — electric-plane symmetry reduction is exact inside the light cone of the discarded half's far boundary.

Engine E1, two-system comparison. F = full domain (2n cells along the symmetry axis, config.symmetry = 0), R = the same
objects placed with config.symmetry[axis] = -1 (place_objects keeps the upper half and adds the PEC wall). For EVERY
wall-consistent basis state s of the reduced domain (plus affinity rows and dense probes) and every k = 1..K:
    unfold_fields(step_R^k s)  ==  step_F^k(unfold_fields s)      on the cells with index > k (+1 for co-located records)
and the same for the co-located FieldDetector records reconstructed with unfold_detector_states.
"""
import numpy as np

ID = "C33"
LEVEL = "model_checking"
MANIFEST = {
    "engine": "E1-linsys",
    "technique": "explicit-state model checking: reduced and full transition tables tabulated on all (wall-consistent) basis states, intertwined by the library's own unfold maps, step by step inside the light cone",
    "text": "For each symmetry axis, transverse boundary kind, far-boundary kind, material tier (transversely varying, constant along the axis) and grid, the reduced domain's real forward step is tabulated on every basis state and iterated K times; the full domain's real step is iterated on the unfolded images of all of them; equality on the cells the far boundary cannot have reached (and of the co-located detector records unfolded by unfold_detector_states) decides the property for every parity-consistent initial field.",
    "note": "No PML on any face (psi has no documented unfold map); n=4 kept cells, K=3 steps; float64.",
}
RULE = (
    "case = (symmetry axis, transverse faces, far faces on the symmetry axis, materials, grid, detector option); rows = zero + all basis states of "
    "the reduced (E,H) state projected on the wall condition + affinity rows + dense probes; k = 1..K. Non-trivial = the reduced step couples the "
    "plane row to the interior (measured) and the compared region contains mirrored (lower-half) cells for k <= K-1; distinct = case tuples."
)
ASSUMPTIONS = ["float64 representative of float32", "materials constant along the symmetry axis as the property requires", "no absorbing layers in these scenes", "detector records are compared for co-located (exact_interpolation) detectors only: unfolding raw staggered records is documented as a plain-flip approximation"]
TOL = 1e-9
N_KEPT = 4
K = 3


def cases(tier, seed):
    out = []
    trans = ["periodic", "none", "pecpmc"] if tier == "quick" else ["periodic", "none", "pecpmc", "pec", "pmc"]
    fars = ["none", "pec"] if tier == "quick" else ["none", "pec", "pmc"]
    mats = ["iso", "diag"] if tier == "quick" else ["iso", "diag", "iso+mu", "vac"]
    grids = ["uniform", "rect_sym"]
    i = 0
    for axis in range(3):
        for tr in trans:
            for far in fars:
                for m in mats:
                    g = grids[i % 2] if tier == "quick" else None
                    for gg in ([g] if g else grids):
                        out.append(dict(axis=axis, trans=tr, far=far, mats=m, grid=gg, exact=True, wide=bool((i // 2) % 2 == 0), seed=seed))
                    i += 1
    return out


def bounds(tier, seed):
    return {"axes": [0, 1, 2], "kept_cells": N_KEPT, "steps": K, "transverse_shape": "2 x 3", "rows": "zero + all reduced basis states + affinity + 2 dense probes", "tolerance": TOL}


def _spec(case, sym):
    from mc import scenes

    a = case["axis"]
    shape = [2, 3, 2]
    shape[a] = 2 * N_KEPT
    tr = {"periodic": "periodic", "none": "none", "pecpmc": ("pec", "pmc"), "pec": ("pec", "pec"), "pmc": ("pmc", "pmc")}[case["trans"]]
    per_axis = [tr, tr, tr]
    per_axis[a] = {"none": "none", "pec": ("pec", "pec"), "pmc": ("pmc", "pmc")}[case["far"]]
    box = [[0, shape[0]], [0, shape[1]], [0, shape[2]]]
    box[a] = [N_KEPT - 2, N_KEPT + 2] if case.get("wide", True) else [N_KEPT - 3, N_KEPT + 3]
    spec = dict(shape=shape, faces=scenes.faces_from_axes(per_axis), steps=K + 1, seed=case["seed"], grid=case["grid"], detectors=[dict(kind="field", name="det", box=box, exact_interpolation=case["exact"])])
    if sym:
        s = [0, 0, 0]
        s[a] = -1
        spec["symmetry"] = s
    return spec, shape


def _materials(case, shape, nc_eps, seed):
    """inv_eps / inv_mu arrays constant along the symmetry axis, all-distinct transversely."""
    from mc import scenes

    a = case["axis"]
    tshape = [shape[i] for i in range(3) if i != a]

    def arr(nc, tag, lo, hi):
        v = scenes.pattern("distinct" if tag != "mu" else "seed", (nc, *tshape), lo, hi, seed, tag)
        v = np.expand_dims(v, a + 1)
        return 1.0 / np.repeat(v, shape[a], axis=a + 1)

    m = case["mats"]
    eps = arr(3 if m == "diag" else 1, "eps", 1.0, 3.0) if m != "vac" else None
    mu = arr(1, "mu", 1.0, 2.0) if m == "iso+mu" else None
    return eps, mu


def run_case(case):
    from mc import linsys, scenes, tables
    import fdtdx
    import jax
    import jax.numpy as jnp

    a = case["axis"]
    specF, shapeF = _spec(case, False)
    specR, _ = _spec(case, True)
    scF = scenes.build(specF)
    scR = scenes.build(specR)
    shapeR = tuple(scR.objects.volume.grid_shape)
    assert shapeR[a] == N_KEPT and tuple(scF.objects.volume.grid_shape) == tuple(shapeF)
    epsF, muF = _materials(case, shapeF, 0, case["seed"])
    for sc, shp in ((scF, shapeF), (scR, shapeR)):
        arr = sc.arrays
        if epsF is not None:
            sl = [slice(None)] * 4
            sl[a + 1] = slice(0, shp[a])
            e = epsF[tuple(sl)]
            if arr.inv_permittivities.shape[0] != e.shape[0]:
                e = np.broadcast_to(e, (arr.inv_permittivities.shape[0], *e.shape[1:])) if e.shape[0] == 1 else e
            arr = arr.aset("inv_permittivities", jnp.asarray(e))
        if muF is not None:
            sl = [slice(None)] * 4
            sl[a + 1] = slice(0, shp[a])
            arr = arr.aset("inv_permeabilities", jnp.asarray(muF[tuple(sl)]))
        sc.arrays = arr
        scenes.reapply(sc)
    cR, cF = linsys.Codec(scR.arrays), linsys.Codec(scF.arrays)
    nR, nF = cR.n, cF.n
    keep = linsys.wall_keep(scR, cR)  # includes the symmetry PEC wall the library inserted (tangential E on the plane)
    # "initial fields with the corresponding parity": the normal H component is odd and sampled ON the plane, so it vanishes there
    kH = np.ones((3, *shapeR))
    sl0 = [slice(None)] * 3
    sl0[a] = 0
    kH[(a, *sl0)] = 0
    lo_h, hi_h, _ = cR.slot_range(("H",))
    keep[lo_h:hi_h] *= kH.ravel()
    rows = tables.Rows(nR, False, 1, t0s=(0,), seed=case["seed"], keep=keep)
    XR = rows.X
    nrow = XR.shape[0]
    sym = tuple(specR["symmetry"])

    def unfold_state(X, shp):
        ncell = int(np.prod(shp))
        E = jnp.asarray(X[:, : 3 * ncell].reshape(-1, 3, *shp))
        H = jnp.asarray(X[:, 3 * ncell :].reshape(-1, 3, *shp))
        Eu = jax.vmap(lambda e: fdtdx.unfold_fields(e, sym, "E"))(E)
        Hu = jax.vmap(lambda h: fdtdx.unfold_fields(h, sym, "H"))(H)
        return np.concatenate([np.asarray(Eu).reshape(X.shape[0], -1), np.asarray(Hu).reshape(X.shape[0], -1)], axis=1)

    layR = tables.det_layout(scR.arrays.detector_states)

    def unfold_records(O):
        states = {}
        off = 0
        for name, k, shp, dt in layR:
            sz = int(np.prod(shp))
            states.setdefault(name, {})[k] = jnp.asarray(O[:, off : off + sz].reshape(-1, *shp))
            off += sz

        def f(st):
            arrs = scR.arrays.aset("detector_states", st)
            return fdtdx.unfold_detector_states(arrs, scR.objects, scR.config).detector_states

        out = jax.vmap(f)(states)
        return np.asarray(out["det"]["fields"])

    # full-domain index along the symmetry axis of every state entry / record entry
    idxF = np.broadcast_to(np.arange(shapeF[a]).reshape([-1 if i == a else 1 for i in range(3)]), shapeF)
    posF = np.concatenate([np.broadcast_to(idxF, (3, *shapeF)).ravel()] * 2)
    XF = unfold_state(XR, shapeR)
    fails = []
    detail = dict(nR=nR, nF=nF, rows=nrow, sym=list(sym))
    YR_prev, YF_prev = XR, XF
    sY = 1.0
    worst = 0.0
    worst_rec = 0.0
    mirrored_cells_checked = 0
    for k in range(1, K + 1):
        tv = np.full((nrow,), k - 1, dtype=np.int32)
        YR, OR = tables.run(scR, cR, tv, YR_prev)
        YF, OF = tables.run(scF, cF, tv, YF_prev)
        exp = unfold_state(YR, shapeR)
        valid = posF > k  # cells the far boundary of the discarded half cannot have reached after k steps
        sY = max(sY, float(np.max(np.abs(YF))))
        d = float(np.max(np.abs((YF - exp)[:, valid]))) / sY
        mirrored_cells_checked += int(np.sum(valid & (posF < N_KEPT)))
        worst = max(worst, d)
        if d > TOL and not any(f["sig"].startswith("unfolded-reduced-fields") for f in fails):
            r = int(np.argmax(np.max(np.abs((YF - exp)[:, valid]), axis=1)))
            fails.append(dict(sig="unfolded-reduced-fields-differ-from-full-run", detail=dict(step=k, defect=d, worst_row=str(rows.labels[r]))))
        # co-located detector records (slot k-1)
        recU = unfold_records(OR)  # (rows, T, comps, *full det shape)
        recF = OF.reshape(recU.shape)
        det = scF.objects["det"]
        lo = det.grid_slice_tuple[a][0]
        pos = np.arange(recU.shape[3 + a]) + lo
        vsel = pos > (k + 1 if case["exact"] else k)
        sl = [slice(None)] * recU.ndim
        sl[3 + a] = vsel
        sR = max(1e-300, float(np.max(np.abs(recF))))
        dr = float(np.max(np.abs((recU - recF)[tuple(sl)]))) / sR if np.any(vsel) else 0.0
        worst_rec = max(worst_rec, dr)
        if dr > TOL and not any(f["sig"].startswith("unfolded-detector") for f in fails):
            fails.append(dict(sig=f"unfolded-detector-records-differ:axis={a}:exact={case['exact']}", detail=dict(step=k, defect=dr)))
        YR_prev, YF_prev = YR, YF
    M, b, _, _ = tables.table(rows, tables.run(scR, cR, rows.tvec, rows.X, record_detectors=False)[0], np.zeros((nrow, 0)), 0)
    detail.update(field_defect=worst, record_defect=worst_rec, mirrored_entries_checked=mirrored_cells_checked)
    nontriv = mirrored_cells_checked > 0 and float(np.max(np.abs(M - np.diag(np.diag(M))))) > 0
    ev = nrow * 2 * K + nrow
    return dict(ok=not fails, failures=fails, detail=detail, nontrivial=int(nontriv), evals=ev, states=nrow, transitions=ev, traces=0, outcome=f"axis={a},exact={case['exact']}")
