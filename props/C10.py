"""C10 — fields and linear detector records are linear in each source's amplitude and superpose across sources and
initial fields; quadratic records scale with the square of a common factor.

Engine E1. One scene holds the 4-source menu (plane, Gaussian beam, electric dipole, gated magnetic dipole) and linear
(field, phasor) + quadratic (energy, Poynting) detectors. For EVERY subset of the sources (objects removed from the
container) one jit evaluates the real forward+detector step with the amplitude factors as arguments, on the complete
product  amplitude vector in {0, 1, -2, 1/2}^k  x  every time index  x  {zero state, two dense states}:
    next(set, a, t, s) - next(empty, t, s)  ==  sum_i a_i * [ next({i}, 1, t, 0) - next(empty, t, 0) ]        (same for records)
and the quadratic records of (a * sources, a * s) equal a^2 times those of (sources, s).
The linear part itself (affinity in s on all basis states) is C01/C02's tabulation; here it is re-checked on a block.
"""
import itertools

import numpy as np

ID = "C10"
LEVEL = "model_checking"
MANIFEST = {
    "engine": "E1-linsys",
    "technique": "explicit-state model checking: exhaustive enumeration of source subsets x amplitude vectors x time indices through the real step, additivity/homogeneity of the affine offsets and record maps",
    "text": "All 16 subsets of a 4-source menu, all amplitude vectors over {0,1,-2,1/2}, every time index of the run and zero/dense initial states are pushed through the real forward step with detector update; the offsets and linear records must be the amplitude-weighted sums of the single-source unit responses and the linear part must not depend on the source set, which together with the affinity of the step (checked on basis pairs) is linearity in sources and initial state for all inputs. Quadratic records are checked for a^2 scaling on the same grid of common factors.",
    "note": "Amplitude factors are injected through the public static_amplitude_factor field of the placed sources (functional update + the library's own apply), cross-checked against scenes placed from scratch with those factors; float64.",
}
RULE = (
    "case = (faces, materials); inside a case: all subsets of 4 sources x all amplitude vectors in {0,1,-2,.5}^k x every t in [0,T) x 3 initial "
    "states. Non-trivial = amplitude vectors with >=2 non-zero entries whose summed unit responses are non-zero at that t (measured); "
    "distinct = distinct (subset, amplitude vector, t, state) tuples."
)
ASSUMPTIONS = ["float64 representative of float32", "amplitudes from the finite menu {0,1,-2,1/2}", "materials from finite alphabets"]
TOL = 1e-9
T = 8
SHAPE = [4, 5, 6]
AMPS = [0.0, 1.0, -2.0, 0.5]
W = {"wavelength": 0.6e-6}

FACES = [
    ("pmlx1/periodic/periodic", ["pml", "periodic", "periodic"]),
    ("periodic3", ["periodic", "periodic", "periodic"]),
    ("pecpmc/none/pmlz1", [("pec", "pmc"), "none", "pml"]),
]
MATS = [("iso", dict(eps={"tier": "iso", "pat": "distinct", "lo": 1.0, "hi": 3.0})), ("iso+mu+sig", dict(eps={"tier": "iso", "pat": "seed", "lo": 1.0, "hi": 3.0}, mu={"tier": "iso", "pat": "distinct", "lo": 1.0, "hi": 2.0}, sig_e={"tier": "iso", "pat": "some"}))]


def sources():
    nx, ny, nz = SHAPE
    return [
        dict(kind="plane", name="s_plane", box=[[0, nx], [0, ny], [2, 3]], direction="+", fixed_E_polarization_vector=[1, 0, 0], wave=W),
        dict(kind="dipole", name="s_dipE", box=[[1, 2], [2, 3], [3, 4]], polarization=2, wave=W),
        dict(kind="gauss", name="s_gauss", box=[[0, nx], [2, 3], [0, nz]], direction="-", fixed_E_polarization_vector=[0, 0, 1], radius=100e-9, wave=W, switch=dict(fixed_on_time_steps=[0, 1, 2, 4, 5, 7])),
        dict(kind="dipole", name="s_dipM", box=[[2, 3], [1, 2], [2, 3]], polarization=1, source_type="magnetic", wave=W, switch=dict(interval=3)),
    ]


def detectors():
    WC = [W]
    return [
        dict(kind="field", name="d_field", box=[[1, 3], [1, 3], [2, 4]]),
        dict(kind="phasor", name="d_phasor", box=[[2, 3], [2, 4], [3, 4]], wave_characters=WC),
        dict(kind="energy", name="d_energy", box=[[1, 3], [2, 3], [2, 4]]),
        dict(kind="poynting", name="d_poynting", box=[[1, 3], [1, 4], [4, 5]], direction="+"),
    ]


def cases(tier, seed):
    out = []
    for f in range(len(FACES)):
        for m in range(len(MATS)):
            if tier == "quick" and (f, m) not in ((0, 0), (1, 1), (2, 0)):
                continue
            out.append(dict(faces=f, mats=m, seed=seed))
    return out


def bounds(tier, seed):
    return {
        "source_subsets": "all 16 subsets of {plane, electric dipole, Gaussian (fixed-step switch), magnetic dipole (interval switch)}",
        "amplitudes": AMPS,
        "time_indices": f"every t in [0,{T})",
        "initial_states": ["zero", "dense all-distinct", "dense seed"],
        "faces": [f[0] for f in FACES],
        "materials": [m[0] for m in MATS],
        "tolerance": TOL,
    }


def run_case(case):
    from mc import linsys, scenes, tables
    import fdtdx
    import jax
    import jax.numpy as jnp
    from fdtdx.fdtd.forward import forward

    spec = dict(shape=SHAPE, faces=scenes.faces_from_axes(FACES[case["faces"]][1]), pml=1, steps=T, seed=case["seed"], sources=sources(), detectors=detectors())
    spec.update(MATS[case["mats"]][1])
    sc = scenes.build(spec)
    codec = linsys.Codec(sc.arrays)
    n = codec.n
    keep = linsys.wall_keep(sc, codec)
    src_names = [s["name"] for s in sources()]
    lay = tables.det_layout(sc.arrays.detector_states)
    lin_sel, quad_sel = [], []
    off = 0
    for name, k, shp, dt in lay:
        sz = int(np.prod(shp)) if len(shp) else 1
        (lin_sel if name in ("d_field", "d_phasor") else quad_sel).extend(range(off, off + sz))
        off += sz
    lin_sel, quad_sel = np.asarray(lin_sel), np.asarray(quad_sel)
    probes = np.stack([np.zeros(n), linsys.dense_state(n, "distinct", 0, False) * keep, linsys.dense_state(n, "seed", case["seed"], False) * keep])
    key = jax.random.PRNGKey(0)

    def make_eval(subset):
        names = [src_names[i] for i in subset]

        def one(t, v, amps):
            objs = []
            for o in sc.objects.object_list:
                if isinstance(o, fdtdx.objects.sources.source.Source):
                    if o.name not in names:
                        continue
                    o = o.aset("static_amplitude_factor", amps[names.index(o.name)])
                objs.append(o)
            oc = fdtdx.ObjectContainer(object_list=objs, volume_idx=0)
            a = codec.unpack(sc.arrays, v)
            _, a2 = forward((t, a), sc.config, oc, key, True, False, True)
            return codec.pack(a2), tables.det_flatten(a2.detector_states)

        return jax.jit(jax.vmap(one))

    def grid_rows(k):
        vecs = list(itertools.product(AMPS, repeat=k)) if k else [()]
        rows = [(t, p, a) for a in vecs for t in range(T) for p in range(3)]
        tv = np.asarray([r[0] for r in rows], dtype=np.int32)
        X = np.stack([probes[r[1]] for r in rows])
        A = np.asarray([r[2] for r in rows], dtype=np.float64).reshape(len(rows), k)
        return rows, tv, X, A

    fails = []
    evals = 0
    nontriv = 0
    # reference: no sources at all (pure linear part) and unit responses of each single source
    rows0, tv0, X0, A0 = grid_rows(0)
    Y0, O0 = make_eval(())(jnp.asarray(tv0), jnp.asarray(X0), jnp.asarray(A0))
    Y0, O0 = np.asarray(Y0).reshape(T, 3, -1), np.asarray(O0).reshape(T, 3, -1)
    evals += len(rows0)
    unitY, unitO = {}, {}
    evaluators = {}
    results = {}
    for k in range(1, 5):
        for subset in itertools.combinations(range(4), k):
            ev = make_eval(subset)
            rows, tv, X, A = grid_rows(k)
            Y, O = ev(jnp.asarray(tv), jnp.asarray(X), jnp.asarray(A))
            evals += len(rows)
            nv = len(AMPS) ** k
            results[subset] = (np.asarray(Y).reshape(nv, T, 3, -1), np.asarray(O).reshape(nv, T, 3, -1), np.asarray(A).reshape(nv, T, 3, k)[:, 0, 0, :])
            if k == 1:
                i = subset[0]
                j = AMPS.index(1.0)
                unitY[i] = results[subset][0][j, :, 0, :] - Y0[:, 0, :]
                unitO[i] = results[subset][1][j, :, 0, :] - O0[:, 0, :]
    scaleY = max(1e-12, max(float(np.max(np.abs(u))) for u in unitY.values()))
    scaleO = max(1e-300, max(float(np.max(np.abs(u[:, lin_sel]))) for u in unitO.values())) if lin_sel.size else 1.0
    worst = dict(state=0.0, record=0.0)
    for subset, (Y, O, A) in results.items():
        for vi in range(Y.shape[0]):
            a = A[vi]
            expY = sum(a[j] * unitY[i] for j, i in enumerate(subset))  # (T, n)
            expO = sum(a[j] * unitO[i] for j, i in enumerate(subset))
            dY = (Y[vi] - Y0) - expY[:, None, :]
            dO = ((O[vi] - O0) - expO[:, None, :])[..., lin_sel] if lin_sel.size else np.zeros(1)
            eY = float(np.max(np.abs(dY))) / scaleY
            eO = float(np.max(np.abs(dO))) / scaleO
            if np.count_nonzero(a) >= 2:
                nontriv += int(np.sum(np.max(np.abs(expY), axis=1) > 0)) * 3
            if eY > worst["state"]:
                worst.update(state=eY, state_at=dict(subset=[src_names[i] for i in subset], amps=list(map(float, a)), t=int(np.argmax(np.max(np.abs(dY), axis=(1, 2))))))
            if eO > worst["record"]:
                worst.update(record=eO, record_at=dict(subset=[src_names[i] for i in subset], amps=list(map(float, a))))
    if worst["state"] > TOL:
        fails.append(dict(sig="fields-not-linear-in-sources", detail=worst))
    if worst["record"] > TOL:
        fails.append(dict(sig="linear-records-not-linear-in-sources", detail=worst))
    # quadratic records: common factor a on all sources and the initial state
    full = (0, 1, 2, 3)
    Yf, Of, Af = results[full]
    ev = make_eval(full)
    qworst = 0.0
    if quad_sel.size:
        one_idx = [vi for vi in range(Af.shape[0]) if np.all(Af[vi] == 1.0)][0]
        base = Of[one_idx][..., quad_sel]  # (T,3,q)
        qscale = max(1e-300, float(np.max(np.abs(base))))
        for a in (-2.0, 0.5, 0.0):
            rows = [(t, p) for t in range(T) for p in range(3)]
            tv = np.asarray([r[0] for r in rows], dtype=np.int32)
            X = np.stack([a * probes[r[1]] for r in rows])
            A = np.full((len(rows), 4), a)
            _, Oq = ev(jnp.asarray(tv), jnp.asarray(X), jnp.asarray(A))
            evals += len(rows)
            Oq = np.asarray(Oq).reshape(T, 3, -1)[..., quad_sel]
            qworst = max(qworst, float(np.max(np.abs(Oq - a * a * base))) / qscale)
            nontriv += int(np.sum(np.abs(base) > 0) > 0)
        if qworst > TOL:
            fails.append(dict(sig="quadratic-records-do-not-scale-with-square", detail=dict(defect=qworst)))
    # affinity in the initial state for the full source set (block of basis pairs)
    block = [j for j in range(0, n, max(1, n // 8)) if keep[j] > 0][:8]
    Arows = linsys.affinity_rows(n, block, False)
    Xb = np.concatenate([np.zeros((1, n)), np.eye(n)[block], Arows])
    Yb, _ = ev(jnp.full((len(Xb),), 3, dtype=jnp.int32), jnp.asarray(Xb), jnp.ones((len(Xb), 4)))
    Yb = np.asarray(Yb)
    evals += len(Xb)
    b = Yb[0]
    cols = {j: Yb[1 + i] - b for i, j in enumerate(block)}
    daff = 0.0
    for r, x in enumerate(Arows):
        exp = b + sum(x[j] * cols[j] for j in block)
        daff = max(daff, float(np.max(np.abs(Yb[1 + len(block) + r] - exp))))
    if daff > TOL:
        fails.append(dict(sig="step-not-affine-in-initial-state", detail=dict(defect=daff)))
    # conformance: two variants placed from scratch with the amplitude factors in the constructor
    traces = 0
    for subset, amps in (((0, 3), (-2.0, 0.5)), ((1, 2, 3), (0.5, 1.0, -2.0))):
        srcs = []
        for j, i in enumerate(subset):
            s = dict(sources()[i])
            s["amp"] = amps[j]
            srcs.append(s)
        sc2 = scenes.build(dict(spec, sources=srcs))
        c2 = linsys.Codec(sc2.arrays)
        tv = np.repeat(np.arange(T), 3).astype(np.int32)
        X = np.tile(probes, (T, 1))
        Y2, O2 = tables.run(sc2, c2, tv, X)
        vi = [v for v in range(results[subset][2].shape[0]) if tuple(results[subset][2][v]) == tuple(amps)][0]
        dconf = float(np.max(np.abs(Y2.reshape(T, 3, -1) - results[subset][0][vi]))) / max(1.0, scaleY)
        dconfO = float(np.max(np.abs(O2.reshape(T, 3, -1) - results[subset][1][vi]))) / max(1e-300, float(np.max(np.abs(O2))))
        traces += 1
        evals += len(tv)
        if max(dconf, dconfO) > TOL:
            fails.append(dict(sig="conformance:aset-amplitude-vs-placed-amplitude", detail=dict(state=dconf, record=dconfO, subset=list(subset))))
    detail = dict(worst=worst, quadratic_defect=qworst, affinity_defect=daff, unit_scale=scaleY, record_scale=scaleO, faces=FACES[case["faces"]][0], mats=MATS[case["mats"]][0])
    return dict(ok=not fails, failures=fails, detail=detail, nontrivial=nontriv, evals=evals, states=evals, transitions=evals, traces=traces, outcome=f"faces={case['faces']}")
