"""C18 — device parameters map to materials exactly as documented; applying a sequence of parameter sets leaves the
materials of the last one.

Engine E3: explicit-state search over parameter histories.  A state is (arrays, objects) reached by a history of parameter
sets; successors are produced by the real `apply_params`; states are deduplicated by the digest of the material arrays.
Per configuration (device kind x voxel size x background tier) all histories of length <= 2 (quick) / <= 3 (thorough) over
the parameter alphabet {all 0, all max, half (tie), all-distinct, checkerboard, VERIF_SEED pattern} are executed.
Invariants in every state: device cells = documented blend / exactly one device material (permittivity and dispersion
coefficients, compared with reference patches painted by the static path), cells outside devices bit-identical to the placed
arrays, and the number of distinct states reached by all histories = number reached by the one-step histories + initial
(= |alphabet| + 1 unless discretisation maps two parameter sets to the same materials).
"""
import itertools

ID = "C18"
LEVEL = "model_checking"
MANIFEST = {
    "engine": "E3-bfs",
    "technique": "explicit-state breadth-first search over all parameter histories (length <=2/<=3 over a 6-element parameter alphabet) through the real apply_params, invariants checked in every reached state",
    "text": "For every device configuration of the menu (continuous isotropic/diagonal/full-tensor two-material, discrete with 2 or 3 materials with and without Lorentz dispersion, etched; voxel sizes 1 and 2; isotropic or diagonal static background) the real apply_params is iterated along every history of parameter sets up to the bound; in each reached state every device cell equals the inverse of the linear permittivity blend (continuous, hence within the material range) or exactly the inverse permittivity and dispersion coefficients of one device material (discrete), every cell outside the devices is bit-identical to the placed arrays, and longer histories reach no material state beyond the initial one and those of the single parameter sets (|alphabet|+1 states unless discretisation identifies two sets): the last parameter set alone decides.",
    "note": "Parameter values and material values come from finite alphabets; histories are enumerated completely up to the bound. Full-length histories ending in the all-distinct set are replayed from a freshly placed scene (public place_objects + apply_params) as conformance traces.",
}
RULE = (
    "case = (device kind, voxel size, background tier); states = distinct material-array digests reached by all parameter histories up to the "
    "bound (initial state included), transitions = real apply_params calls, traces = full-length histories replayed from a freshly placed scene. "
    "A case is non-trivial when at least two reached states differ inside the device and the device sits on a non-uniform background; "
    "distinct = distinct (configuration, history) pairs."
)
ASSUMPTIONS = [
    "parameter sets from a finite alphabet: all 0, all max, half (rounding tie), all-distinct, checkerboard, one VERIF_SEED pattern",
    "device/background material values from a finite menu with pairwise distinct components",
    "discrete devices use ClosestIndex (integer mode) as the discretising transform; parameters are its latent inputs",
]
SHAPE = (6, 6, 4)
DBOX = ((1, 5), (1, 5), (1, 3))
SP = 50e-9
TOL = 1e-12

KINDS = ["cont_iso", "cont_diag", "cont_full", "disc2", "disc3", "disc3_disp", "etch", "two_devices", "two_devices_etch_last"]


def cases(tier, seed):
    out = []
    for kind in KINDS:
        for vox in (1, 2):
            for bg in ("iso", "diag"):
                if kind == "cont_full" and bg == "diag" and tier == "quick":
                    continue
                out.append(dict(kind=kind, vox=vox, bg=bg, depth=(2 if tier == "quick" else 3), seed=seed))
    return out


def bounds(tier, seed):
    return {
        "grid": SHAPE,
        "device_box": DBOX,
        "device_kinds": KINDS,
        "voxel_sizes": [1, 2],
        "background": ["isotropic slab + reference patches", "diagonal slab + reference patches"],
        "parameter_alphabet": ["zeros", "max", "half", "distinct", "checker", "seed"],
        "history_length": "<=2" if tier == "quick" else "<=3",
        "seed": seed,
    }


# ------------------------------------------------------------------------------------------------ materials / params
def _mats(fdtdx, kind):
    M = fdtdx.Material
    if kind == "cont_iso":
        return {"lo": M(permittivity=2.0), "hi": M(permittivity=12.0)}
    if kind == "cont_diag":
        return {"lo": M(permittivity=(2.0, 2.5, 3.0)), "hi": M(permittivity=(9.0, 7.0, 11.0))}
    if kind == "cont_full":
        return {"lo": M(permittivity=(2.6, 0.3, 0.1, 0.3, 3.1, -0.2, 0.1, -0.2, 3.7)), "hi": M(permittivity=(8.0, -0.5, 0.2, -0.5, 9.5, 0.4, 0.2, 0.4, 7.0))}
    if kind == "disc2":
        return {"a": M(permittivity=3.0), "b": M(permittivity=6.5)}
    if kind == "disc3":
        return {"a": M(permittivity=3.0), "b": M(permittivity=(5.0, 5.5, 6.0)), "c": M(permittivity=8.0)}
    if kind == "disc3_disp":
        w0 = 2.0e15
        d1 = fdtdx.DispersionModel(poles=(fdtdx.LorentzPole(resonance_frequency=w0, damping=1.0e14, delta_epsilon=1.5),))
        d2 = fdtdx.DispersionModel(poles=(fdtdx.LorentzPole(resonance_frequency=1.3 * w0, damping=2.0e14, delta_epsilon=0.7), fdtdx.DrudePole(plasma_frequency=1.0e15, damping=5.0e13)))
        return {"a": M(permittivity=3.0), "b": M(permittivity=5.0, dispersion=d1), "c": M(permittivity=8.0, dispersion=d2)}
    if kind == "etch":
        return {"air": M(permittivity=1.0)}
    raise ValueError(kind)


def _alphabet(pshape, nmax, seed):
    import numpy as np

    n = int(np.prod(pshape))
    k = np.arange(n, dtype=np.float64)
    idx = np.indices(pshape).sum(axis=0)
    rng = np.random.default_rng(seed * 7919 + 13)
    return {
        "zeros": np.zeros(pshape),
        "max": np.full(pshape, float(nmax)),
        "half": np.full(pshape, 0.5 * nmax),
        "distinct": (np.mod(0.137 + k * 0.6180339887498949, 1.0) * nmax).reshape(pshape),
        "checker": np.where(idx % 2 == 0, 0.0, float(nmax)),
        "seed": rng.uniform(0.0, nmax, size=pshape),
    }


def _scene(case):
    """Place the scene; returns (fdtdx, objects, arrays, device infos)."""
    import jax
    import jax.numpy as jnp

    from mc import guard

    fdtdx = guard.import_fdtdx()
    kind, vox = case["kind"], case["vox"]
    cfg = fdtdx.SimulationConfig(time=4e-16, grid=fdtdx.UniformGrid(spacing=SP), backend="cpu", dtype=jnp.float64, gradient_config=None)
    vol = fdtdx.SimulationVolume(name="volume", partial_grid_shape=SHAPE)
    objs, cons = [vol], []

    def box(o, b):
        cons.append(o.set_grid_coordinates(axes=(0, 1, 2), sides=("-", "-", "-"), coordinates=tuple(x[0] for x in b)))
        cons.append(o.set_grid_coordinates(axes=(0, 1, 2), sides=("+", "+", "+"), coordinates=tuple(x[1] for x in b)))
        objs.append(o)

    slab_eps = 2.25 if case["bg"] == "iso" else (2.0, 2.4, 2.9)
    box(fdtdx.UniformMaterialObject(name="slab", material=fdtdx.Material(permittivity=slab_eps), placement_order=-5), ((0, 6), (2, 6), (0, 4)))
    box(fdtdx.UniformMaterialObject(name="rod", material=fdtdx.Material(permittivity=1.7), placement_order=-4), ((2, 4), (0, 6), (1, 2)))
    devs = []
    if kind == "two_devices":
        specs = [("devA", "cont_iso", ((1, 3), (1, 5), (1, 3))), ("devB", "disc2", ((3, 5), (1, 5), (1, 3)))]
    elif kind == "two_devices_etch_last":
        # an etched device processed after an ordinary one: the etch backup must not disturb what the first device wrote
        specs = [("devA", "cont_iso", ((1, 3), (1, 5), (1, 3))), ("devB", "etch", ((3, 5), (1, 5), (1, 3)))]
    else:
        specs = [("dev", kind, DBOX)]
    patch = 0
    for name, k, b in specs:
        mats = _mats(fdtdx, k)
        disc = k.startswith("disc")
        d = fdtdx.Device(name=name, materials=mats, param_transforms=[fdtdx.ClosestIndex()] if disc else [], partial_voxel_grid_shape=(vox, vox, vox), use_etching=(k == "etch"))
        box(d, b)
        ref = {}
        if disc:
            # reference patches: one static cell per device material, painted by the static path of _init_arrays
            for mn, m in mats.items():
                cell = ((patch, patch + 1), (0, 1), (3, 4))
                box(fdtdx.UniformMaterialObject(name=f"ref_{name}_{mn}", material=m, placement_order=9), cell)
                ref[mn] = tuple(c[0] for c in cell)
                patch += 1
        devs.append(dict(name=name, kind=k, box=b, mats=mats, ref=ref, pshape=tuple((x[1] - x[0]) // vox for x in b), nmax=(len(mats) - 1 if disc else 1)))
    oc, arrays, params, config, _ = fdtdx.place_objects(objs, cfg, cons, key=jax.random.PRNGKey(0))
    for dv in devs:
        got = tuple(params[dv["name"]].shape)
        if got != dv["pshape"]:
            raise RuntimeError(f"harness: parameter shape {got} != {dv['pshape']}")
    return fdtdx, oc, arrays, devs


def _mat_arrays(arrays):
    import numpy as np

    out = {"inv_eps": np.asarray(arrays.inv_permittivities)}
    mu = arrays.inv_permeabilities
    out["inv_mu"] = np.asarray(mu) if hasattr(mu, "shape") else np.asarray(float(mu))
    for k in ("electric_conductivity", "magnetic_conductivity", "dispersive_c1", "dispersive_c2", "dispersive_c3", "dispersive_c4"):
        v = getattr(arrays, k)
        if v is not None:
            out[k] = np.asarray(v)
    return out


def _digest(m):
    import hashlib

    import numpy as np

    h = hashlib.sha256()
    for k in sorted(m):
        a = m[k]
        sc = float(np.max(np.abs(a))) if a.size else 1.0
        q = np.round(a / (sc if sc > 0 else 1.0), 9) + 0.0
        h.update(k.encode())
        h.update(str(a.shape).encode())
        h.update(np.ascontiguousarray(q).tobytes())
    return h.hexdigest()[:16]


def _perm9(m):
    import numpy as np

    return np.asarray(m.permittivity, dtype=np.float64)


def _ordered(mats):
    return sorted(mats.items(), key=lambda kv: (kv[1].permittivity[0], kv[1].permeability[0], kv[1].electric_conductivity[0], kv[1].magnetic_conductivity[0]))


def _check_state(dv, p, placed, cur, vox):
    """Invariant of one device in one state; p = the last parameter set of that device (None = initial state)."""
    import numpy as np

    fails = []
    sl = tuple(slice(*b) for b in dv["box"])
    nc = cur["inv_eps"].shape[0]
    got = cur["inv_eps"][(slice(None),) + sl]
    if p is None:
        return fails
    pe = np.repeat(np.repeat(np.repeat(np.asarray(p, dtype=np.float64), vox, 0), vox, 1), vox, 2)
    # parameters are float32 inside fdtdx
    pe32 = np.repeat(np.repeat(np.repeat(np.asarray(p, dtype=np.float32).astype(np.float64), vox, 0), vox, 1), vox, 2)
    om = _ordered(dv["mats"])
    kind = dv["kind"]

    def comps(t9):
        return t9[[0]] if nc == 1 else (t9[[0, 4, 8]] if nc == 3 else t9)

    def invert(perm):
        if nc in (1, 3):
            return 1.0 / perm
        mm = np.moveaxis(perm.reshape(3, 3, *perm.shape[1:]), (0, 1), (-2, -1))
        return np.moveaxis(np.linalg.inv(mm), (-2, -1), (0, 1)).reshape(9, *perm.shape[1:])

    if kind.startswith("cont") or kind == "etch":
        if kind == "etch":
            bg = invert(placed["inv_eps"][(slice(None),) + sl])
            e0 = bg
            e1 = comps(_perm9(om[0][1]))[:, None, None, None]
            perm = e0 + pe32[None] * (e1 - e0)
        else:
            e0 = comps(_perm9(om[0][1]))[:, None, None, None]
            e1 = comps(_perm9(om[1][1]))[:, None, None, None]
            perm = e0 + pe32[None] * (e1 - e0)
        want = invert(perm)
        err = float(np.max(np.abs(got - want))) / float(np.max(np.abs(want)))
        if err > 1e-9:
            fails.append(dict(sig=f"{kind}:device-cell-not-inverse-of-linear-permittivity-blend:tier{nc}", detail=dict(rel_err=err)))
        if nc in (1, 3) and kind != "etch":
            lo = np.minimum(1.0 / e0, 1.0 / e1)
            hi = np.maximum(1.0 / e0, 1.0 / e1)
            if np.any(got < lo * (1 - 1e-12)) or np.any(got > hi * (1 + 1e-12)):
                fails.append(dict(sig=f"{kind}:device-cell-outside-material-range", detail={}))
    else:
        n = len(om)
        tuples = []
        for mn, m in om:
            c = dv["ref"][mn]
            t = {k: cur[k][(Ellipsis,) + c] if k != "inv_eps" else placed["inv_eps"][(slice(None),) + c] for k in cur if k in ("inv_eps", "dispersive_c1", "dispersive_c2", "dispersive_c3", "dispersive_c4")}
            # the reference patch itself must be the documented value: exactly 1/eps of the material (static path)
            ref_want = 1.0 / comps(_perm9(m)) if nc in (1, 3) else np.linalg.inv(_perm9(m).reshape(3, 3)).ravel()
            if not np.array_equal(t["inv_eps"], ref_want) and float(np.max(np.abs(t["inv_eps"] - ref_want))) > 1e-15:
                fails.append(dict(sig="reference-patch-not-inverse-permittivity", detail=dict(material=mn)))
            tuples.append(t)
        idx_lo = np.clip(np.floor(pe32 + 0.5 - 1e-6), 0, n - 1).astype(int)
        idx_hi = np.clip(np.floor(pe32 + 0.5 + 1e-6), 0, n - 1).astype(int)
        keys = [k for k in tuples[0]]
        for k in keys:
            g = cur[k][(Ellipsis,) + sl]
            stack = np.stack([t[k] for t in tuples])  # (n, ...comps)
            ok = np.zeros(g.shape[-3:], dtype=bool)
            for idx in (idx_lo, idx_hi):
                w = np.moveaxis(stack[idx], (0, 1, 2), (-3, -2, -1))
                ok |= np.all((g == w).reshape(-1, *g.shape[-3:]), axis=0)
            if not np.all(ok):
                anym = np.zeros_like(ok)
                for j in range(n):
                    w = stack[j].reshape(*stack[j].shape, 1, 1, 1)
                    anym |= np.all((g == w).reshape(-1, *g.shape[-3:]), axis=0)
                what = "is-not-any-device-material" if not np.all(anym) else "is-the-wrong-device-material"
                fails.append(dict(sig=f"{kind}:{k}:device-cell-{what}", detail=dict(cells=int(np.sum(~ok)), first=[int(x) for x in np.argwhere(~ok)[0]])))
    return fails


def run_case(case):
    import jax
    import jax.numpy as jnp
    import numpy as np

    fdtdx, oc, arrays, devs = _scene(case)
    vox = case["vox"]
    placed = _mat_arrays(arrays)
    alph = {dv["name"]: _alphabet(dv["pshape"], dv["nmax"], case["seed"]) for dv in devs}
    letters = list(next(iter(alph.values())))
    inside = np.zeros(SHAPE, dtype=bool)
    for dv in devs:
        inside[tuple(slice(*b) for b in dv["box"])] = True
    fails = []

    def add(sig, detail, hist):
        if not any(f["sig"] == sig for f in fails):
            fails.append(dict(sig=sig, detail=dict(detail, history=list(hist), config={k: case[k] for k in ("kind", "vox", "bg")})))

    def pset(letter):
        return {dv["name"]: jnp.asarray(alph[dv["name"]][letter], dtype=jnp.float32) for dv in devs}

    def inspect(hist, arr):
        cur = _mat_arrays(arr)
        if sorted(cur) != sorted(placed):
            add("material-array-set-changed", dict(got=sorted(cur), want=sorted(placed)), hist)
            return cur
        for k in cur:
            a, b = cur[k], placed[k]
            if a.shape != b.shape:
                add(f"{k}:shape-changed", dict(got=a.shape, want=b.shape), hist)
                continue
            if a.ndim >= 3:
                out = a[..., ~inside]
                ref = b[..., ~inside]
                if not np.array_equal(out, ref):
                    add(f"{k}:cells-outside-devices-changed", dict(cells=int(np.sum(np.any((out != ref).reshape(-1, out.shape[-1]), axis=0)))), hist)
                if k not in ("inv_eps", "dispersive_c1", "dispersive_c2", "dispersive_c3", "dispersive_c4") and not np.array_equal(a, b):
                    add(f"{k}:changed-by-apply_params", {}, hist)
            elif not np.array_equal(a, b):
                add(f"{k}:scalar-changed", {}, hist)
        for dv in devs:
            p = alph[dv["name"]][hist[-1]] if hist else None
            for f in _check_state(dv, p, placed, cur, vox):
                add(f["sig"], f["detail"], hist)
        return cur

    states = {}
    by_last = {}
    transitions = 0
    frontier = [((), arrays, oc)]
    cur0 = inspect((), arrays)
    states[_digest(cur0)] = ()
    for depth in range(case["depth"]):
        nxt = []
        for hist, arr, objs in frontier:
            for letter in letters:
                a2, o2, _ = fdtdx.apply_params(arr, objs, pset(letter), key=jax.random.PRNGKey(1 + len(hist)))
                transitions += 1
                h2 = hist + (letter,)
                cur = inspect(h2, a2)
                dg = _digest(cur)
                states.setdefault(dg, h2)
                first = by_last.setdefault(letter, (dg, h2))
                if first[0] != dg:
                    add(f"materials-depend-on-history:{'+'.join(sorted({dv['kind'] for dv in devs}))}", dict(same_last_set=letter, other_history=list(first[1])), h2)
                nxt.append((h2, a2, o2))
        frontier = nxt
        if depth == 0:
            want_states = len(states)  # initial state + one state per distinguishable parameter set (<= |alphabet|+1)
    if len(states) != want_states and not any(f["sig"].startswith("materials-depend-on-history") for f in fails):
        add("distinct-states-count", dict(got=len(states), want=want_states, note="longer histories reached material states that no single parameter set produces"), ())
    # conformance traces: full-length histories ending in the all-distinct set, replayed from a freshly placed scene
    traces = 0
    for first in (letters[1], letters[4]):
        hist = (first,) * (case["depth"] - 1) + ("distinct",)
        _f, oc2, arr2, _d = _scene(case)
        for i, letter in enumerate(hist):
            arr2, oc2, _ = fdtdx.apply_params(arr2, oc2, pset(letter), key=jax.random.PRNGKey(50 + i))
        traces += 1
        if _digest(_mat_arrays(arr2)) != by_last["distinct"][0]:
            add("conformance:fresh-scene-replay-differs", {}, hist)
    nontriv = int(len(states) >= 3 and bool(np.any(placed["inv_eps"][:, inside] != placed["inv_eps"][:, inside][:, :1])))
    return dict(ok=not fails, failures=fails, nontrivial=nontriv, evals=transitions + 2 * case["depth"], states=len(states), transitions=transitions, traces=traces, outcome=f"{len(states)} distinct material states", detail=dict(states=len(states), transitions=transitions))
