"""C31 — setups survive a JSON round trip.

Deviation-bounded exhaustive enumeration (E2): a base scene that already uses every serialisable constraint kind
(position, size, size-extension, grid-coordinate) and a volume / PML / material objects / plane source / field detector,
plus every set of <= d deviations (quick d = 1, thorough d = 2) from a menu that covers every object kind of
`JsonSetup.validate`'s list, every public field of those kinds through a small value menu, every grid description and
gradient configuration, and every constraint parameter.

For each scene: JsonSetup(config, objects, constraints).dumps() -> JsonSetup.loads() -> place_objects on both with the
same key. Oracle: same object names / types / grid slices, bit-identical array containers (materials, fields, PML and
dispersion coefficients, detector states), identical per-object state arrays, identical time step / step count /
grid edges; the re-export of the imported setup is the same string; a scene that the library rejects must be rejected
identically after the round trip.
"""
import itertools

import numpy as np

ID = "C31"
LEVEL = "exploration"
MANIFEST = {
    "engine": "E2-enum",
    "technique": "deviation-bounded exhaustive enumeration (all sets of <=1 / <=2 deviations from a menu covering every serialisable object kind, public field, grid description and constraint kind) of export_json_str -> import_from_json -> place_objects round trips, compared array-for-array with the placement of the original",
    "text": "Every scene within the deviation bound is exported with JsonSetup.dumps, imported with JsonSetup.loads and placed; object slices, all array-container leaves, all per-object state arrays, the time discretisation and the re-exported JSON text must equal those of the original setup.",
    "note": "Placement uses float64 on CPU with a fixed PRNG key; deviations that the library rejects at construction or placement must be rejected the same way after the round trip (counted separately as trivial).",
}
RULE = (
    "case = set of <= d deviation names (simplest first: base, then singles in menu order, then pairs). Non-trivial: the scene "
    "is accepted by place_objects and differs from the base scene; distinct = distinct deviation sets."
)
ASSUMPTIONS = [
    "values of the field menus are finite alphabets (one or two non-default values per public field)",
    "RealCoordinateConstraint, point dipoles, PEC/PMC/Bloch boundaries, devices and custom time signals are not in JsonSetup.validate's list of serialisable kinds and are outside the property",
]

SP = 100e-9


def T(*a):
    return {"$t": list(a)}


def O(cls, **kw):
    return {"$": cls, "kw": kw}


def WC(**kw):
    return O("WaveCharacter", **kw)


# ---------------------------------------------------------------------------------------------- base scene
def base_spec():
    return {
        "config": dict(time=6e-15, grid=O("UniformGrid", spacing=SP), dtype={"$dtype": "float64"}, backend="cpu"),
        "objects": [
            O("SimulationVolume", name="volume", partial_real_shape=T(1.2e-6, 1.0e-6, 0.8e-6)),
            O("PerfectlyMatchedLayer", name="pml_zlo", axis=2, direction="-", partial_grid_shape=T(None, None, 2)),
            O("UniformMaterialObject", name="cube", partial_real_shape=T(0.3e-6, 0.3e-6, 0.3e-6), material=O("Material", permittivity=2.5)),
            O("UniformMaterialObject", name="slab", material=O("Material", permittivity=4.0)),
            O("UniformPlaneSource", name="src", partial_grid_shape=T(None, None, 1), direction="-", fixed_E_polarization_vector=T(1, 0, 0), wave_character=WC(wavelength=1e-6)),
            O("FieldDetector", name="det", partial_grid_shape=T(2, 2, 1), plot=False),
        ],
        "constraints": [
            dict(m="place_relative_to", obj="pml_zlo", other="volume", kw=dict(axes=T(0, 1, 2), own_positions=T(0, 0, -1), other_positions=T(0, 0, -1))),
            dict(m="place_at_center", obj="cube", other="volume", kw={}),
            dict(m="same_size", obj="slab", other="volume", kw=dict(axes=T(0))),
            dict(m="size_relative_to", obj="slab", other="volume", kw=dict(axes=T(1), proportions=T(0.5))),
            dict(m="place_relative_to", obj="slab", other="volume", kw=dict(axes=T(0, 1), own_positions=T(0, -1), other_positions=T(0, -1))),
            dict(m="set_grid_coordinates", obj="slab", other=None, kw=dict(axes=T(2), sides=T("-"), coordinates=T(5))),
            dict(m="extend_to", obj="slab", other=None, kw=dict(axis=2, direction="+")),
            dict(m="place_relative_to", obj="src", other="volume", kw=dict(axes=T(2), own_positions=T(1), other_positions=T(1), grid_margins=T(-1))),
            dict(m="set_grid_coordinates", obj="det", other=None, kw=dict(axes=T(0, 1, 2), sides=T("-", "-", "-"), coordinates=T(1, 2, 3))),
        ],
    }


# ---------------------------------------------------------------------------------------------- deviation menu
def menu(seed):
    """ordered dict name -> list of ops. ops: ("cfg", key, value) | ("okw", objname, key, value) | ("add", objspec, [constraints]) |
    ("ckw", index, key, value) | ("addc", constraint) | ("delc", index)"""
    M = {}
    g = float(np.random.default_rng(11 + seed).uniform(0.2, 0.9))

    # ---- configuration
    M["cfg:time"] = [("cfg", "time", 11e-15)]
    M["cfg:spacing"] = [("cfg", "grid", O("UniformGrid", spacing=50e-9))]
    M["cfg:spacing-generic"] = [("cfg", "grid", O("UniformGrid", spacing=SP * (0.9 + 0.2 * g)))]
    M["cfg:grid-center"] = [("cfg", "grid", O("UniformGrid", spacing=SP, center=T(1e-6, -2e-6, 3e-7)))]
    M["cfg:quasi"] = [("cfg", "grid", O("QuasiUniformGrid", dx=SP, dy=SP, dz=SP))]
    real_cons = [
        ("delc", 5),
        ("addc", dict(m="place_relative_to", obj="slab", other="volume", kw=dict(axes=T(2), own_positions=T(-1), other_positions=T(-1), margins=T(0.45e-6)))),
        ("delc", 7),
        ("addc", dict(m="place_relative_to", obj="src", other="volume", kw=dict(axes=T(2), own_positions=T(1), other_positions=T(1), margins=T(-0.1e-6)))),
        ("delc", 8),
        ("okw", "det", "partial_grid_shape", T(None, None, None)),
        ("okw", "det", "partial_real_shape", T(0.2e-6, 0.2e-6, 0.1e-6)),
        ("addc", dict(m="place_relative_to", obj="det", other="volume", kw=dict(axes=T(0, 1, 2), own_positions=T(-1, -1, -1), other_positions=T(-1, -1, -1), margins=T(0.1e-6, 0.2e-6, 0.3e-6)))),
        ("okw", "pml_zlo", "partial_grid_shape", T(None, None, None)),
        ("okw", "pml_zlo", "partial_real_shape", T(None, None, 0.2e-6)),
    ]
    M["cfg:real-space-constraints"] = list(real_cons)
    M["cfg:quasi-aniso"] = [("cfg", "grid", O("QuasiUniformGrid", dx=SP, dy=0.5 * SP, dz=2 * SP))] + real_cons
    ex = [(-6 + i) * SP for i in range(13)]
    ey = [(-5 + i) * SP for i in range(11)]
    ez = [(-4 + i) * SP for i in range(9)]
    M["cfg:rect-uniform"] = [("cfg", "grid", O("RectilinearGrid", x_edges={"$a": ex, "dt": "float64"}, y_edges={"$a": ey, "dt": "float64"}, z_edges={"$a": ez, "dt": "float64"}))]
    wz = [SP * (0.7 + 0.6 * ((0.211 + k * 0.6180339887498949) % 1.0)) for k in range(8)]
    ezn = [sum(wz[:i]) - 0.5 * sum(wz) for i in range(9)]
    M["cfg:rect-nonuniform"] = [("cfg", "grid", O("RectilinearGrid", x_edges={"$a": ex, "dt": "float64"}, y_edges={"$a": ey, "dt": "float64"}, z_edges={"$a": ezn, "dt": "float64"}))] + real_cons
    M["cfg:rect-float32-edges"] = [("cfg", "grid", O("RectilinearGrid", x_edges={"$a": ex, "dt": "float32"}, y_edges={"$a": ey, "dt": "float32"}, z_edges={"$a": ezn, "dt": "float32"}))] + real_cons
    M["cfg:dtype-f32"] = [("cfg", "dtype", {"$dtype": "float32"})]
    M["cfg:complex"] = [("cfg", "use_complex_fields", True)]
    M["cfg:real-forced"] = [("cfg", "use_complex_fields", False)]
    M["cfg:courant"] = [("cfg", "courant_factor", 0.5)]
    M["cfg:symmetry-x"] = [("cfg", "symmetry", T(1, 0, 0))]
    M["cfg:symmetry-xy"] = [("cfg", "symmetry", T(-1, 1, 0))]
    M["cfg:grad-checkpointed"] = [("cfg", "gradient_config", O("GradientConfig", method="checkpointed", num_checkpoints=3))]
    rec = O("Recorder", modules=[O("LinearReconstructEveryK", k=2), O("DtypeConversion", dtype={"$dtype": "float32"})])
    M["cfg:grad-reversible"] = [("cfg", "gradient_config", O("GradientConfig", method="reversible", recorder=rec))]
    rec2 = O("Recorder", modules=[O("DtypeConversion", dtype={"$dtype": "float32"}, exclude_filter=T("_H")), O("LinearReconstructEveryK", k=3, start_recording_after=1)])
    M["cfg:grad-reversible-ckpt"] = [("cfg", "gradient_config", O("GradientConfig", method="reversible", recorder=rec2, num_checkpoints_reversible=1))]

    # ---- common object fields (on the cube) and material forms
    M["cube:real-position"] = [("okw", "cube", "partial_real_position", T(0.2e-6, None, None)), ("delc", 1), ("addc", dict(m="place_at_center", obj="cube", other="volume", kw=dict(axes=T(1, 2))))]
    M["cube:grid-shape"] = [("okw", "cube", "partial_real_shape", T(None, 0.3e-6, 0.3e-6)), ("okw", "cube", "partial_grid_shape", T(5, None, None))]
    M["cube:color"] = [("okw", "cube", "color", O("Color", r=0.1, g=0.5, b=0.9))]
    M["cube:color-none"] = [("okw", "cube", "color", None)]
    M["cube:random-real-offset"] = [("okw", "cube", "max_random_real_offsets", T(0.2e-6, 0.0, 0.1e-6))]
    M["cube:random-grid-offset"] = [("okw", "cube", "max_random_grid_offsets", T(1, 2, 0))]
    M["cube:placement-order"] = [("okw", "cube", "placement_order", 5), ("okw", "slab", "placement_order", -5)]
    mats = {
        "diag": O("Material", permittivity=T(2.5, 3.0, 3.5)),
        "full": O("Material", permittivity=T(2.5, 0.1, 0.0, 0.1, 3.0, 0.2, 0.0, 0.2, 3.5)),
        "nested": O("Material", permittivity=T(T(2.5, 0.1, 0.0), T(0.1, 3.0, 0.2), T(0.0, 0.2, 3.5))),
        "mu": O("Material", permittivity=2.5, permeability=1.7),
        "mu-diag": O("Material", permittivity=2.5, permeability=T(1.2, 1.5, 1.9)),
        "sigma-e": O("Material", permittivity=2.5, electric_conductivity=15.0),
        "sigma-e-diag": O("Material", permittivity=2.5, electric_conductivity=T(1.0, 0.0, 20.0)),
        "sigma-m": O("Material", permittivity=2.5, magnetic_conductivity=7.0),
        "generic": O("Material", permittivity=1.0 + 5 * g, permeability=1.0 + g, electric_conductivity=10 * g),
        "lorentz": O("Material", permittivity=2.0, dispersion=O("DispersionModel", poles=T(O("LorentzPole", resonance_frequency=3e15, damping=1e14, delta_epsilon=1.5)))),
        "drude+lorentz": O("Material", permittivity=1.5, dispersion=O("DispersionModel", poles=T(O("DrudePole", plasma_frequency=2e15, damping=1e14), O("LorentzPole", resonance_frequency=4e15, damping=0.0, delta_epsilon=0.5)))),
        "per-axis-pole": O("Material", permittivity=2.0, dispersion=O("DispersionModel", poles=T(O("LorentzPole", resonance_frequency=T(3e15, 2e15, 1e15), damping=1e14, delta_epsilon=T(1.5, 0.0, 0.3))))),
        "oriented-pole": O("Material", permittivity=2.0, dispersion=O("DispersionModel", poles=T(O("DrudePole", plasma_frequency=2e15, damping=1e14, orientation=T(1.0, 2.0, 2.0))))),
        "ccpr": O("Material", permittivity=2.0, dispersion=O("DispersionModel", poles=T(O("CCPRPole", pole={"$c": [-1e14, -3e15]}, residue={"$c": [2e14, 1e15]})))),
    }
    for k, m in mats.items():
        M[f"cube:material-{k}"] = [("okw", "cube", "material", m)]
    M["volume:material"] = [("okw", "volume", "material", O("Material", permittivity=1.44, permeability=1.1))]
    M["volume:grid-shape"] = [("okw", "volume", "partial_real_shape", T(None, 1.0e-6, 0.8e-6)), ("okw", "volume", "partial_grid_shape", T(14, None, None))]

    # ---- PML
    for ax, d in ((2, "+"), (0, "-"), (1, "+")):
        nm = f"pml_{'xyz'[ax]}{'hi' if d == '+' else 'lo'}"
        gs = [None, None, None]
        gs[ax] = 3
        pos = [0, 0, 0]
        pos[ax] = 1 if d == "+" else -1
        M[f"add:pml-{nm}"] = [("add", O("PerfectlyMatchedLayer", name=nm, axis=ax, direction=d, partial_grid_shape=T(*gs)), [dict(m="place_relative_to", obj=nm, other="volume", kw=dict(axes=T(0, 1, 2), own_positions=T(*pos), other_positions=T(*pos)))])]
    for k, v in (("alpha_start", 1e-3), ("alpha_end", 0.1), ("alpha_order", 2.0), ("kappa_start", 1.5), ("kappa_end", 3.0), ("kappa_order", 2.0), ("sigma_start", 0.1), ("sigma_end", 2.0), ("sigma_order", 4.0)):
        M[f"pml:{k}"] = [("okw", "pml_zlo", k, v)]
    M["pml:thickness"] = [("okw", "pml_zlo", "partial_grid_shape", T(None, None, 3))]

    # ---- the base source: switch / profile / polarisation / angles
    sw = {
        "start_time": dict(start_time=1e-15),
        "start_after_periods": dict(start_after_periods=0.5, period=3e-15),
        "end_time": dict(end_time=4e-15),
        "end_after_periods": dict(end_after_periods=1.5, period=3e-15),
        "on_for_time": dict(start_time=1e-15, on_for_time=2e-15),
        "on_for_periods": dict(on_for_periods=1.0, period=3e-15),
        "period": dict(start_after_periods=0.5, period=2e-15),
        "fixed": dict(fixed_on_time_steps=[0, 3, 7]),
        "always-off": dict(is_always_off=True),
        "interval": dict(interval=3),
    }
    for k, v in sw.items():
        M[f"src:switch-{k}"] = [("okw", "src", "switch", O("OnOffSwitch", **v))]
        M[f"det:switch-{k}"] = [("okw", "det", "switch", O("OnOffSwitch", **v))]
    M["src:profile-cw"] = [("okw", "src", "temporal_profile", O("SingleFrequencyProfile", phase_shift=0.3, num_startup_periods=2))]
    M["src:profile-gauss"] = [("okw", "src", "temporal_profile", O("GaussianPulseProfile", spectral_width=WC(frequency=5e13), center_wave=WC(wavelength=1e-6, phase_shift=0.5)))]
    M["src:wave-frequency"] = [("okw", "src", "wave_character", WC(frequency=3e14, phase_shift=1.0))]
    M["src:wave-period"] = [("okw", "src", "wave_character", WC(period=3e-15))]
    M["src:direction"] = [("okw", "src", "direction", "+")]
    M["src:H-pol"] = [("okw", "src", "fixed_E_polarization_vector", None), ("okw", "src", "fixed_H_polarization_vector", T(0, 1, 0))]
    M["src:tilted-pol"] = [("okw", "src", "fixed_E_polarization_vector", T(1.0, 0.5, 0.0))]
    M["src:azimuth"] = [("okw", "src", "azimuth_angle", 10.0)]
    M["src:elevation"] = [("okw", "src", "elevation_angle", -5.0)]
    M["src:amplitude"] = [("okw", "src", "amplitude", 2.5)]
    M["src:static-factor"] = [("okw", "src", "static_amplitude_factor", 0.25)]
    M["src:no-energy-norm"] = [("okw", "src", "normalize_by_energy", False)]
    M["src:random-angle"] = [("okw", "src", "max_angle_random_offset", 3.0)]
    M["src:random-vertical"] = [("okw", "src", "max_vertical_offset", 0.1e-6)]
    M["src:random-horizontal"] = [("okw", "src", "max_horizontal_offset", 0.1e-6)]

    # ---- further sources
    def plane_con(nm, z):
        return [dict(m="set_grid_coordinates", obj=nm, other=None, kw=dict(axes=T(2), sides=T("-"), coordinates=T(z)))]

    M["add:gaussian-source"] = [("add", O("GaussianPlaneSource", name="gsrc", partial_grid_shape=T(None, None, 1), direction="+", fixed_E_polarization_vector=T(0, 1, 0), wave_character=WC(wavelength=0.8e-6), radius=0.3e-6), plane_con("gsrc", 3))]
    M["add:gaussian-source-std"] = [("add", O("GaussianPlaneSource", name="gsrc", partial_grid_shape=T(None, None, 1), direction="-", fixed_H_polarization_vector=T(1, 0, 0), wave_character=WC(wavelength=0.8e-6), radius=0.4e-6, std=0.5, normalize_by_energy=False), plane_con("gsrc", 4))]
    M["add:plane-source-x"] = [("add", O("UniformPlaneSource", name="xsrc", partial_grid_shape=T(1, None, None), direction="+", fixed_E_polarization_vector=T(0, 0, 1), wave_character=WC(wavelength=1.2e-6)), [dict(m="set_grid_coordinates", obj="xsrc", other=None, kw=dict(axes=T(0), sides=T("-"), coordinates=T(2)))])]
    M["add:mode-source"] = [("add", O("ModePlaneSource", name="msrc", partial_grid_shape=T(None, None, 1), direction="+", wave_character=WC(wavelength=1e-6)), plane_con("msrc", 3))]
    M["add:mode-source-opts"] = [("add", O("ModePlaneSource", name="msrc", partial_grid_shape=T(None, None, 1), direction="-", wave_character=WC(wavelength=1e-6), mode_index=1, filter_pol="te"), plane_con("msrc", 4))]

    # ---- detectors: one deviation per kind and per option
    def add_det(tag, cls, con=None, **kw):
        nm = "d_" + tag.replace("-", "_").replace(":", "_")
        kw.setdefault("partial_grid_shape", T(3, 2, 1))
        M[f"add:{tag}"] = [("add", O(cls, name=nm, **kw), con if con is not None else [dict(m="set_grid_coordinates", obj=nm, other=None, kw=dict(axes=T(0, 1, 2), sides=T("-", "-", "-"), coordinates=T(4, 3, 4)))])]

    wcs = T(WC(wavelength=1e-6))
    wcs2 = T(WC(wavelength=1e-6), WC(frequency=2.5e14, phase_shift=0.2))
    c128 = {"$dtype": "complex128"}
    f64 = {"$dtype": "float64"}
    add_det("field", "FieldDetector", plot=False, dtype=f64)
    add_det("field-components", "FieldDetector", plot=False, components=T("Ex", "Hz"))
    add_det("field-reduce", "FieldDetector", plot=False, reduce_volume=True)
    add_det("field-inverse", "FieldDetector", plot=False, inverse=True, if_inverse_plot_backwards=False)
    add_det("field-no-exact", "FieldDetector", plot=False, exact_interpolation=False)
    add_det("field-plot-opts", "FieldDetector", plot=True, num_video_workers=2, plot_interpolation="nearest", plot_dpi=72)
    add_det("field-real-shape", "FieldDetector", plot=False, partial_grid_shape=T(None, None, 1), partial_real_shape=T(0.4e-6, 0.2e-6, None))
    add_det("energy", "EnergyDetector", plot=False, dtype=f64)
    add_det("energy-slices", "EnergyDetector", plot=False, as_slices=True, partial_grid_shape=T(3, 3, 3))
    add_det("energy-slices-xyz", "EnergyDetector", plot=False, as_slices=True, x_slice=0.1e-6, y_slice=-0.1e-6, z_slice=0.0, partial_grid_shape=T(4, 4, 4), con=[dict(m="place_at_center", obj="d_energy_slices_xyz", other="volume", kw={})])
    add_det("energy-reduce", "EnergyDetector", plot=False, reduce_volume=True)
    add_det("energy-aggregate", "EnergyDetector", plot=False, aggregate="mean", partial_grid_shape=T(3, 3, 3))
    add_det("poynting", "PoyntingFluxDetector", plot=False, direction="+", dtype=f64)
    add_det("poynting-opts", "PoyntingFluxDetector", plot=False, direction="-", reduce_volume=False, keep_all_components=True, partial_grid_shape=T(1, 1, 1))
    add_det("poynting-no-reduce", "PoyntingFluxDetector", plot=False, direction="-", reduce_volume=False)
    add_det("poynting-axis", "PoyntingFluxDetector", plot=False, direction="+", fixed_propagation_axis=0, partial_grid_shape=T(2, 2, 2))
    add_det("phasor", "PhasorDetector", wave_characters=wcs, dtype=c128)
    add_det("phasor-two-waves", "PhasorDetector", wave_characters=wcs2, components=T("Ey",), reduce_volume=True)
    add_det("phasor-pulse", "PhasorDetector", wave_characters=wcs, scaling_mode="pulse", dft_subsample=2)
    add_det("phasor-gauss-window", "PhasorDetector", wave_characters=wcs, apodization=O("GaussianWindow", center_time=3e-15, sigma_time=1e-15))
    add_det("phasor-tukey-window", "PhasorDetector", wave_characters=wcs, apodization=O("TukeyWindow", start_time=1e-15, end_time=5e-15, alpha=0.3))
    add_det("phasor-poynting", "PhasorPoyntingFluxDetector", wave_characters=wcs, direction="+", dtype=c128)
    add_det("phasor-poynting-opts", "PhasorPoyntingFluxDetector", wave_characters=wcs2, direction="-", keep_all_components=True, partial_grid_shape=T(1, 1, 1))
    add_det("phasor-poynting-axis", "PhasorPoyntingFluxDetector", wave_characters=wcs2, direction="-", fixed_propagation_axis=2, partial_grid_shape=T(2, 2, 2))
    add_det("closed", "ClosedSurfacePoyntingFluxDetector", plot=False, partial_grid_shape=T(3, 3, 3), dtype=f64)
    add_det("closed-opts", "ClosedSurfacePoyntingFluxDetector", plot=False, partial_grid_shape=T(3, 3, 3), orientation="inward", axes=T(0, 2))
    add_det("closed-phasor", "ClosedSurfacePhasorPoyntingFluxDetector", wave_characters=wcs, partial_grid_shape=T(3, 3, 3), dtype=c128)
    add_det("closed-phasor-opts", "ClosedSurfacePhasorPoyntingFluxDetector", wave_characters=wcs2, partial_grid_shape=T(3, 3, 3), orientation="inward", axes=T(1,), scaling_mode="pulse")
    add_det("mode-overlap", "ModeOverlapDetector", wave_characters=wcs, direction="+", partial_grid_shape=T(None, None, 1), con=[dict(m="set_grid_coordinates", obj="d_mode_overlap", other=None, kw=dict(axes=T(2), sides=T("-"), coordinates=T(4)))])
    add_det("mode-overlap-opts", "ModeOverlapDetector", wave_characters=wcs, direction="-", mode_index=1, filter_pol="tm", partial_grid_shape=T(None, None, 1), con=[dict(m="set_grid_coordinates", obj="d_mode_overlap_opts", other=None, kw=dict(axes=T(2), sides=T("-"), coordinates=T(4)))])
    proj = dict(wave_characters=[WC(wavelength=1e-6)], direction="+", partial_grid_shape=T(None, None, 1))

    def pcon(nm):
        return [dict(m="set_grid_coordinates", obj=nm, other=None, kw=dict(axes=T(2), sides=T("-"), coordinates=T(5)))]

    add_det("proj-angle", "FieldProjectionAngleDetector", con=pcon("d_proj_angle"), **proj)
    add_det("proj-angle-opts", "FieldProjectionAngleDetector", con=pcon("d_proj_angle_opts"), origin=T(0.0, 0.0, 1e-6), projection_distance=2.0, far_field_approx=False, exact_projection_batch_size=64, window_size=T(0.1, 0.2), interval_space=T(2, 3, 1), projection_medium_refractive_index=1.5, **proj)
    add_det("proj-angle-medium", "FieldProjectionAngleDetector", con=pcon("d_proj_angle_medium"), projection_medium=O("Material", permittivity=2.25, permeability=1.2), **proj)
    add_det("proj-cartesian", "FieldProjectionCartesianDetector", con=pcon("d_proj_cartesian"), projection_axis=2, **proj)
    add_det("proj-kspace", "FieldProjectionKSpaceDetector", con=pcon("d_proj_kspace"), projection_axis=2, projection_medium_impedance=300.0, **proj)
    M["det:dtype-f32"] = [("okw", "det", "dtype", {"$dtype": "float32"})]

    # ---- constraint parameters (indices refer to the base constraint list)
    M["con:position-anchors"] = [("ckw", 1, "own_positions", T(-1, 0, 1)), ("ckw", 1, "other_positions", T(-1, 0.5, 1))]
    M["con:position-margins"] = [("ckw", 1, "margins", T(0.1e-6, -0.15e-6, 0.0))]
    M["con:position-grid-margins"] = [("ckw", 1, "grid_margins", T(1, -2, 0))]
    M["con:position-axes"] = [("ckw", 1, "axes", T(2, 0, 1))]
    M["con:same-position"] = [("delc", 1), ("addc", dict(m="same_position", obj="cube", other="slab", kw=dict(axes=T(0, 1, 2))))]
    M["con:place-above"] = [("delc", 1), ("addc", dict(m="place_at_center", obj="cube", other="volume", kw=dict(axes=T(0, 1)))), ("addc", dict(m="place_above", obj="cube", other="pml_zlo", kw=dict(grid_margins=T(1))))]
    M["con:place-below"] = [("delc", 1), ("addc", dict(m="place_at_center", obj="cube", other="volume", kw=dict(axes=T(0, 1)))), ("addc", dict(m="place_below", obj="cube", other="src", kw=dict(margins=T(-0.1e-6))))]
    M["con:face-to-face"] = [("delc", 1), ("addc", dict(m="place_at_center", obj="cube", other="volume", kw=dict(axes=T(1, 2)))), ("addc", dict(m="face_to_face_negative_direction", obj="cube", other="det", kw=dict(axes=T(0))))]
    M["con:size-proportion"] = [("ckw", 3, "proportions", T(0.37))]
    M["con:size-offset"] = [("ckw", 3, "offsets", T(0.15e-6))]
    M["con:size-grid-offset"] = [("ckw", 2, "grid_offsets", T(-2))]
    M["con:size-other-axes"] = [("ckw", 3, "other_axes", T(2))]
    M["con:size-to-object"] = [("delc", 3), ("addc", dict(m="size_relative_to", obj="slab", other="cube", kw=dict(axes=T(1), proportions=T(2.0))))]
    M["con:same-position-and-size"] = [("add", O("UniformMaterialObject", name="twin", material=O("Material", permittivity=3.0), placement_order=2), [dict(m="same_position_and_size", obj="twin", other="cube", kw={})])]
    M["con:extend-direction"] = [("ckw", 5, "sides", T("+")), ("ckw", 6, "direction", "-")]
    M["con:extend-offset"] = [("delc", 6), ("addc", dict(m="extend_to", obj="slab", other="src", kw=dict(axis=2, direction="+", offset=0.1e-6)))]
    M["con:extend-grid-offset"] = [("delc", 6), ("addc", dict(m="extend_to", obj="slab", other="src", kw=dict(axis=2, direction="+", grid_offset=1)))]
    M["con:extend-to-object"] = [("delc", 6), ("addc", dict(m="extend_to", obj="slab", other="src", kw=dict(axis=2, direction="+")))]
    M["con:extend-other-position"] = [("delc", 6), ("addc", dict(m="extend_to", obj="slab", other="src", kw=dict(axis=2, direction="+", other_position=1.0, grid_offset=0)))]
    M["con:grid-coordinate-sides"] = [("ckw", 8, "sides", T("+", "-", "+")), ("ckw", 8, "coordinates", T(5, 2, 6))]
    M["con:grid-coordinate-axes"] = [("ckw", 8, "axes", T(2, 0, 1)), ("ckw", 8, "coordinates", T(3, 1, 2))]
    # scenes the library must reject identically before and after the round trip
    M["bad:contradicting-size"] = [("addc", dict(m="same_size", obj="cube", other="volume", kw=dict(axes=T(0))))]
    M["bad:object-outside"] = [("ckw", 8, "coordinates", T(11, 2, 3))]
    return M


def cases(tier, seed):
    names = list(menu(seed))
    out = [dict(devs=[])]
    out += [dict(devs=[n]) for n in names]
    if tier == "thorough":
        out += [dict(devs=[a, b]) for a, b in itertools.combinations(names, 2)]
    for c in out:
        c["seed"] = seed
    return out


def bounds(tier, seed):
    names = list(menu(seed))
    return {
        "deviation_menu": names,
        "menu_size": len(names),
        "max_deviations": 1 if tier == "quick" else 2,
        "base_scene": "volume 12x10x8 @100nm, PML z-min, cube (PositionConstraint), slab (2 SizeConstraints, PositionConstraint, GridCoordinateConstraint, SizeExtensionConstraint), plane source, field detector",
        "compared": ["object names/types/grid slices", "every ArrayContainer leaf", "every ObjectContainer array leaf", "time step / step count / grid edges", "re-exported JSON text", "rejections"],
        "seed": seed,
    }


# ---------------------------------------------------------------------------------------------- spec -> objects
def _apply(spec, ops):
    import copy

    spec = copy.deepcopy(spec)
    for op in ops:
        if op[0] == "cfg":
            spec["config"][op[1]] = op[2]
        elif op[0] == "okw":
            for o in spec["objects"]:
                if o["kw"]["name"] == op[1]:
                    o["kw"][op[2]] = op[3]
        elif op[0] == "add":
            spec["objects"].append(copy.deepcopy(op[1]))
            spec["constraints"] += copy.deepcopy(op[2])
        elif op[0] == "ckw":
            spec["constraints"][op[1]]["kw"][op[2]] = op[3]
        elif op[0] == "addc":
            spec["constraints"].append(copy.deepcopy(op[1]))
        elif op[0] == "delc":
            spec["constraints"][op[1]] = None
        else:
            raise ValueError(op)
    return spec


def mk(x):
    import fdtdx
    import jax.numpy as jnp

    if isinstance(x, dict):
        if "$" in x:
            cls = getattr(fdtdx, x["$"], None)
            if cls is None:
                import fdtdx.dispersion as D
                import fdtdx.colors as Cc

                cls = getattr(D, x["$"], None) or getattr(Cc, x["$"])
            return cls(**{k: mk(v) for k, v in x["kw"].items()})
        if "$t" in x:
            return tuple(mk(v) for v in x["$t"])
        if "$dtype" in x:
            return getattr(jnp, x["$dtype"])
        if "$a" in x:
            return jnp.asarray(np.asarray(x["$a"], dtype=x["dt"]))
        if "$c" in x:
            return complex(x["$c"][0], x["$c"][1])
        return {k: mk(v) for k, v in x.items()}
    if isinstance(x, list):
        return [mk(v) for v in x]
    return x


def build(spec):
    import fdtdx

    cfg = fdtdx.SimulationConfig(**{k: mk(v) for k, v in spec["config"].items()})
    objs = [mk(o) for o in spec["objects"]]
    by = {o.name: o for o in objs}
    cons = []
    for c in spec["constraints"]:
        if c is None:
            continue
        fn = getattr(by[c["obj"]], c["m"])
        kw = mk(c["kw"])
        if c["m"] == "set_grid_coordinates":
            r = fn(**kw)
        elif c["m"] == "extend_to":
            r = fn(by[c["other"]] if c["other"] else None, **kw)
        else:
            r = fn(by[c["other"]], **kw)
        cons += list(r) if isinstance(r, (tuple, list)) else [r]
    return cfg, objs, cons


def _leaves(tree):
    import jax

    out = []
    for path, leaf in jax.tree_util.tree_flatten_with_path(tree)[0]:
        out.append((jax.tree_util.keystr(path), leaf))
    return out


def _cmp_leaves(a, b, what, fails, meta):
    la, lb = _leaves(a), _leaves(b)
    if [p for p, _ in la] != [p for p, _ in lb]:
        fails.append(dict(sig=f"{what}:tree-structure-differs", detail=dict(meta, only_original=[p for p, _ in la if p not in {q for q, _ in lb}][:5], only_imported=[p for p, _ in lb if p not in {q for q, _ in la}][:5])))
        return 0
    n = 0
    for (p, x), (_, y) in zip(la, lb):
        n += 1
        xa, ya = np.asarray(x), np.asarray(y)
        if xa.dtype == object or ya.dtype == object:
            # non-array leaves (e.g. the NULL sentinel of unset private fields): compare by type and representation
            if type(x) is not type(y) or repr(x) != repr(y):
                fails.append(dict(sig=f"{what}:non-array-leaf-differs", detail=dict(meta, leaf=p, original=repr(x)[:80], imported=repr(y)[:80])))
            continue
        if xa.dtype != ya.dtype or xa.shape != ya.shape:
            fails.append(dict(sig=f"{what}:leaf-dtype-or-shape-differs", detail=dict(meta, leaf=p, original=[str(xa.dtype), list(xa.shape)], imported=[str(ya.dtype), list(ya.shape)])))
        elif not (np.array_equal(xa, ya, equal_nan=True) if xa.dtype.kind in "fc" else np.array_equal(xa, ya)):
            d = float(np.max(np.abs(xa.astype(np.complex128) - ya.astype(np.complex128)))) if xa.dtype.kind in "fc" else None
            fails.append(dict(sig=f"{what}:leaf-values-differ", detail=dict(meta, leaf=p, max_abs_diff=d)))
    return n


def _blame(obj, owner="setup"):
    """the innermost value that export_json cannot serialise, as 'OwnerType.field:ValueType'."""
    from fdtdx.conversion.json import _export_json
    from fdtdx.core.jax.pytrees import TreeClass
    import dataclasses

    try:
        _export_json(obj)
        return None
    except Exception:
        pass
    subs = []
    if isinstance(obj, TreeClass):
        subs = [(f"{type(obj).__name__}.{f.name}", f.value) for f in obj.get_public_fields()]
    elif dataclasses.is_dataclass(obj) and not isinstance(obj, type):
        subs = [(f"{type(obj).__name__}.{k}", v) for k, v in vars(obj).items()]
    elif isinstance(obj, dict):
        subs = [(owner, v) for v in obj.values()]
    elif isinstance(obj, (list, tuple)):
        subs = [(owner, v) for v in obj]
    for o, v in subs:
        r = _blame(v, o)
        if r is not None:
            return r
    return f"{owner}:{type(obj).__name__}"


def _leaf_class(p):
    import re

    return re.sub(r"\d+", "#", p)[:60]


def run_case(case):
    import warnings

    warnings.simplefilter("ignore")
    from mc import guard

    fdtdx = guard.import_fdtdx()
    import jax
    from fdtdx.conversion.json import JsonSetup

    M = menu(case["seed"])
    ops = [op for d in case["devs"] for op in M[d]]
    try:
        spec = _apply(base_spec(), ops)
    except (TypeError, KeyError, IndexError) as e:
        # the two deviations do not compose (one removes what the other edits): not a scene of the enumeration
        return dict(ok=True, nontrivial=0, evals=1, outcome="deviations-do-not-compose", detail=dict(devs=case["devs"], error=repr(e)[:200]))
    names_ = [o.get("kw", {}).get("name") for o in spec.get("objects", []) if isinstance(o, dict)]
    if len([n for n in names_ if n is not None]) != len({n for n in names_ if n is not None}):
        return dict(ok=True, nontrivial=0, evals=1, outcome="deviations-add-the-same-object-twice", detail=dict(devs=case["devs"]))
    meta = dict(devs=case["devs"])
    fails, evals = [], 0
    tag = "+".join(d.split(":")[0] for d in case["devs"]) or "base"
    try:
        cfg, objs, cons = build(spec)
    except Exception as e:  # the deviation combination is not constructible at all (e.g. validation in __post_init__)
        return dict(ok=True, nontrivial=0, evals=1, outcome=f"not-constructible:{type(e).__name__}", detail=dict(meta, error=repr(e)[:300]))
    key = jax.random.PRNGKey(7 + case["seed"])
    # ---- export / import
    try:
        setup = JsonSetup(config=cfg, object_list=objs, constraints=cons)
        s = setup.dumps()
        evals += 1
    except Exception as e:
        who = _blame([cfg, objs, cons])
        return dict(ok=False, sig=f"export-raises:{type(e).__name__}:{who}", detail=dict(meta, error=repr(e)[:500], offending=who), nontrivial=0, evals=1, outcome="export-raises")
    try:
        setup2 = JsonSetup.loads(s)
        evals += 1
    except Exception as e:
        return dict(ok=False, sig=f"import-raises:{tag}:{type(e).__name__}", detail=dict(meta, error=repr(e)[:500]), nontrivial=0, evals=2, outcome="import-raises")
    # ---- the imported setup itself: same pytree structure, array dtypes and values as the original
    pre = []
    _cmp_leaves((cfg, objs), (setup2.config, setup2.object_list), "imported-setup", pre, meta)
    dtype_changed = False
    for f in pre:
        if f["sig"].endswith("leaf-dtype-or-shape-differs"):
            o, i = f["detail"]["original"], f["detail"]["imported"]
            if o[1] == i[1]:
                f["sig"] = f"import-changes-array-dtype:{o[0]}->{i[0]}:{_leaf_class(f['detail']['leaf'])}"
                dtype_changed = True
        else:
            f["sig"] = f"{f['sig']}:{tag}:{_leaf_class(f['detail'].get('leaf', ''))}"
    fails += pre
    try:
        s2 = setup2.dumps()
        if s2 != s:
            a, b = s.splitlines(), s2.splitlines()
            i = next((i for i, (x, y) in enumerate(zip(a, b)) if x != y), min(len(a), len(b)))
            fails.append(dict(sig=f"re-export-differs:{tag}", detail=dict(meta, line=i, original=a[i - 2 : i + 2] if i < len(a) else None, imported=b[i - 2 : i + 2] if i < len(b) else None)))
    except Exception as e:
        fails.append(dict(sig=f"re-export-raises:{tag}:{type(e).__name__}", detail=dict(meta, error=repr(e)[:300])))
    if dtype_changed:  # everything downstream (time step, offsets, weights) is a consequence: report the cause only
        seen, out = {}, []
        for f in fails:
            seen[f["sig"]] = seen.get(f["sig"], 0) + 1
            if seen[f["sig"]] <= 2:
                out.append(f)
        return dict(ok=False, failures=out, detail=dict(meta, by_sig=seen), nontrivial=1, evals=evals, outcome="import-changes-array-dtype")
    # ---- placement of both
    errA = errB = None
    try:
        A = fdtdx.place_objects(objs, cfg, cons, key=key)
    except Exception as e:
        errA = e
    try:
        B = fdtdx.place_objects(setup2.object_list, setup2.config, setup2.constraints, key=key)
    except Exception as e:
        errB = e
    evals += 2
    if errA is not None or errB is not None:
        if errA is not None and errB is not None and type(errA) is type(errB):
            return dict(ok=not fails, failures=fails, nontrivial=0, evals=evals, outcome=f"both-rejected:{type(errA).__name__}", detail=dict(meta, error=repr(errA)[:300]))
        fails.append(dict(sig=f"placement-accepted-on-one-side-only:{tag}", detail=dict(meta, original=repr(errA)[:300], imported=repr(errB)[:300])))
        return dict(ok=False, failures=fails, nontrivial=0, evals=evals, outcome="one-sided-rejection", detail=meta)
    oa, ob = A[0].object_list, B[0].object_list
    if [(o.name, type(o).__name__) for o in oa] != [(o.name, type(o).__name__) for o in ob]:
        fails.append(dict(sig=f"object-list-differs:{tag}", detail=dict(meta, original=[o.name for o in oa], imported=[o.name for o in ob])))
    else:
        for x, y in zip(oa, ob):
            if x.grid_slice_tuple != y.grid_slice_tuple:
                fails.append(dict(sig=f"grid-slice-differs:{tag}:{type(x).__name__}", detail=dict(meta, name=x.name, original=x.grid_slice_tuple, imported=y.grid_slice_tuple)))
    n = 0
    sub = []
    n += _cmp_leaves(A[1], B[1], "arrays", sub, meta)
    n += _cmp_leaves(A[0], B[0], "objects", sub, meta)
    n += _cmp_leaves(A[2], B[2], "params", sub, meta)
    for f in sub:  # make the signature specific: which leaf family
        f["sig"] = f"{f['sig']}:{tag}:{_leaf_class(f['detail'].get('leaf', ''))}"
    fails += sub
    ca, cb = A[3], B[3]
    if ca.time_steps_total != cb.time_steps_total or ca.time_step_duration != cb.time_step_duration:
        fails.append(dict(sig=f"time-discretisation-differs:{tag}", detail=dict(meta, original=[ca.time_steps_total, ca.time_step_duration], imported=[cb.time_steps_total, cb.time_step_duration])))
    ga, gb = ca.resolved_grid, cb.resolved_grid
    for a in range(3):
        if not np.array_equal(np.asarray(ga.edges(a)), np.asarray(gb.edges(a))):
            fails.append(dict(sig=f"resolved-grid-edges-differ:{tag}", detail=dict(meta, axis=a)))
    seen, out = {}, []
    for f in fails:
        seen[f["sig"]] = seen.get(f["sig"], 0) + 1
        if seen[f["sig"]] <= 2:
            out.append(f)
    return dict(ok=not fails, failures=out, detail=dict(meta, leaves_compared=n, objects=len(oa), by_sig=seen), nontrivial=int(bool(case["devs"])), evals=evals, outcome="round-trip-placed")
