"""C30 — recorded boundary data decompresses to what was recorded.

The decompression map of a Recorder pipeline is linear in the recorded history, so it is completely described by
its action on one-hot impulse histories. For every pipeline of the bounded space the real `Recorder.compress` is
called at every step t with the impulse e_t, then the real `Recorder.decompress` at every step t'; row t' of the
tabulated weight matrix must equal e_t' at saved steps and the two-point interpolation weights between the enclosing
saved steps otherwise (reference model: mc/oracles/recorder_ref.py), for every t' at or after the start step.
A second, dense history with a different shape rides along in the same calls (the weights must explain it too, i.e.
the map really is linear and shape independent), and selected histories are replayed through the jitted/traced
path (`lax.fori_loop` with a traced time step, as the FDTD loop calls the recorder).
"""
import numpy as np

ID = "C30"
LEVEL = "model_checking"
MANIFEST = {
    "engine": "E1-linsys",
    "technique": "bounded exhaustive enumeration of (pipeline,T,k,start[,k',start']) with one-hot impulse histories through the real Recorder.compress/decompress against the interpolation-matrix reference model; jitted replays of dense histories for conformance",
    "text": "For every total step count T, every k, every start step and every pipeline shape of the bound ([], every-k, dtype->every-k, every-k->dtype, every-k->every-k', dtype alone) the real Recorder is driven over the whole history of one-hot impulses; the tabulated decompression weights are compared with the two-point interpolation matrix built from the statement, for every step at or after the start step; widening conversions are compared bit for bit.",
    "note": "States = (pipeline,T,k,start,t') rows at or after the start step; transitions = real compress/decompress calls; traces = dense histories replayed through jit+fori_loop with traced time step and compared with the table. Nested every-k uses (k',start') in {(2,1),(3,0)} (quick) / {2,3}x{0,1} (thorough).",
}
RULE = (
    "case = (pipeline kind, T, k); inside a case every start step 0..T-1 (and for nested filters every (k',start') of the "
    "menu with start' < number of slots left by the first filter) gives one real Recorder that is driven through all T "
    "compress and all T decompress calls. A state (pipeline,T,k,start,t') is counted for every t' >= effective start; "
    "it is non-trivial when t' is not a saved step (the interpolation branch decides) or the pipeline converts dtypes."
)
ASSUMPTIONS = [
    "save-every-k saves start, start+k, ... and always the final step (checked against the slots the real recorder fills)",
    "in a nested pipeline each filter interpolates in the index space left by the previous filter (composition of interpolation matrices)",
    "eager op-by-op evaluation (jax.disable_jit) runs the same Python code as the traced path; cross-checked by jitted fori_loop replays",
    "interpolation weights are compared at 1e-9 (float64 paths) / 1e-6 (paths that interpolate or store in float32); saved steps and widening conversions with ==",
]
TOL64 = 1e-9
TOL32 = 1e-6

K2MENU = {"quick": [(2, 1), (3, 0)], "thorough": [(2, 0), (2, 1), (3, 0), (3, 1)]}
SECOND_CONV_T = {"quick": 8, "thorough": 16}  # the second dtype pair of DE/ED is enumerated for T up to this bound
CONV_EXACT = [("f32", "f64"), ("c64", "c128"), ("f64", "f64"), ("f32", "f32"), ("c128", "c128")]
CONV_NARROW = [("f64", "f32"), ("c128", "c64")]
CONV_RAISE = [("c64", "f32"), ("c128", "f64")]
DE_CONV = [("f32", "f64"), ("c64", "c128")]
TRACE_T = {"quick": (3, 16), "thorough": (2, 5, 11, 16, 23, 32, 40)}


def _menu(kind, tier, T):
    """inner menu of a case: dtype conversions for DE/ED, (k',start') for EE."""
    if kind == "DE":
        return [DE_CONV[0]] + ([DE_CONV[1]] if T <= SECOND_CONV_T[tier] else [])
    if kind == "ED":
        return [DE_CONV[1]] + ([DE_CONV[0]] if T <= SECOND_CONV_T[tier] else [])
    if kind == "EE":
        return K2MENU[tier]
    return None


def _tk(tier):
    return (16, 4) if tier == "quick" else (40, 8)


def cases(tier, seed):
    Tmax, Kmax = _tk(tier)
    out = []
    for T in range(1, Tmax + 1):
        tr = T in TRACE_T[tier]
        out.append(dict(kind="none", T=T, k=None, trace=tr))
        out.append(dict(kind="D", T=T, k=None, trace=tr))
        for kind in ("E", "DE", "ED", "EE"):
            for k in range(1, Kmax + 1):
                out.append(dict(kind=kind, T=T, k=k, trace=tr and k in (2, Kmax), convs=_menu(kind, tier, T)))
    for c in out:
        c["seed"] = seed
        c["L"] = Tmax
    return out


def bounds(tier, seed):
    Tmax, Kmax = _tk(tier)
    return {
        "T": [1, Tmax],
        "k": [1, Kmax],
        "start": "every start step 0..T-1",
        "pipelines": {
            "none": "[] with f64,f32,c128 values",
            "D": f"[DtypeConversion] exact {CONV_EXACT}, narrowing {CONV_NARROW}, must raise {CONV_RAISE}",
            "E": "[every-k(k,start)] float64",
            "DE": f"[DtypeConversion, every-k] for {DE_CONV[0]} at every T, and {DE_CONV[1]} for T <= {SECOND_CONV_T[tier]}",
            "ED": f"[every-k, DtypeConversion] for {DE_CONV[1]} at every T, and {DE_CONV[0]} for T <= {SECOND_CONV_T[tier]}",
            "EE": f"[every-k(k,start), every-k(k',start')] for (k',start') in {K2MENU[tier]}, start' < slots of the first filter",
        },
        "histories": "one-hot impulse at every t (vectors of fixed length Tmax, entries >= T must stay 0), every t' >= start decompressed; dtype-only/no-module pipelines and all jitted replays carry a dense all-distinct/seed history of shape (2,3) as a second key",
        "traces": f"jit+fori_loop replays for T in {TRACE_T[tier]}, k in (2,{Kmax}), start in (0,1), first dtype pair / (k',start')=(2,1)",
        "tolerance": {"float64": TOL64, "float32-paths": TOL32, "saved steps / widening": "=="},
        "seed": seed,
    }


# ---------------------------------------------------------------------------------------------- helpers
def _np_dt(name):
    return {"f32": np.float32, "f64": np.float64, "c64": np.complex64, "c128": np.complex128}[name]


def _jnp_dt(name):
    import jax.numpy as jnp

    return {"f32": jnp.float32, "f64": jnp.float64, "c64": jnp.complex64, "c128": jnp.complex128}[name]


def _modules(pipeline):
    import fdtdx

    mods = []
    for m in pipeline:
        if m[0] == "E":
            mods.append(fdtdx.LinearReconstructEveryK(k=m[1], start_recording_after=m[2]))
        else:
            mods.append(fdtdx.DtypeConversion(dtype=_jnp_dt(m[1])))
    return mods


def _amp(dt_in):
    return (1 - 2j) if dt_in.startswith("c") else 1.0


def _dense(T, dt_in, seed, special=False):
    """all-distinct history of shape (T,2,3) in the input dtype (+ a VERIF_SEED dependent generic part)."""
    n = T * 6
    kk = np.arange(n, dtype=np.float64)
    v = -1.0 + 2.0 * np.mod(0.137 + kk * 0.6180339887498949, 1.0)
    rng = np.random.default_rng(1000 + seed)
    v = v + 0.25 * rng.uniform(-1, 1, size=n)
    if dt_in.startswith("c"):
        w = -1.0 + 2.0 * np.mod(0.713 + kk * 0.7548776662466927, 1.0)
        v = v + 1j * w
    v = v.reshape(T, 2, 3).astype(_np_dt(dt_in))
    if special:
        fi = np.finfo(np.float32 if dt_in in ("f32", "c64") else np.float64)
        # no subnormals: the XLA CPU backend flushes them to zero in every op, which is not a recorder matter
        sp = [fi.max, -fi.max, fi.tiny, -fi.tiny, -0.0, np.inf, 1.0 + fi.eps, 1.0 / 3.0]
        flat = v.reshape(-1)
        for i, s in enumerate(sp):
            if i < flat.size:
                flat[-1 - i] = s
        v = flat.reshape(T, 2, 3)
    return v


def _drive(pipeline, T, dt_in, hist, rows):
    """Build the real Recorder and drive it op by op (jax.disable_jit: the Python code of fdtdx runs with concrete
    values, lax.cond takes the selected branch) through compress at every t and decompress at every t' in rows.
    Returns (outs {key: {t': np}}, latent slots {key: np}, number of real calls)."""
    import jax
    import jax.numpy as jnp
    import fdtdx

    rec = fdtdx.Recorder(modules=_modules(pipeline))
    jdt = _jnp_dt(dt_in)
    shapes = {k: jax.ShapeDtypeStruct(v.shape[1:], jdt) for k, v in hist.items()}
    key = jax.random.PRNGKey(3)
    hj = {k: jnp.asarray(v) for k, v in hist.items()}
    outs = {k: {} for k in hist}
    with jax.disable_jit():
        rec, st0 = rec.init_state(shapes, T, "cpu")
        st = st0
        for t in range(T):
            st = rec.compress({k: v[t] for k, v in hj.items()}, st, jnp.asarray(t, dtype=jnp.int32), key)
        for t in rows:
            o, _ = rec.decompress(st, jnp.asarray(t, dtype=jnp.int32), key)
            for k in outs:
                outs[k][t] = np.asarray(o[k])
    slots = {k: np.asarray(v) for k, v in st.data.items()}
    return outs, slots, T + len(rows)


def _replay_jit(pipeline, T, dt_in, hist):
    """The same kind of history through the traced path the FDTD loop uses: jit(fori_loop(compress) ; fori_loop(decompress))
    with a traced int32 time step. Returns {key: (T,...) np}."""
    import jax
    import jax.numpy as jnp
    import fdtdx

    rec = fdtdx.Recorder(modules=_modules(pipeline))
    jdt = _jnp_dt(dt_in)
    shapes = {k: jax.ShapeDtypeStruct(v.shape[1:], jdt) for k, v in hist.items()}
    rec, st0 = rec.init_state(shapes, T, "cpu")
    key = jax.random.PRNGKey(3)
    hj = {k: jnp.asarray(v) for k, v in hist.items()}

    @jax.jit
    def run(hj, st0):
        def cbody(t, st):
            return rec.compress({k: v[t] for k, v in hj.items()}, st, t, key)

        st = jax.lax.fori_loop(jnp.int32(0), jnp.int32(T), cbody, st0)

        def dbody(t, acc):
            o, _ = rec.decompress(st, t, key)
            return {k: acc[k].at[t].set(o[k]) for k in acc}

        acc0 = {k: jnp.zeros_like(v) for k, v in hj.items()}
        return jax.lax.fori_loop(jnp.int32(0), jnp.int32(T), dbody, acc0)

    out = run(hj, st0)
    return {k: np.asarray(v) for k, v in out.items()}


def _bytes_equal(a, b):
    return a.dtype == b.dtype and a.shape == b.shape and a.tobytes() == b.tobytes()


def _short(v):
    v = np.asarray(v)
    nz = np.nonzero(np.abs(v) > 0)[0]
    return {int(i): (float(np.real(v[i])) if abs(np.imag(v[i])) == 0 else [float(np.real(v[i])), float(np.imag(v[i]))]) for i in nz[:6]}


def _impulses(T, dt_in, L=None):
    """history of one-hot impulses: step t records amp*e_t. The vectors have a fixed length L >= T (so that the
    eager per-shape op cache of XLA is shared between different T; entries >= T are never excited and must stay 0)."""
    L = T if L is None else L
    return (np.eye(T, L) * _amp(dt_in)).astype(_np_dt(dt_in))


# ---------------------------------------------------------------------------------------------- one recorder
def _pad(W, L):
    out = np.zeros((W.shape[0], L))
    out[:, : W.shape[1]] = W
    return out


def _check_interp(pipeline, filters, T, dt_in, tol, seed, trace, acc, label, L=None):
    """filters: [(k,start),...] of the every-k modules in pipeline order."""
    from mc.oracles import recorder_ref as ref

    model = ref.pipeline_model(T, filters)
    rows = [t for t in range(T) if model["kind"][t] != "pre"]
    L = T if L is None else L
    hist = {"a": _impulses(T, dt_in, L)}
    outs, slots, ncalls = _drive(pipeline, T, dt_in, hist, rows)
    acc["transitions"] += ncalls
    acc["evals"] += ncalls
    acc["outcome"]["pre-start(unconstrained)"] = acc["outcome"].get("pre-start(unconstrained)", 0) + T - len(rows)
    amp = _amp(dt_in)
    fails = []
    meta = dict(pipeline=pipeline, T=T, dtype=dt_in)
    # a filter level whose index range is not longer than its k: the appended final index lies inside [0,k)
    N = T
    short_level = False
    for kk, ss in filters:
        if N <= kk and ss < N - 1:
            short_level = True
        N = len(ref.saved_indices(N, kk, ss))
    want_dt = np.dtype(_np_dt(dt_in))
    bad_dt = sorted({str(v.dtype) for v in outs["a"].values() if v.dtype != want_dt})
    if bad_dt:
        fails.append(dict(sig=f"{label}:output-dtype-differs-from-input", detail=dict(meta, got=bad_dt, want=str(want_dt))))
    # slots the real recorder filled: slot j of the latent array must hold amp * e_{stored_times[j]}
    sl = slots["a"]
    got_times = [[int(i) for i in np.nonzero(sl[j])[0]] for j in range(sl.shape[0])]
    exp_times = [[int(t)] for t in model["stored_times"]] + [[] for _ in range(sl.shape[0] - len(model["stored_times"]))]
    if got_times != exp_times:
        sig = "everyk:final-step-overwrites-slot-0:T<=k" if short_level and got_times[1:] == [[] for _ in got_times[1:]] else f"{label}:saved-set-differs"
        fails.append(dict(sig=sig, detail=dict(meta, slots_hold_steps=got_times, expected=exp_times)))
    cdt = np.complex128 if dt_in.startswith("c") else np.float64
    W = _pad(model["W"], L)
    alt = None
    nfail = 0
    Wobs = np.full((T, L), np.nan, dtype=cdt)
    for t in rows:
        kind = model["kind"][t]
        acc["outcome"][kind] = acc["outcome"].get(kind, 0) + 1
        acc["states"] += 1
        if kind == "interp" or any(m[0] == "D" for m in pipeline):
            acc["nontrivial"] += 1
        row = outs["a"][t].astype(cdt)
        with np.errstate(all="ignore"):
            Wobs[t] = row / amp
        if kind == "saved":
            ok = bool(np.all(row == W[t] * amp))
        else:
            ok = bool(np.all(np.isfinite(row))) and float(np.max(np.abs(row - W[t] * amp))) <= tol
        if ok:
            continue
        nfail += 1
        if nfail > 4:
            continue
        if short_level:
            sig = "everyk:final-step-overwrites-slot-0:T<=k"
        elif model["first_with_start"][t]:
            if alt is None:
                alt = _pad(ref.pipeline_model(T, filters, origin_zero=True)["W"], L)
            from0 = bool(np.all(np.isfinite(row))) and float(np.max(np.abs(row - alt[t] * amp))) <= tol
            sig = "everyk:first-interval-interpolated-from-step-0:start>0" if from0 else f"{label}:first-interval-wrong-weights:start>0"
        else:
            sig = f"{label}:{kind}-step-wrong-weights"
        fails.append(dict(sig=sig, detail=dict(meta, t=t, observed_weights=_short(Wobs[t]), expected_weights=_short(W[t]))))
    if nfail > 4:
        fails[-1]["detail"]["further_failing_rows"] = nfail - 4
    if trace:
        # dense history of another shape next to the impulses, through the traced path; the eager impulse table must explain both
        hist2 = {"a": hist["a"], "b": _dense(T, dt_in, seed)}
        rep = _replay_jit(pipeline, T, dt_in, hist2)
        acc["traces"] += 1
        d = 0.0
        for t in rows:
            if not np.all(np.isfinite(Wobs[t])):
                continue
            ea = Wobs[t] * amp
            eb = np.tensordot(Wobs[t][:T], hist2["b"].astype(cdt), axes=(0, 0))
            for got, exp in ((rep["a"][t], ea), (rep["b"][t], eb)):
                d = max(d, float(np.max(np.abs(got - exp))) if np.all(np.isfinite(got)) else float("inf"))
        if d > 4 * tol:
            fails.append(dict(sig="conformance:jit-replay-of-dense-history-differs-from-eager-impulse-table", detail=dict(meta, defect=d)))
    return fails


def _check_exact(pipeline, T, dt_in, mode, seed, trace, acc, label):
    """all steps saved; mode: exact (bit for bit) | narrow (relative 2^-23)."""
    hist = {"a": _impulses(T, dt_in, max(T, 2)), "b": _dense(T, dt_in, seed, special=(mode == "exact"))}
    outs, slots, ncalls = _drive(pipeline, T, dt_in, hist, list(range(T)))
    acc["transitions"] += ncalls
    acc["evals"] += ncalls
    fails = []
    meta = dict(pipeline=pipeline, T=T, dtype=dt_in)
    for t in range(T):
        acc["states"] += 1
        acc["outcome"]["saved"] = acc["outcome"].get("saved", 0) + 1
        if pipeline:
            acc["nontrivial"] += 1
        for k in ("a", "b"):
            got, want = outs[k][t], hist[k][t]
            if mode == "exact":
                ok = _bytes_equal(got, want)
            else:
                ok = got.dtype == want.dtype and bool(np.all(np.abs(got - want) <= 2.0**-23 * np.abs(want)))
            if not ok:
                fails.append(dict(sig=f"{label}:roundtrip-not-{'exact' if mode == 'exact' else 'within-storage-precision'}", detail=dict(meta, t=t, key=k, got=str(got.ravel()[:6]), want=str(want.ravel()[:6]))))
                break
        if len(fails) >= 3:
            break
    if trace:
        rep = _replay_jit(pipeline, T, dt_in, hist)
        acc["traces"] += 1
        for k in rep:
            ok = _bytes_equal(rep[k], hist[k]) if mode == "exact" else bool(np.all(np.abs(rep[k] - hist[k]) <= 2.0**-23 * np.abs(hist[k])))
            if not ok:
                fails.append(dict(sig="conformance:jit-replay-roundtrip-differs", detail=dict(meta, key=k)))
    return fails


def run_case(case):
    from mc import guard

    guard.import_fdtdx()
    from mc.oracles import recorder_ref as ref

    kind, T, k, seed, trace = case["kind"], case["T"], case["k"], case["seed"], case.get("trace", False)
    acc = dict(states=0, transitions=0, traces=0, evals=0, nontrivial=0, outcome={})
    fails = []
    if kind == "none":
        for dt in ("f64", "f32", "c128"):
            fails += _check_exact([], T, dt, "exact", seed, trace and dt == "f64", acc, "no-modules")
    elif kind == "D":
        for a, b in CONV_EXACT:
            fails += _check_exact([("D", b)], T, a, "exact", seed, trace and (a, b) == ("c64", "c128"), acc, f"dtype:{a}->{b}")
        for a, b in CONV_NARROW:
            fails += _check_exact([("D", b)], T, a, "narrow", seed, trace and a == "f64", acc, f"dtype:{a}->{b}")
        if T == 1:
            import jax
            import fdtdx

            for a, b in CONV_RAISE:
                acc["evals"] += 1
                try:
                    fdtdx.Recorder(modules=_modules([("D", b)])).init_state({"a": jax.ShapeDtypeStruct((1,), _jnp_dt(a))}, 1, "cpu")
                    fails.append(dict(sig=f"dtype:{a}->{b}:complex-to-real-not-rejected", detail={}))
                except ValueError:
                    acc["outcome"]["documented-ValueError"] = acc["outcome"].get("documented-ValueError", 0) + 1
    else:
        tstarts = {0, min(1, T - 1)}
        convs = case["convs"]
        L = case.get("L")
        for start in range(T):
            tr = trace and start in tstarts
            if kind == "E":
                fails += _check_interp([("E", k, start)], [(k, start)], T, "f64", TOL64, seed, tr, acc, "everyk", L)
            elif kind == "DE":
                for a, b in convs:
                    fails += _check_interp([("D", b), ("E", k, start)], [(k, start)], T, a, TOL32, seed, tr and (a, b) == tuple(convs[0]), acc, f"dtype({a}->{b})>everyk", L)
            elif kind == "ED":
                for a, b in convs:
                    fails += _check_interp([("E", k, start), ("D", b)], [(k, start)], T, a, TOL32, seed, tr and (a, b) == tuple(convs[0]), acc, f"everyk>dtype({a}->{b})", L)
            elif kind == "EE":
                n1 = len(ref.saved_indices(T, k, start))
                for k2, s2 in convs:
                    if s2 >= n1:
                        continue
                    fails += _check_interp([("E", k, start), ("E", k2, s2)], [(k, start), (k2, s2)], T, "f64", TOL64, seed, tr and (k2, s2) == (2, 1), acc, "everyk>everyk", L)
            else:
                raise ValueError(kind)
    return dict(
        ok=not fails,
        failures=fails[:40],
        detail={"failing_elements": len(fails)},
        nontrivial=acc["nontrivial"],
        evals=acc["evals"],
        states=acc["states"],
        transitions=acc["transitions"],
        traces=acc["traces"],
        outcome=acc["outcome"],
    )
