"""C04 — time-reversal gradients equal exact (checkpointed) autodiff gradients.

For every scene of a finite menu and EVERY num_checkpoints_reversible r in 0..T-1 the full Jacobian
d(detector outputs)/d(inv_permittivities, inv_permeabilities) of `run_fdtd` under
GradientConfig(method="reversible", recorder=Recorder(modules=[]), num_checkpoints_reversible=r) is compared with the
Jacobian under GradientConfig(method="checkpointed") on every cell outside the absorbing layers. Both Jacobians are
obtained from `jax.vjp` evaluated on EVERY cotangent basis vector of EVERY detector output (real and imaginary parts;
`jax.vmap` over the identity), so equality decides "any scalar function of the detector outputs" by the chain rule.
The checkpointed Jacobian is cross-checked against central finite differences of the plain forward run on a few cells
(the cells with the largest reference gradient, one of them next to an absorbing layer; cells inside plane-source boxes are
skipped because fdtdx stop_gradient's the TFSF injection term by design) to exclude both methods being wrong together.
Conductive scenes are only compared for r = T-1 (a full-field checkpoint at every step), as the statement says.
"""

ID = "C04"
LEVEL = "exploration"
MANIFEST = {
    "engine": "E4-scenes + exhaustive cotangent basis",
    "technique": "exhaustive cotangent-basis Jacobian comparison: jax.vjp of run_fdtd on every basis cotangent of every detector output, for every reversible checkpoint count 0..T-1, reversible vs checkpointed, on all cells outside PML, on a finite scene menu; checkpointed Jacobian cross-checked by central finite differences",
    "text": "For each scene of a finite menu (with/without PML of thickness 2-3, dipole or plane sources, Field/Energy/Poynting/Phasor detectors, permeability arrays, conductivity with a checkpoint at every step) and every admissible number of reversible checkpoints, the complete Jacobian of all detector outputs with respect to the inverse permittivity and permeability arrays is extracted from the reversible custom VJP and from checkpointed autodiff by evaluating the VJP on every cotangent basis vector, and the two are required to agree on every cell outside the absorbing layers; the reference Jacobian is validated against central finite differences.",
    "note": "Scenes are a finite menu (the bound); inside a scene the quantifiers 'any cotangent' and 'any number of reversible checkpoints' are enumerated completely (linearity of the VJP in the cotangent). float64/complex128. The JIT/custom_vjp layers are executed, not modelled.",
}
RULE = (
    "case = (scene, r) for every r in 0..T-1 of every scene (conductive scenes: r=T-1 only); inside a case every cotangent basis vector of every "
    "detector output is pulled back (evals = 2 x outputs + finite-difference runs). A case is non-trivial when the reference Jacobian is non-zero on "
    "cells outside PML for both inv_permittivities and inv_permeabilities, every detector has at least one output with a non-zero gradient and, in PML scenes, "
    "at least one interior cell adjacent to a PML slab carries a non-zero Jacobian entry (the wave reached the absorber)."
)
ASSUMPTIONS = [
    "float64 evaluation is representative of the float32 default",
    "scenes come from a finite menu; material values from the all-distinct / VERIF_SEED patterns",
    "gradients are taken w.r.t. arrays.inv_permittivities / inv_permeabilities with the placed objects held fixed (same function for both methods)",
    "the finite-difference cross-check skips cells inside plane-source boxes: fdtdx stop_gradient's the TFSF injection term by design, so autodiff (either method) deliberately differs from finite differences there",
]
TOL = 1e-9
TOL_FD = 2e-6

KINDS = ("min_x", "max_x", "min_y", "max_y", "min_z", "max_z")
_W = {"wavelength": 4e-7}


def _faces(pml=(), other=None):
    f = dict(other or {})
    for k in pml:
        f[k] = "pml"
    return f


def _per(*axes):
    out = {}
    for a in axes:
        out[f"min_{a}"] = out[f"max_{a}"] = "periodic"
    return out


_MU = {"tier": "iso", "pat": "distinct", "lo": 1.0, "hi": 2.0}
_EPS = {"tier": "iso", "pat": "distinct"}


def _scene_specs():
    S = {}
    # --- smallest first
    S["open3_dipole_field"] = dict(
        T=6, shape=[3, 3, 3], faces={}, eps=_EPS, mu=_MU,
        sources=[dict(kind="dipole", box=[[1, 2], [1, 2], [1, 2]], polarization=2, wave=_W)],
        detectors=[dict(kind="field", box=[[0, 1], [1, 2], [2, 3]], reduce_volume=False)],
    )
    S["pml_minx_dipole_field"] = dict(
        T=6, shape=[5, 3, 3], faces=_faces(["min_x"]), pml=2, eps=_EPS, mu=_MU,
        sources=[dict(kind="dipole", box=[[3, 4], [1, 2], [1, 2]], polarization=2, wave=_W)],
        detectors=[dict(kind="field", box=[[4, 5], [1, 2], [1, 2]], components=["Ez", "Hy"], reduce_volume=False)],
    )
    S["pml_all7_dipole_alldet"] = dict(
        T=6, shape=[7, 7, 7], faces=_faces(KINDS), pml=2, eps=_EPS, mu=_MU,
        sources=[dict(kind="dipole", box=[[3, 4], [3, 4], [3, 4]], polarization=2, wave=_W)],
        detectors=[
            dict(kind="field", box=[[2, 3], [3, 4], [4, 5]], components=["Ex", "Ez", "Hy"], reduce_volume=False),
            dict(kind="energy", box=[[2, 5], [2, 5], [2, 5]], reduce_volume=True),
            dict(kind="poynting", box=[[2, 5], [2, 5], [4, 5]], direction="+"),
            dict(kind="phasor", box=[[4, 5], [3, 4], [2, 3]], components=["Ez", "Hx"], wave_characters=[_W]),
        ],
    )
    S["pmlx_periodic_plane_T8"] = dict(
        T=8, shape=[8, 3, 3], faces=_faces(["min_x", "max_x"], _per("y", "z")), pml=2, eps=_EPS, mu=_MU,
        sources=[dict(kind="plane", box=[[3, 4], [0, 3], [0, 3]], direction="+", fixed_E_polarization_vector=[0, 1, 0], wave=_W)],
        detectors=[
            dict(kind="poynting", box=[[5, 6], [0, 3], [0, 3]], direction="+"),
            dict(kind="phasor", box=[[4, 5], [1, 2], [1, 2]], components=["Ey", "Hz"], wave_characters=[_W]),
            dict(kind="field", box=[[2, 3], [1, 2], [1, 2]], components=["Ey"], reduce_volume=True),
        ],
    )
    S["walls_mdipole_diag_energy"] = dict(
        T=7, shape=[3, 4, 3], faces={"min_x": "pec", "max_x": "pmc", "min_z": "pmc", "max_z": "pec", **_per("y")},
        eps={"tier": "diag", "pat": "distinct"}, mu={"tier": "diag", "pat": "seed", "lo": 1.0, "hi": 2.0},
        sources=[dict(kind="dipole", box=[[1, 2], [2, 3], [1, 2]], polarization=1, source_type="magnetic", wave=_W)],
        detectors=[dict(kind="energy", box=[[0, 3], [0, 2], [0, 3]], reduce_volume=True), dict(kind="field", box=[[1, 2], [0, 1], [1, 2]], components=["Hy", "Ex"], reduce_volume=False)],
    )
    S["pml_maxz3_dipole"] = dict(
        T=7, shape=[3, 3, 7], faces=_faces(["max_z"], _per("x", "y")), pml=3, eps={"tier": "iso", "pat": "seed"}, mu=_MU,
        # gated source (every second step): its on-index differs from the time step, so the reverse pass must use the same mapping
        sources=[dict(kind="dipole", box=[[1, 2], [1, 2], [2, 3]], polarization=0, wave=_W, switch=dict(interval=2))],
        detectors=[dict(kind="field", box=[[1, 2], [1, 2], [3, 4]], components=["Ex", "Hy"], reduce_volume=False), dict(kind="energy", box=[[0, 3], [0, 3], [0, 4]], reduce_volume=True)],
    )
    # --- conductive media: only r = T-1 is claimed
    S["sigma_open_dipole"] = dict(
        T=6, shape=[3, 3, 4], faces={}, eps=_EPS, mu=_MU, sig_e={"tier": "iso", "pat": "some"}, conductive=True,
        sources=[dict(kind="dipole", box=[[1, 2], [1, 2], [1, 2]], polarization=2, wave=_W)],
        detectors=[dict(kind="field", box=[[1, 2], [1, 2], [2, 3]], components=["Ez", "Hx"], reduce_volume=False), dict(kind="energy", box=[[0, 3], [0, 3], [0, 4]], reduce_volume=True)],
    )
    S["sigma_pmlx_dipole"] = dict(
        T=6, shape=[7, 3, 3], faces=_faces(["min_x", "max_x"], _per("y", "z")), pml=2, eps=_EPS, mu=_MU, sig_e={"tier": "diag", "pat": "distinct"}, conductive=True,
        sources=[dict(kind="dipole", box=[[3, 4], [1, 2], [1, 2]], polarization=1, wave=_W)],
        detectors=[dict(kind="field", box=[[2, 3], [1, 2], [1, 2]], components=["Ey", "Hz"], reduce_volume=False), dict(kind="poynting", box=[[4, 5], [0, 3], [0, 3]], direction="+")],
    )
    return S


QUICK = [
    "open3_dipole_field", "pml_minx_dipole_field", "pml_all7_dipole_alldet", "pmlx_periodic_plane_T8",
    "walls_mdipole_diag_energy", "pml_maxz3_dipole", "sigma_open_dipole", "sigma_pmlx_dipole",
]


def _thorough_specs():
    """Thorough menu = quick menu + systematic PML subsets x thickness x source kinds (all with Field+Energy detectors)."""
    S = _scene_specs()
    subsets = {
        "x": ["min_x", "max_x"], "xy": ["min_x", "max_x", "min_y", "max_y"], "xyz": list(KINDS),
        "minx": ["min_x"], "maxx": ["max_x"], "miny": ["min_y"], "maxy": ["max_y"], "minz": ["min_z"], "maxz": ["max_z"],
    }
    srcs = {
        "dipE0": dict(kind="dipole", polarization=0, wave=_W),
        "dipE1": dict(kind="dipole", polarization=1, wave=_W),
        "dipM2": dict(kind="dipole", polarization=2, source_type="magnetic", wave=_W),
        "dipE2sw": dict(kind="dipole", polarization=2, wave=_W, switch=dict(interval=3)),
    }
    k = 0
    for sname, sub in subsets.items():
        for thick in (2, 3):
            shape, lo = [], []
            for a in "xyz":
                n_lo = thick if f"min_{a}" in sub else 0
                n_hi = thick if f"max_{a}" in sub else 0
                shape.append(3 + n_lo + n_hi)
                lo.append(n_lo)
            srcname = list(srcs)[k % 4]
            k += 1
            c = [lo[0] + 1, lo[1] + 1, lo[2] + 1]
            others = {}
            for a in "xyz":
                if f"min_{a}" not in sub and f"max_{a}" not in sub:
                    others.update(_per(a) if (k + "xyz".index(a)) % 2 == 0 else {})
            S[f"pml_{sname}_t{thick}_{srcname}"] = dict(
                T=6 if thick == 2 else 8, shape=shape, faces=_faces(sub, others), pml=thick,
                eps={"tier": "iso", "pat": "distinct" if k % 2 else "seed"}, mu=_MU,
                sources=[dict(srcs[srcname], box=[[c[0], c[0] + 1], [c[1], c[1] + 1], [c[2], c[2] + 1]])],
                detectors=[
                    dict(kind="field", box=[[lo[0], lo[0] + 1], [lo[1] + 1, lo[1] + 2], [lo[2] + 2, lo[2] + 3]], components=["Ex", "Ey", "Ez", "Hx", "Hy", "Hz"], reduce_volume=False),
                    dict(kind="energy", box=[[lo[0], lo[0] + 3], [lo[1], lo[1] + 3], [lo[2], lo[2] + 3]], reduce_volume=True),
                ],
            )
    # plane sources in both directions against one-sided / two-sided PML
    for d, nm in (("+", "p"), ("-", "m")):
        S[f"pmlz_plane_{nm}"] = dict(
            T=8, shape=[3, 3, 9], faces=_faces(["min_z", "max_z"], _per("x", "y")), pml=2, eps=_EPS, mu=_MU,
            sources=[dict(kind="plane", box=[[0, 3], [0, 3], [4, 5]], direction=d, fixed_E_polarization_vector=[1, 0, 0], wave=_W)],
            detectors=[dict(kind="poynting", box=[[0, 3], [0, 3], [5, 6] if d == "+" else [3, 4]], direction=d), dict(kind="phasor", box=[[1, 2], [1, 2], [2, 3]], components=["Ex", "Hy"], wave_characters=[_W])],
        )
    return S


def _menu(tier):
    if tier == "quick":
        S = _scene_specs()
        return [(n, S[n]) for n in QUICK]
    S = _thorough_specs()
    return list(S.items())


def cases(tier, seed):
    out = []
    for name, sp in _menu(tier):
        T = sp["T"]
        rs = [T - 1] if sp.get("conductive") else list(range(T))
        for i, r in enumerate(rs):
            out.append(dict(scene=name, tier=tier, r=r, fd=(i == 0), seed=seed))
    return out


def bounds(tier, seed):
    m = _menu(tier)
    return {
        "scenes": [n for n, _ in m],
        "T_per_scene": {n: s["T"] for n, s in m},
        "reversible_checkpoints": "every r in 0..T-1 (conductive scenes: r=T-1 only, as stated)",
        "cotangents": "every basis vector of every detector output (real and imaginary parts)",
        "cells": "all cells outside every PML slab, all components of inv_permittivities and inv_permeabilities",
        "finite_differences": "3 cells x (inv_eps, inv_mu) per scene, central, relative step 1e-5",
        "tolerance": TOL,
        "tolerance_fd": TOL_FD,
        "seed": seed,
    }


# ------------------------------------------------------------------------------------------------------------
def _spec(case, gradient):
    S = _scene_specs() if case.get("tier", "quick") == "quick" else _thorough_specs()
    sp = dict(S[case["scene"]])
    sp["steps"] = sp.pop("T")
    sp.pop("conductive", None)
    sp["seed"] = case.get("seed", 0)
    sp["gradient"] = gradient
    return sp


def _outputs(arrs):
    import jax.numpy as jnp

    parts, names = [], []
    for name in sorted(arrs.detector_states):
        for k in sorted(arrs.detector_states[name]):
            v = arrs.detector_states[name][k]
            if jnp.iscomplexobj(v):
                parts += [jnp.real(v).ravel(), jnp.imag(v).ravel()]
                names += [(name, v.size), (name, v.size)]
            else:
                parts.append(v.ravel())
                names.append((name, v.size))
    return jnp.concatenate(parts), names


def _fn(sc):
    import jax

    fdtdx = __import__("fdtdx")

    def f(ie, im):
        a = sc.arrays.aset("inv_permittivities", ie).aset("inv_permeabilities", im)
        _, out = fdtdx.run_fdtd(a, sc.objects, sc.config, jax.random.PRNGKey(0), show_progress=False)
        return _outputs(out)[0]

    return f


def _jacobian(sc):
    import jax
    import jax.numpy as jnp
    import numpy as np

    f = _fn(sc)

    @jax.jit
    def J(ie, im):
        y, vjp = jax.vjp(f, ie, im)
        return y, jax.vmap(vjp)(jnp.eye(y.shape[0], dtype=y.dtype))

    y, (Je, Jm) = J(sc.arrays.inv_permittivities, sc.arrays.inv_permeabilities)
    return np.asarray(y), np.asarray(Je), np.asarray(Jm)


def _masks(sc):
    """interior = outside every PML slab; adjacent = interior cells with a 6-neighbour inside a PML slab."""
    import numpy as np

    fdtdx = __import__("fdtdx")
    shape = tuple(sc.objects.volume.grid_shape)
    inpml = np.zeros(shape, dtype=bool)
    for b in sc.objects.boundary_objects:
        if isinstance(b, fdtdx.PerfectlyMatchedLayer):
            inpml[tuple(b.grid_slice)] = True
    near = np.zeros(shape, dtype=bool)
    for a in range(3):
        for sh in (1, -1):
            r = np.roll(inpml, sh, axis=a)
            idx = [slice(None)] * 3
            idx[a] = 0 if sh == 1 else -1
            r[tuple(idx)] = False
            near |= r
    interior = ~inpml
    return interior, interior & near, inpml.any()


def run_case(case):
    import jax
    import jax.numpy as jnp
    import numpy as np

    from mc import scenes

    S = _scene_specs() if case.get("tier", "quick") == "quick" else _thorough_specs()
    T = S[case["scene"]]["T"]
    r = case["r"]
    sc_c = scenes.build(_spec(case, {"method": "checkpointed", "num_checkpoints": max(1, T // 2)}))
    sc_r = scenes.build(_spec(case, {"method": "reversible", "ckpt_rev": r, "recorder": []}))
    y0, Je0, Jm0 = _jacobian(sc_c)
    y1, Je1, Jm1 = _jacobian(sc_r)
    n_out = y0.shape[0]
    evals = 2 * n_out
    interior, adjacent, has_pml = _masks(sc_c)
    fails, detail = [], {"outputs": int(n_out), "T": T, "r": r}

    yscale = float(np.max(np.abs(y0))) or 1.0
    dy = float(np.max(np.abs(y1 - y0))) / yscale
    if dy > 1e-12:
        fails.append(dict(sig="primal-outputs-differ", detail=dict(rel=dy)))

    worst = {}
    for nm, J0, J1 in (("inv_eps", Je0, Je1), ("inv_mu", Jm0, Jm1)):
        scale = float(np.max(np.abs(J0[..., interior]))) if J0.ndim == 5 else 0.0
        detail[f"scale_{nm}"] = scale
        if not (np.all(np.isfinite(J0)) and np.all(np.isfinite(J1))):
            fails.append(dict(sig=f"non-finite-jacobian:{nm}", detail={}))
            continue
        D = np.abs(J1 - J0)
        d_int = D[..., interior]
        rel = float(np.max(d_int)) / scale if scale > 0 else float(np.max(d_int))
        worst[nm] = rel
        detail[f"rel_{nm}"] = rel
        if rel > TOL:
            # classify the failing input class: where do the two Jacobians differ?
            bad_cells = (D > TOL * scale).any(axis=(0, 1)) & interior
            only_adjacent = bool(np.all(~bad_cells | adjacent))
            o, c, x, yv, z = np.unravel_index(int(np.argmax(np.where(interior[None, None], D, 0.0))), D.shape)
            where = "no-pml" if not has_pml else ("cells-adjacent-to-pml-only" if only_adjacent else "interior-beyond-pml-adjacent-layer")
            fails.append(
                dict(
                    sig=f"reversible-vs-checkpointed:{nm}:{where}",
                    detail=dict(rel=rel, abs=float(D[o, c, x, yv, z]), scale=scale, output=int(o), cell=[int(c), int(x), int(yv), int(z)], n_bad_cells=int(bad_cells.sum()),
                                reversible=float(J1[o, c, x, yv, z]), checkpointed=float(J0[o, c, x, yv, z]), r=r, T=T),
                )
            )

    # ---- non-triviality (measured)
    names = _outputs(sc_c.arrays)[1]
    nt = all(float(np.max(np.abs(J[..., interior]))) > 0 for J in (Je0, Jm0))
    off = 0
    for _, size in names:
        blk = np.abs(Je0[off : off + size])
        nt = nt and float(np.max(blk[..., interior])) > 0
        off += size
    if has_pml:
        nt = nt and float(np.max(np.abs(Je0[..., adjacent]))) > 0
    detail["adjacent_cells"] = int(adjacent.sum())

    # ---- finite-difference cross-check of the reference Jacobian (once per scene)
    if case.get("fd"):
        f = jax.jit(jax.vmap(_fn(sc_c)))
        ie, im = sc_c.arrays.inv_permittivities, sc_c.arrays.inv_permeabilities
        cells = _fd_cells(sc_c, interior, adjacent, Je0)
        ies, ims, meta = [], [], []
        for which, A in (("inv_eps", ie), ("inv_mu", im)):
            for idx in cells:
                idx = (min(idx[0], A.shape[0] - 1), *idx[1:])
                h = 1e-5 * float(abs(A[idx]))
                for sgn in (1, -1):
                    ies.append(ie.at[idx].add(sgn * h) if which == "inv_eps" else ie)
                    ims.append(im.at[idx].add(sgn * h) if which == "inv_mu" else im)
                meta.append((which, idx, h))
        Y = np.asarray(f(jnp.stack(ies), jnp.stack(ims)))
        evals += len(ies)
        fd_worst = 0.0
        for j, (which, idx, h) in enumerate(meta):
            fd = (Y[2 * j] - Y[2 * j + 1]) / (2 * h)
            J0 = Je0 if which == "inv_eps" else Jm0
            ad = J0[(slice(None), *idx)]
            scale = float(np.max(np.abs(J0[..., interior])))
            rel = float(np.max(np.abs(fd - ad))) / scale
            fd_worst = max(fd_worst, rel)
            if rel > TOL_FD:
                fails.append(dict(sig=f"checkpointed-vs-finite-difference:{which}", detail=dict(rel=rel, cell=[int(i) for i in idx], h=h)))
        detail["fd_rel"] = fd_worst
        detail["fd_cells"] = [[int(i) for i in c] for c in cells]
    return dict(
        ok=not fails,
        failures=fails,
        detail=detail,
        evals=evals,
        nontrivial=int(bool(nt)),
        outcome=("agree" if not fails else "disagree") + (":pml" if has_pml else ":no-pml"),
    )


def _fd_cells(sc, interior, adjacent, Je0):
    """Three interior cells: the one with the largest reference gradient, one adjacent to a PML (or the last interior cell), one other with non-zero gradient."""
    import numpy as np

    mag = np.max(np.abs(Je0), axis=0)  # (nc, x, y, z)
    cells = []
    # fdtdx wraps the TFSF plane-source injection term (which contains inv_eps / inv_mu of the source plane) in
    # jax.lax.stop_gradient on purpose (objects/sources/tfsf.py), so *every* autodiff method omits that dependence and a
    # finite difference of the forward run cannot agree there. The cross-check is therefore taken outside plane-source boxes.
    fdtdx = __import__("fdtdx")
    free = np.ones(interior.shape, dtype=bool)
    for src in sc.objects.sources:
        if not isinstance(src, fdtdx.PointDipoleSource):
            free[tuple(src.grid_slice)] = False
    interior = interior & free
    adjacent = adjacent & free

    def pick(mask):
        m = np.where(mask[None], mag, -1.0)
        for c in cells:
            m[c] = -1.0
        i = np.unravel_index(int(np.argmax(m)), m.shape)
        return tuple(int(v) for v in i)

    cells.append(pick(interior))
    cells.append(pick(adjacent if adjacent.any() else interior))
    cells.append(pick(interior))
    return cells
