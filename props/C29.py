"""C29 — after apply_params every source/detector that intersects a device carries the state it would get from being set
up against the post-device materials.

Engine E2 over Allen relations: the device box is [2,6)^3 on an 8^3 grid; the object box ranges over all 13 interval
relations per axis (13^3 = 2197 box relations for boxes of arbitrary size; the 7 relations realisable with thickness 1 on
the thin axis of plane sources / for single-cell dipoles).  Scene = non-trivial static background + continuous (or
discrete) device with an all-distinct parameter pattern + objects; the real place_objects / apply_params run, then every
object's private state is compared with `obj.apply(post-device arrays)` (the statement's definition) and, for dipoles,
with the slice of the post-device arrays directly (numpy).
"""
import itertools

ID = "C29"
LEVEL = "exploration"
MANIFEST = {
    "engine": "E2-enum",
    "technique": "bounded exhaustive enumeration of all 13^3 Allen interval relations between device box and object box x object kinds, state compared with a fresh set-up against the post-device arrays",
    "text": "For every one of the 13x13x13 interval relations between a device box and an object box (multi-cell dipole boxes and field/energy detectors: all 2197; single-cell dipoles: all 7^3 realisable; plane sources: 3 propagation axes x 7 thin-axis relations x 13^2), the scene is placed, an all-distinct parameter set is applied with apply_params, and the private state of every source/detector must equal the state produced by applying the object to the post-device material arrays; dipole states are additionally compared with the post-device array slices directly.",
    "note": "Material and parameter values are finite patterns (all-distinct device parameters, non-trivial static background). Mode sources/detectors (external mode solver) are excluded. Field/energy detectors carry no material-dependent state, so they are trivially satisfied and only counted.",
}
RULE = (
    "case = (object kind, device kind, relation on two axes); the 13 (or 7) relations of the third axis are the elements, placed together "
    "in one scene. An element is non-trivial when the object box shares at least one cell with the device and the object kind keeps "
    "material-dependent state (sources); distinct = distinct (kind, device kind, relation triple)."
)
ASSUMPTIONS = [
    "device box fixed at [2,6)^3 in an 8^3 uniform grid; every Allen relation is realised by one representative object interval",
    "device parameters: all-distinct pattern (continuous) / all material indices (discrete); background: vacuum + one eps=2.25 slab",
    "mode sources / mode-overlap detectors are excluded (external solver)",
]
N = 8
DEV = (2, 6)
REL = {
    "before": (0, 1),
    "meets": (0, 2),
    "overlaps": (1, 3),
    "starts": (2, 3),
    "during": (3, 5),
    "finishes": (5, 6),
    "equals": (2, 6),
    "finished-by": (1, 6),
    "contains": (1, 7),
    "started-by": (2, 7),
    "overlapped-by": (5, 7),
    "met-by": (6, 8),
    "after": (7, 8),
}
REL1 = {"before": (0, 1), "meets": (1, 2), "starts": (2, 3), "during": (3, 4), "finishes": (5, 6), "met-by": (6, 7), "after": (7, 8)}
ORDER = ["during", "equals", "starts", "finishes", "overlaps", "overlapped-by", "contains", "started-by", "finished-by", "meets", "met-by", "before", "after"]
ORDER1 = [r for r in ORDER if r in REL1]
TOL = 1e-12


def _allen(o, d):
    """Name of the Allen relation of object interval o w.r.t. device interval d (independent re-derivation, used as a self-check)."""
    (a, b), (c, e) = o, d
    if b < c:
        return "before"
    if b == c:
        return "meets"
    if a > e:
        return "after"
    if a == e:
        return "met-by"
    if a == c and b == e:
        return "equals"
    if a == c:
        return "starts" if b < e else "started-by"
    if b == e:
        return "finishes" if a > c else "finished-by"
    if a < c and b > e:
        return "contains"
    if a > c and b < e:
        return "during"
    return "overlaps" if a < c else "overlapped-by"


for _k, _v in list(REL.items()) + list(REL1.items()):
    assert _allen(_v, DEV) == _k, (_k, _v)


def cases(tier, seed):
    out = []
    devs = ["continuous"] if tier == "quick" else ["continuous", "discrete", "etched"]
    for dev in devs:
        for rx in ORDER1:
            for ry in ORDER1:
                out.append(dict(kind="dipole_cell", dev=dev, rel=[rx, ry], seed=seed))
    for dev in devs:
        for rx in ORDER:
            for ry in ORDER:
                out.append(dict(kind="dipole_box", dev=dev, rel=[rx, ry], seed=seed))
    for dev in devs[:2]:
        for p in range(3):
            for rp in ORDER1:
                for rt in ORDER:
                    out.append(dict(kind="plane", dev=dev, p=p, rel=[rp, rt], seed=seed))
    for rx in ORDER:
        for ry in ORDER:
            out.append(dict(kind="detector", dev="continuous", rel=[rx, ry], seed=seed))
    return out


def bounds(tier, seed):
    return {
        "grid": [N, N, N],
        "device_box": [list(DEV)] * 3,
        "relations_per_axis": sorted(REL),
        "thin_axis_relations": sorted(REL1),
        "object_kinds": {"dipole_cell": "7^3", "dipole_box": "13^3", "plane": "3 axes x 7 x 13^2", "detector(field+energy)": "13^3"},
        "device_kinds": ["continuous"] if tier == "quick" else ["continuous", "discrete (3 materials, ClosestIndex)", "etched"],
        "seed": seed,
    }


def _elements(case):
    """[(relation triple, box)] of the case."""
    k = case["kind"]
    out = []
    if k == "dipole_cell":
        for rz in ORDER1:
            rel = case["rel"] + [rz]
            out.append((rel, [REL1[r] for r in rel]))
    elif k in ("dipole_box", "detector"):
        for rz in ORDER:
            rel = case["rel"] + [rz]
            out.append((rel, [REL[r] for r in rel]))
    else:
        p = case["p"]
        t1, t2 = [a for a in range(3) if a != p]
        for r2 in ORDER:
            rel = [None] * 3
            rel[p], rel[t1], rel[t2] = case["rel"][0], case["rel"][1], r2
            box = [None] * 3
            box[p], box[t1], box[t2] = REL1[rel[p]], REL[rel[t1]], REL[rel[t2]]
            out.append((rel, box))
    return out


def _device(fdtdx, dev, seed):
    import numpy as np

    M = fdtdx.Material
    if dev == "continuous":
        d = fdtdx.Device(name="dev", materials={"lo": M(permittivity=4.0), "hi": M(permittivity=9.0)}, param_transforms=[], partial_voxel_grid_shape=(1, 1, 1))
    elif dev == "etched":
        d = fdtdx.Device(name="dev", materials={"air": M(permittivity=1.0)}, param_transforms=[], partial_voxel_grid_shape=(1, 1, 1), use_etching=True)
    else:
        d = fdtdx.Device(
            name="dev", materials={"a": M(permittivity=3.0), "b": M(permittivity=5.0), "c": M(permittivity=8.0)}, param_transforms=[fdtdx.ClosestIndex()], partial_voxel_grid_shape=(1, 1, 1)
        )
    n = DEV[1] - DEV[0]
    k = np.arange(n**3, dtype=np.float64)
    p = np.mod(0.137 + (k + seed) * 0.6180339887498949, 1.0).reshape(n, n, n)
    if dev == "discrete":
        p = p * 2.0
    return d, p


def _state(o):
    """Private, material-dependent state of an object: {field: numpy array | repr}."""
    import numpy as np

    out = {}
    for k, v in vars(o).items():
        if not k.startswith("_") or k in ("_config", "_grid_slice_tuple", "_unreduced_grid_slice_tuple"):
            continue
        if hasattr(v, "shape") and hasattr(v, "dtype"):
            out[k] = np.asarray(v)
        elif isinstance(v, (int, float, complex)):
            out[k] = np.asarray(v)
        else:
            out[k] = repr(v)[:80]
    return out


def _diff(a, b):
    import numpy as np

    bad = []
    for k in sorted(set(a) | set(b)):
        x, y = a.get(k), b.get(k)
        if isinstance(x, np.ndarray) and isinstance(y, np.ndarray):
            if x.shape != y.shape:
                bad.append((k, "shape", x.shape, y.shape))
            elif x.dtype == np.bool_ or y.dtype == np.bool_ or not np.issubdtype(x.dtype, np.number):
                if not np.array_equal(x, y):
                    bad.append((k, "value", "non-numeric arrays differ"))
            elif np.array_equal(x, y, equal_nan=True):
                pass  # identical including NaN positions (degenerate 1-cell-wide plane profiles are NaN on both sides)
            else:
                sc = max(1e-300, float(np.max(np.abs(y))) if y.size else 1.0)
                e = float(np.max(np.abs(x - y))) / sc if x.size else 0.0
                if not e <= TOL:
                    bad.append((k, "value", e))
        elif isinstance(x, np.ndarray) != isinstance(y, np.ndarray):
            bad.append((k, "unset" if not isinstance(x, np.ndarray) else "unexpectedly-set", str(x)[:40], str(y)[:40]))
        elif x != y:
            bad.append((k, "repr", x, y))
    return bad


def _scene(case, elements):
    import jax.numpy as jnp

    from mc import guard, scenes

    fdtdx = guard.import_fdtdx()
    dev, params = _device(fdtdx, case["dev"], case["seed"])
    dcons = [dev.set_grid_coordinates(axes=(0, 1, 2), sides=("-", "-", "-"), coordinates=(DEV[0],) * 3), dev.set_grid_coordinates(axes=(0, 1, 2), sides=("+", "+", "+"), coordinates=(DEV[1],) * 3)]
    slab = fdtdx.UniformMaterialObject(name="slab", material=fdtdx.Material(permittivity=2.25), placement_order=-5)
    scons = [slab.set_grid_coordinates(axes=(0, 1, 2), sides=("-", "-", "-"), coordinates=(0, 0, 3)), slab.set_grid_coordinates(axes=(0, 1, 2), sides=("+", "+", "+"), coordinates=(N, N, N))]
    wave = {"wavelength": 1.0e-6}
    sources, detectors = [], []
    for i, (rel, box) in enumerate(elements):
        b = [list(x) for x in box]
        if case["kind"] in ("dipole_cell", "dipole_box"):
            sources.append(dict(kind="dipole", name=f"e{i}", box=b, polarization=i % 3, wave=wave, source_type=("magnetic" if i % 5 == 4 else "electric")))
        elif case["kind"] == "plane":
            pol = [0, 0, 0]
            pol[(case["p"] + 1) % 3] = 1
            sources.append(dict(kind="plane", name=f"e{i}", box=b, direction=("+" if i % 2 == 0 else "-"), fixed_E_polarization_vector=pol, wave=wave))
        else:
            detectors.append(dict(kind=("field" if i % 2 == 0 else "energy"), name=f"e{i}", box=b))
    spec = dict(shape=[N, N, N], steps=4, sources=sources, detectors=detectors, _extra_objects=[(slab, scons), (dev, dcons)], seed=case["seed"])
    sc = scenes.build(spec)
    return fdtdx, sc, jnp.asarray(params, dtype=jnp.float32)


def _apply_ref(o, arrays, key):
    import jax

    return o.apply(
        key=key,
        inv_permittivities=jax.lax.stop_gradient(arrays.inv_permittivities),
        inv_permeabilities=jax.lax.stop_gradient(arrays.inv_permeabilities),
        dispersive_c1=arrays.dispersive_c1,
        dispersive_c2=arrays.dispersive_c2,
        dispersive_c3=arrays.dispersive_c3,
        dispersive_c4=arrays.dispersive_c4,
        electric_conductivity=arrays.electric_conductivity,
    )


def _check(case, elements, minimal=False):
    import jax
    import numpy as np

    fdtdx, sc, params = _scene(case, elements)
    pre = np.asarray(sc.arrays.inv_permittivities)
    arrays2, oc2, _info = fdtdx.apply_params(sc.arrays, sc.objects, {"dev": params}, key=jax.random.PRNGKey(3))
    post = np.asarray(arrays2.inv_permittivities)
    dsl = (slice(None),) + (slice(*DEV),) * 3
    fails = []
    if float(np.max(np.abs(post[dsl] - pre[dsl]))) == 0.0:
        raise RuntimeError("harness: device did not change the materials")
    res = []
    for i, (rel, box) in enumerate(elements):
        o = oc2[f"e{i}"]
        if [list(x) for x in o.grid_slice_tuple] != [list(b) for b in box]:
            raise RuntimeError("harness: object not placed where requested")
        inter = all(max(b[0], DEV[0]) < min(b[1], DEV[1]) for b in box)
        ref = _apply_ref(o, arrays2, jax.random.PRNGKey(11))
        bad = _diff(_state(o), _state(ref))
        if case["kind"].startswith("dipole") and not bad:
            want = post[(slice(None),) + tuple(slice(*b) for b in box)]
            got = np.asarray(o._inv_eps_local) if hasattr(o._inv_eps_local, "shape") else None
            if got is None or got.shape != want.shape or float(np.max(np.abs(got - want))) > TOL:
                bad = [("_inv_eps_local", "differs-from-post-device-array-slice")]
        res.append((rel, box, inter, bad))
    return res


def run_case(case):
    elements = _elements(case)
    res = _check(case, elements)
    fails = []
    nontriv = 0
    stateful = case["kind"] != "detector"
    outcome = {}
    for rel, box, inter, bad in res:
        key = ("intersects" if inter else "disjoint") + ("" if stateful else "-stateless")
        outcome[key] = outcome.get(key, 0) + 1
        nontriv += int(inter and stateful)
        if bad:
            kind = "dipole" if case["kind"].startswith("dipole") else case["kind"]
            cls = "/".join(sorted(rel))
            where = "intersecting" if inter else "non-intersecting"
            # shrink: the same element alone in a fresh scene
            alone = _check(case, [(rel, box)])[0][3]
            fails.append(
                dict(
                    sig=f"{kind}:stale-state-after-apply_params:{where}:{cls}",
                    detail=dict(kind=case["kind"], device=case["dev"], relation_xyz=rel, object_box=[list(b) for b in box], device_box=[list(DEV)] * 3, fields=[list(map(str, b)) for b in bad][:4], reproduces_alone=bool(alone)),
                )
            )
    return dict(ok=not fails, failures=fails, nontrivial=nontriv, evals=len(elements), outcome=outcome, detail=outcome)
