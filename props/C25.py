"""C25 — brush-constrained designs are unions of brush placements.

Bounded exhaustive enumeration (engine E2): **all sign patterns** on 3x3, 3x4, 4x3, 2x4 and 4x4 designs (thorough: 5x5
with <= 2 sign changes per row) x magnitude masks (all-distinct mask and its dihedral images, all-equal magnitudes =
every tie, VERIF_SEED mask) x circular brushes of diameter {1,2,3} (pixel, plus, 3x3) (thorough: 5) x position of the
singleton axis x background choice are pushed through the real `BrushConstraint2D.__call__` (initialised like
`Device.place_on_grid` does) in jax.vmap batches.  Oracle (numpy, from the statement): the output is binary, keeps the
shape, and both the solid and the void region equal the union of all brush footprints (centre anywhere, clipped to the
domain) whose in-domain part lies inside the region.  Termination: the `while_loop` primitive used by the generator is
wrapped with a step horizon (cells + 2 placements); a design that exhausts it is reported as non-terminating instead of
hanging the checker (the step count and the loop condition at exit are read back for every design).
"""
import itertools

import numpy as np

ID = "C25"
LEVEL = "exploration"
MANIFEST = {
    "engine": "E2-enum",
    "technique": "bounded exhaustive enumeration of all sign patterns on designs <= 4x4 (5x5 with <= 2 sign changes per row in the thorough tier) x magnitude masks x brushes against a morphological-opening reference model (union of in-domain-clipped brush footprints) with a step horizon on the generator loop",
    "text": "Every sign pattern of every small design, combined with all-distinct, tied and seed magnitude masks, circular brushes of diameter 1-3(5), every singleton-axis position and both background choices, is run through the real BrushConstraint2D; the output must be binary and both its solid and its void region must equal their opening by the brush (footprints clipped to the domain), and the generator loop must stop within cells+2 placements.",
    "note": "The verdict uses the literal reading (footprint centres may lie outside the domain as long as the in-domain part is non-empty); the stronger form with centres inside the domain is reported as an observed outcome only.",
}
RULE = (
    "case = (design shape, singleton position, brush diameter, magnitude mask, background, range of sign patterns); one evaluation per sign "
    "pattern (design = sign * magnitude). A design is non-trivial when its own thresholded sign pattern is not brush-feasible (solid or void "
    "region differs from its opening), i.e. the generator cannot simply return the thresholded input."
)
ASSUMPTIONS = [
    "jax.vmap over a batch evaluates the same Python code as a plain call (three plain calls per case are compared bit-for-bit)",
    "magnitudes come from finite masks (all-distinct + dihedral images, all-equal, VERIF_SEED); signs are enumerated completely",
    "the generator's while_loop is wrapped with a horizon of cells+2 steps (every step places at least one new touch and a pixel can carry at most one touch); identical semantics when the loop terminates earlier",
]
CHUNK = 1 << 14


def _masks(tier, seed):
    m = ["distinct", "distinct:rot90", "distinct:flip", "unit", "seed"]
    if tier == "thorough":
        m = ["distinct"] + [f"distinct:d{k}" for k in range(1, 6)] + ["unit", "seed"]
    return m


def cases(tier, seed):
    out = []
    shapes = [(3, 3), (2, 4), (3, 4), (4, 3), (4, 4)]
    for p, q in shapes:
        n = p * q
        for d in (1, 2, 3) + ((5,) if tier == "thorough" else ()):
            for mi, mask in enumerate(_masks(tier, seed)):
                for pos in (0, 1, 2):
                    for bg in ("low", "high"):
                        if tier == "quick" and not ((pos == 2 and bg == "low") or (mask == "distinct" and (pos, bg) in ((0, "high"), (1, "low")))):
                            continue
                        if tier == "quick" and (p, q) == (2, 4) and mask != "distinct":
                            continue
                        for lo in range(0, 1 << n, CHUNK * 2):
                            out.append(dict(p=p, q=q, d=d, mask=mask, pos=pos, bg=bg, lo=lo, hi=min(1 << n, lo + CHUNK * 2), rows=None, seed=seed))
    # coarse designs: every sign pattern of a coarse cp x cq grid, upsampled to blocks -> larger designs where a diameter-5 brush
    # has room to interact with previously painted solid (the only regime in which void touches can overlap solid)
    coarse = [((3, 3), (3, 3), 5), ((3, 4), (3, 3), 5), ((3, 4), (3, 3), 3)] + ([((4, 4), (3, 3), 5), ((3, 3), (4, 3), 5)] if tier == "thorough" else [])
    for (cp, cq), (up, uq), d in coarse:
        masks = ("distinct", "seed") + (("unit",) if tier == "thorough" else ())
        if cp * cq > 12:
            masks = ("distinct",)  # 2^16 coarse patterns: one mask keeps the thorough tier within budget
        for mask in masks:
            nb = cp * cq
            for lo in range(0, 1 << nb, 512):
                out.append(dict(p=cp * up, q=cq * uq, d=d, mask=mask, pos=2, bg="low", lo=lo, hi=min(1 << nb, lo + 512), rows=None, coarse=[cp, cq], seed=seed))
    if tier == "thorough":
        for d in (1, 2, 3, 5):
            for mask in ("distinct", "unit", "seed"):
                for first in range(22):  # chunk by the first row pattern
                    out.append(dict(p=5, q=5, d=d, mask=mask, pos=2, bg="low", lo=first, hi=first + 1, rows="<=2-sign-changes", seed=seed))
    out.sort(key=lambda c: (c["p"] * c["q"], c["lo"]))
    return out


def bounds(tier, seed):
    return {
        "coarse_designs": "all sign patterns of 3x3 and 3x4 coarse grids upsampled 3x3 (9x9, 9x12 designs) with brush diameters 5 and 3",
        "designs": "all sign patterns on 3x3, 2x4, 3x4, 4x3, 4x4" + ("; 5x5 with <= 2 sign changes per row (22^5 patterns)" if tier == "thorough" else ""),
        "magnitude_masks": _masks(tier, seed),
        "brush_diameters": [1, 2, 3] + ([5] if tier == "thorough" else []),
        "singleton_axis_positions": [0, 1, 2],
        "background": ["lowest permittivity (default)", "explicitly the higher-permittivity material"],
        "horizon": "cells + 2 generator steps",
        "seed": seed,
    }


def _magnitude(mask, p, q, seed):
    base = (1.0 + np.arange(p * q).reshape(p, q) * 0.61803398875) / (p * q)
    if mask == "unit":
        return np.ones((p, q))
    if mask == "seed":
        return np.random.default_rng(2500 + seed).uniform(0.05, 1.0, (p, q))
    if mask == "distinct":
        return base
    op = mask.split(":")[1]
    sq = np.random.default_rng(7).permutation(p * q).reshape(p, q) * 0.37 / (p * q) + 0.05  # a second all-distinct mask
    imgs = {"rot90": lambda a: a[::-1, :].T if p == q else a[::-1, ::-1], "flip": lambda a: a[:, ::-1]}
    if op in imgs:
        return imgs[op](base)
    k = int(op[1:])
    a = base if k < 4 else sq
    a = a[::-1, :] if k & 1 else a
    a = a[:, ::-1] if k & 2 else a
    return a


def _row_patterns():
    rows = []
    for bits in itertools.product((0, 1), repeat=5):
        if sum(bits[i] != bits[i + 1] for i in range(4)) <= 2:
            rows.append(bits)
    return rows


# ------------------------------------------------------------------------------------------ reference model
def footprints(p, q, brush, centres_inside):
    """boolean (n_footprints, p*q): in-domain part of the brush placed at every centre (non-empty ones)"""
    s = brush.shape[0]
    r = s // 2
    rng_i = range(p) if centres_inside else range(-r, p + r)
    rng_j = range(q) if centres_inside else range(-r, q + r)
    out = set()
    for ci in rng_i:
        for cj in rng_j:
            f = np.zeros((p, q), dtype=bool)
            for i in range(s):
                for j in range(s):
                    if brush[i, j]:
                        a, b = ci + i - r, cj + j - r
                        if 0 <= a < p and 0 <= b < q:
                            f[a, b] = True
            if f.any():
                out.add(f.tobytes())
    return np.asarray([np.frombuffer(b, dtype=bool) for b in sorted(out)])


def opening(R, F):
    """R: (B, cells) bool, F: (nf, cells). Union of the footprints that fit inside R."""
    cover = np.zeros_like(R)
    for f in F:
        fits = R[:, f].all(axis=1)
        cover |= fits[:, None] & f[None, :]
    return cover


# ------------------------------------------------------------------------------------------ run
class _Horizon:
    """stand-in for `equinox.internal` inside discretization.py: while_loop with a step horizon, last exit state stashed"""

    def __init__(self, H):
        self.H = H
        self.last = None

    def while_loop(self, cond_fun, body_fun, init_val, **kw):
        import jax
        import jax.numpy as jnp

        H = self.H

        def c(s):
            return cond_fun(s[0]) & (s[1] < H)

        def b(s):
            return body_fun(s[0]), s[1] + 1

        out, k = jax.lax.while_loop(c, b, (init_val, jnp.asarray(0)))
        self.last = (k, cond_fun(out))  # concrete only in an un-vmapped eager call
        return out


def run_case(case):
    from mc import guard

    guard.import_fdtdx()
    import jax
    import jax.numpy as jnp
    from fdtdx.objects.device.parameters import discretization as DZ
    from mc.oracles import ptransform as PT

    p, q, d, pos = case["p"], case["q"], case["d"], case["pos"]
    n = p * q
    shape = [p, q]
    shape.insert(pos, 1)
    shape = tuple(shape)
    brush = DZ.circular_brush(diameter=float(d))
    bnp = np.asarray(brush).astype(bool)
    mats = PT.materials([1.0, 2.25], names=["air", "poly"])
    t = PT.make(DZ.BrushConstraint2D(brush=brush, axis=pos, background_material=None if case["bg"] == "low" else "poly"), mats, shape)
    hz = _Horizon(n + 2)
    orig = DZ.eqxi
    DZ.eqxi = hz
    fails, seen = [], set()
    evals = nontriv = 0
    outc = {}

    def fail(sig, detail):
        if sig not in seen:
            seen.add(sig)
            fails.append(dict(sig=sig, detail=dict(detail, design_shape=[p, q], shape=list(shape), brush_diameter=d, brush=bnp.astype(int).tolist(), mask=case["mask"], background=case["bg"])))

    def bump(k, v):
        outc[k] = outc.get(k, 0) + int(v)

    try:
        f = lambda x: t({"params": x})["params"]  # noqa: E731

        def g(x):  # the stash holds tracers of the current vmap trace, so they may be returned from inside it
            o = f(x)
            return o, hz.last[0], hz.last[1]

        fb = jax.vmap(g)
        mag = _magnitude(case["mask"], p, q, case["seed"])
        Fw = footprints(p, q, bnp, centres_inside=False)
        Fs = footprints(p, q, bnp, centres_inside=True)
        if case["rows"]:
            rows = _row_patterns()
            allbits = np.asarray([sum((rows[case["lo"]],) + rest, ()) for rest in itertools.product(rows, repeat=4)], dtype=np.uint8)
            ranges = PT.chunks(len(allbits), CHUNK)
        else:
            allbits = None
            ranges = [(case["lo"] + a, case["lo"] + b) for a, b in PT.chunks(case["hi"] - case["lo"], CHUNK)]
        for ci, (lo, hi) in enumerate(ranges):
            if case.get("coarse"):
                cp, cq = case["coarse"]
                cb = PT.all_binary(cp * cq, lo, hi).reshape(-1, cp, cq)
                bits = np.kron(cb, np.ones((1, p // cp, q // cq), dtype=cb.dtype)).reshape(len(cb), n)
            else:
                bits = allbits[lo:hi] if allbits is not None else PT.all_binary(n, lo, hi)
            sign = bits.astype(np.float64) * 2 - 1
            X = (sign * mag.ravel()[None, :]).reshape((-1, *shape))
            evals += len(X)
            try:
                O, K, STILL = (np.asarray(v) for v in fb(jnp.asarray(X)))
            except ValueError as e:
                thin = min(p, q) < bnp.shape[0] < max(p, q)
                fail("brush:raises-ValueError:axis<brush-size<other-axis" if thin and "smaller than the other" in str(e) else "brush:raises-ValueError:other", dict(error=str(e)[:200]))
                break
            if O.shape != X.shape:
                fail("brush:shape-changed", dict(got=list(O.shape)))
                break
            if not np.isin(O, (0.0, 1.0)).all():
                r = int(np.argmax(~np.isin(O, (0.0, 1.0)).reshape(len(O), -1).all(axis=1)))
                fail("brush:output-not-binary", dict(design=X[r].ravel().tolist(), out=O[r].ravel().tolist()))
                break
            S = O.reshape(len(O), n) == 1
            bump("max-generator-steps", 0)
            outc["max-generator-steps"] = max(outc["max-generator-steps"], int(K.max()))
            if STILL.any():
                r = int(np.argmax(STILL))
                fail(f"brush:did-not-terminate-within-cells+2-steps:d={d}", dict(design=X[r].reshape(p, q).tolist(), out=S[r].reshape(p, q).astype(int).tolist(), steps=int(K[r]), n_bad=int(STILL.sum())))
            thr = bits.astype(bool)
            nt = (opening(thr, Fw) != thr).any(axis=1) | (opening(~thr, Fw) != ~thr).any(axis=1)
            nontriv += int(nt.sum())
            bump("returns-thresholded-input", ((S == thr).all(axis=1) | (S == ~thr).all(axis=1)).sum())
            bump("alters-design", (~((S == thr).all(axis=1) | (S == ~thr).all(axis=1))).sum())
            bad_s = (opening(S, Fw) != S).any(axis=1)
            bad_v = (opening(~S, Fw) != ~S).any(axis=1)
            strong = (opening(S, Fs) != S).any(axis=1) | (opening(~S, Fs) != ~S).any(axis=1)
            bump("needs-a-footprint-centred-outside-the-domain", (strong & ~bad_s & ~bad_v).sum())
            for name, bad in (("solid", bad_s), ("void", bad_v)):
                if bad.any():
                    bad = bad & ~STILL  # non-terminating designs are reported above
                    if not bad.any():
                        continue
                    r = int(np.argmax(bad))
                    fail(f"brush:{name}-region-is-not-a-union-of-brush-footprints:d={d}", dict(design=X[r].reshape(p, q).tolist(), out=S[r].reshape(p, q).astype(int).tolist(), steps=int(K[r]), n_bad=int(bad.sum())))
            if ci == 0:
                for r in sorted({0, len(X) // 3, len(X) - 1}):
                    o1 = np.asarray(f(jnp.asarray(X[r])))
                    evals += 1
                    if not np.array_equal(o1, O[r]) or int(hz.last[0]) != int(K[r]):
                        fail("harness:vmap-differs-from-plain-call", dict(design=X[r].ravel().tolist()))
    finally:
        DZ.eqxi = orig
    return dict(ok=not fails, failures=fails, detail={k: v for k, v in case.items() if k != "seed"}, nontrivial=nontriv, evals=evals, outcome=outc)
