"""C13 — plane sources radiate only in their stated direction.

Engine E4 (scene sweep through the public driver). Finite menu, run exhaustively through `fdtdx.run_fdtd`:

 * UniformPlaneSource at normal incidence in a homogeneous medium, 2x2-cell cross-section periodic on the two transverse
   axes, PML (10 cells) on the propagation axis, PoyntingFluxDetector planes 4 cells behind and 4 cells in front of the
   injection plane: |P_behind| / P_front < 1e-3 for every propagation axis x both directions x transverse polarizations
   {each transverse axis, 30, 45, 60 degrees (+ one seed angle)} x {15, 20} cells per wavelength x {CW, Gaussian pulse} x
   background permittivity {1, 2.25}. CW: flux averaged over the last 4 periods (after the documented 4-period ramp and
   6 more periods); pulse: time-integrated flux.
 * GaussianPlaneSource, radius {0.3, 0.5, 1.0} wavelengths, six directions, 3-D domain with PML (8 cells) on all faces,
   transverse interior of 4 and 6 radii (thorough: also 20 radii at 15 cells per wavelength, CW), flux planes over the whole
   interior cross-section: backward < 10 % of forward.

The forward flux must itself be positive in the declared direction and above a measured floor (non-trivial rule).
"""
ID = "C13"
LEVEL = "exploration"
MANIFEST = {
    "engine": "E4-scene-sweep",
    "technique": "bounded exhaustive sweep of a finite scene menu (propagation axes x directions x polarizations x resolutions x temporal profiles x background media; Gaussian radii x directions) through run_fdtd against flux-ratio threshold oracles",
    "text": "Every scene of the stated finite menu is run through fdtdx.run_fdtd: UniformPlaneSource at normal incidence in a transversely periodic homogeneous medium for all 3 axes x 2 directions x 5 transverse polarizations (+1 seed angle) x {15,20} cells per wavelength x {CW, Gaussian pulse} x permittivity {1, 2.25}, with Poynting-flux planes 4 cells either side: backward/forward power < 1e-3 and forward power positive in the declared direction; GaussianPlaneSource with radius {0.3,0.5,1.0} wavelengths in all six directions in a 3-D all-PML domain: backward < 10% of forward.",
    "note": "Threshold property over a continuous scene family: model checking contributes only the exhaustive sweep of the menu, nothing is sampled. Resolution is counted in cells per wavelength inside the medium (so >= 15 also per vacuum wavelength). CW powers are averages over the last 4 carrier periods (steadiness of the forward average is a precondition), pulsed powers are time integrals (the pulse must have passed). The Gaussian figure depends on the finite flux-plane size (wider planes count more of the grazing radiation on both sides); the menu uses transverse interiors of 4 and 6 radii and, in thorough, 20 radii.",
}
RULE = (
    "case = one scene (source kind, propagation axis, direction, polarization angle, cells per wavelength, temporal profile, background "
    "permittivity; Gaussian: radius, transverse size); one run_fdtd run each. Non-trivial when the forward power is positive and above "
    "1e-18 (uniform CW measured 8.9e-16..2.2e-15, pulses 4e-14..1e-13 time-integrated, Gaussian 3.8e-16..2.2e-15 on the unchanged tree) and the "
    "record is settled (CW forward average steady to 2 % over two consecutive 4-period windows / pulse tail < 1e-9 of its maximum); "
    "distinct = distinct case descriptors."
)
ASSUMPTIONS = [
    "finite menu: polarization angles {0,30,45,60,90 degrees (+1 seed angle)}, {15,20} cells per wavelength, permittivity {1,2.25}, Gaussian radii {0.3,0.5,1.0} wavelengths with the default std = radius/3",
    "flux planes 4 cells from the injection plane; Gaussian flux planes cover the interior cross-section (4, 6 or 20 radii wide), so power radiated at grazing angles beyond them is not counted on either side",
    "CW power = average of the flux record over the last 4 carrier periods (window rounded to whole steps)",
    "float64 evaluation is representative of the float32 default",
]
THRESH_UNIFORM = 1e-3
THRESH_GAUSS = 0.1
FLOOR = 1e-18
ANGLES = (0.0, 90.0, 30.0, 45.0, 60.0)
WIDE = 20  # transverse interior / flux-plane width in radii of the "wide" Gaussian elements


def _u(ax, d, ang, res, prof, eps):
    return dict(kind="uniform", axis=ax, dir=d, ang=ang, res=res, prof=prof, eps=eps, pml=10)


def _g(ax, d, ang, res, prof, rad, tmul):
    return dict(kind="gauss", axis=ax, dir=d, ang=ang, res=res, prof=prof, eps=1.0, rad=rad, tmul=tmul, pml=8)


def _seed_angle(seed):
    import random

    return round(random.Random(1000003 * int(seed) + 13).uniform(3.0, 87.0), 1)


def cases(tier, seed):
    out = []
    sa = _seed_angle(seed)
    dirs = [(ax, d) for ax in range(3) for d in "+-"]
    if tier == "quick":
        # all 6 directions x both axis polarizations x CW (resolution and medium rotate so that each value meets each direction)
        k = 0
        for ax, d in dirs:
            for ang in (0.0, 90.0):
                out.append(_u(ax, d, ang, (15, 20)[k % 2], "cw", (1.0, 2.25)[(k // 2) % 2]))
                k += 1
        # oblique polarizations and pulses: one per direction
        for i, (ax, d) in enumerate(dirs):
            out.append(_u(ax, d, (30.0, 45.0, 60.0)[i % 3], (20, 15)[i % 2], "pulse" if i % 2 == 0 else "cw", (2.25, 1.0)[(i // 2) % 2]))
        out.append(_u(seed % 3, "+-"[seed % 2], sa, 15, "pulse", 1.0))
        out.append(_g(2, "+", 0.0, 15, "cw", 0.3, 4))
        out.append(_g(0, "-", 90.0, 15, "cw", 0.5, 4))
    else:
        for ax, d in dirs:
            for ang in ANGLES + (sa,):
                for res in (15, 20):
                    for prof in ("cw", "pulse"):
                        for eps in (1.0, 2.25):
                            out.append(_u(ax, d, ang, res, prof, eps))
        k = 0
        for rad in (0.3, 0.5, 1.0):
            for ax, d in dirs:
                for res in (15, 20):
                    for tmul in (4, 6):
                        for prof in ("cw", "pulse"):
                            out.append(_g(ax, d, (0.0, 90.0, 45.0, sa)[k % 4], res, prof, rad, tmul))
                            k += 1
        # wide flux planes (20 radii): count (almost) all of the radiated power, including the grazing part
        for rad in (0.3, 0.5, 1.0):
            for ax, d in dirs:
                out.append(_g(ax, d, (0.0, 90.0, 45.0, sa)[k % 4], 15, "cw", rad, WIDE))
                k += 1
    for c in out:
        c["seed"] = seed
    return out


def bounds(tier, seed):
    cs = cases(tier, seed)
    u = [c for c in cs if c["kind"] == "uniform"]
    g = [c for c in cs if c["kind"] == "gauss"]
    return {
        "uniform_scenes": len(u),
        "gaussian_scenes": len(g),
        "directions": sorted({c["dir"] + "xyz"[c["axis"]] for c in cs}),
        "polarization_angles_deg": sorted({c["ang"] for c in u}),
        "cells_per_wavelength": sorted({c["res"] for c in cs}),
        "profiles": sorted({c["prof"] for c in cs}),
        "permittivity": sorted({c["eps"] for c in u}),
        "gaussian_radii_wavelengths": sorted({c["rad"] for c in g}),
        "gaussian_transverse_size_radii": sorted({c["tmul"] for c in g}),
        "uniform_domain": "2x2 cells periodic cross-section, 10-cell PML on the propagation axis, flux planes 4 cells either side, source 7 cells from the layer",
        "gaussian_domain": "8-cell PML on all faces, flux planes over the interior cross-section 4 cells either side",
        "thresholds": {"uniform": THRESH_UNIFORM, "gaussian": THRESH_GAUSS},
        "seed": seed,
        "tier_note": "quick is a covering subset (all 6 directions x 2 axis polarizations x CW, one oblique/pulsed scene per direction, 2 Gaussian beams); thorough is the full product (Gaussian polarization rotates through the angle menu)" if tier == "quick" else "full product for the uniform source; Gaussian: radii x directions x resolutions x sizes{4,6} x profiles plus radii x directions at 20 radii (15 cells per wavelength, CW), polarization rotating through {0,90,45,seed}",
    }


def _sig(case):
    base = f"{case['dir']}{'xyz'[case['axis']]}:{case['prof']}"
    if case["kind"] == "uniform":
        return f"uniform:{base}:eps={case['eps']:g}"
    return f"gauss:{base}:radius={case['rad']:g}:planes={case['tmul']}radii"


def _log(case, res):
    """Optional per-case detail log (one JSON line per case) for margin reports: set VERIF_DETAIL_LOG=<path>."""
    import json
    import os

    path = os.environ.get("VERIF_DETAIL_LOG")
    if path:
        with open(path, "a") as fh:
            fh.write(json.dumps(dict(case=case, ok=res["ok"], failures=[f["sig"] for f in res.get("failures", [])], detail=res.get("detail")), default=str) + "\n")
    return res


def run_case(case):
    import jax
    import numpy as np

    from mc import guard, scenes
    from mc.oracles import pml_scenes as P

    fdtdx = guard.import_fdtdx()
    spec, period = P.c13_spec(case)
    sc = scenes.build(spec)
    # the scene must lie inside the property's stated domain
    assert case["res"] >= 15 and min(p.thickness for p in sc.objects.pml_objects) >= 8
    if case["kind"] == "gauss":
        assert case["rad"] >= 0.3 and case["tmul"] >= 4
    f = jax.jit(lambda a: fdtdx.run_fdtd(a, sc.objects, sc.config, jax.random.PRNGKey(0), show_progress=False))
    _, arr = f(sc.arrays)
    front = np.asarray(arr.detector_states["front"]["poynting_flux"], dtype=np.float64).reshape(-1)
    back = np.asarray(arr.detector_states["back"]["poynting_flux"], dtype=np.float64).reshape(-1)
    pf, pb, settled, info = P.c13_powers(front, back, case["prof"], period)
    ratio = abs(pb) / abs(pf) if pf != 0 else float("inf")
    thr = THRESH_UNIFORM if case["kind"] == "uniform" else THRESH_GAUSS
    detail = dict(forward=pf, backward=pb, ratio=ratio, threshold=thr, steps=int(front.shape[0]), period_steps=period, shape=spec["shape"], **info)
    fails = []
    sig = _sig(case)
    if not (np.all(np.isfinite(front)) and np.all(np.isfinite(back))):
        fails.append(dict(sig=f"non-finite-flux:{sig}", detail=detail))
    else:
        if not pf > 0:
            fails.append(dict(sig=f"forward-power-not-positive:{sig}", detail=detail))
        if not ratio < thr:
            fails.append(dict(sig=f"backward-power>={thr:g}-of-forward:{sig}", detail=detail))
        if not settled and not fails:
            fails.append(dict(sig=f"harness:record-not-settled:{sig}", detail=detail))
    nontriv = pf > FLOOR and settled
    import math

    oc = f"{case['kind']}:{case['prof']}:ratio~1e{int(math.floor(math.log10(max(ratio, 1e-300))))}" if math.isfinite(ratio) else f"{case['kind']}:{case['prof']}:ratio=inf"
    return _log(case, dict(ok=not fails, failures=fails, detail=detail, nontrivial=int(nontriv), evals=1, outcome=oc))
