"""C14 — on/off schedules decide exactly when sources inject and detectors record.

(a) E2: the complete grid of OnOffSwitch parameter combinations x run lengths T=1..12 x time-step durations is
    evaluated through the real OnOffSwitch methods and compared with an independent exact-rational reading of the
    documented window rule (inclusive ends, t*dt, interval, fixed lists, always-off); contradictory specifications
    must raise; the time-step -> on-index map is checked for every record.
(b) E1: for a menu of schedules placed on sources and on Field/Phasor detectors of a tiny scene, every step index of
    the run is a state: the real `forward` step is tabulated on 0 and all basis states (source part) and executed
    step by step on a generic trajectory (detector part); at inactive steps the tabulated step must be *identical*
    to the source-free step (at the k-th active step the offset must be the one of the always-on source at its step
    k, the time-step -> on-index map; 1e-5 because fdtdx interpolates that index in float32), and after every step each detector array must hold exactly one record per active step
    so far, in chronological order, every other slot still holding its sentinel.
"""
import itertools

import numpy as np

ID = "C14"
LEVEL = "model_checking"
MANIFEST = {
    "engine": "E2-enum + E1-linsys",
    "technique": "explicit-state model checking: exhaustive enumeration of the schedule parameter grid against an exact-rational window oracle; per-step tabulation of the real forward step on all basis states and step-by-step replay of detector arrays on every prefix of the run",
    "text": "All combinations of the ten OnOffSwitch parameters over small alphabets (with exact ties on window edges) x T=1..12 x time-step durations are run through calculate_on_list / calculate_time_step_to_on_arr_idx / is_on_at_time_step and compared with an independent exact reading of the window rule; for a menu of schedules on sources and detectors the real step is tabulated at every time index (source offset and matrix equal to the source-free step at inactive steps) and detector arrays are compared slot by slot after every step against sentinel-initialised model arrays.",
    "note": "Ties within a few ulp of a window edge that are not exact in rational arithmetic accept either answer. Parameter values from finite alphabets; float64.",
}
RULE = (
    "(a) case = (dt, start_time, start_after_periods, end_time, end_after_periods); inside it every combination of on_for_time, "
    "on_for_periods, period, interval, fixed_on_time_steps, is_always_off and T=1..12 is one element; an element is non-trivial "
    "when the expected on-list is neither all-on nor all-off or the specification is invalid; distinct = distinct parameter tuples. "
    "(b) case = (schedule, object kind); non-trivial when the schedule has both active and inactive steps in the run and the "
    "active source offset / detector record is non-zero."
)
ASSUMPTIONS = [
    "parameter values come from finite alphabets containing exact ties (dyadic dt) and generic values (scene dt, VERIF_SEED dt)",
    "float64 evaluation is representative of the float32 default",
    "eager (disable_jit) execution of forward/update_detector_states equals the jitted driver (checked by conformance replays through custom_fdtd_forward)",
]

# is_always_off=True together with a fixed step list: the field is documented as "whether switch is always off", and
# fdtdx.utils.sparams silences sources by setting exactly this flag, so the strict reading (off wins) is demanded.
# Set to False to accept either answer for that combination.
STRICT_ALWAYS_OFF = True
DT_DYADIC = 2.0**-50
DT_GENERIC = 9.531017980432493e-17


def _dts(seed):
    out = [DT_DYADIC, DT_GENERIC]
    if seed:
        out.append(float(np.random.default_rng(1000 + seed).uniform(3e-17, 4e-16)))
    return out


# multipliers of dt (times) / of the period (=4 dt)
A_START = [None, 2.0, 2.5]
A_SAP = [None, 0.5, 0.8]
A_END = [None, 5.0, 7.25]
A_EAP = [None, 1.5, 2.05]
A_ONT = [None, 3.0, 1.75]
A_ONP = [None, 1.0, 0.3]
A_PERIOD = [None, 4.0]
A_INTERVAL = [1, 2, 3]
A_FIXED = ["none", "empty", "zero", "one-four", "last", "neg-last"]
TS = list(range(1, 13))

SCHEDULES = [
    ("default", {}),
    ("start", {"start_time": 2.5}),
    ("end", {"end_time": 4.5}),
    ("start-end", {"start_time": 1.5, "end_time": 5.5}),
    ("periods-tie", {"start_after_periods": 0.5, "end_after_periods": 1.5, "period": 4.0}),
    ("duration", {"on_for_time": 3.5}),
    ("end-minus-duration", {"end_after_periods": 1.6, "on_for_periods": 0.8, "period": 4.0}),
    ("interval3", {"interval": 3}),
    ("interval2-start", {"interval": 2, "start_time": 2.5}),
    ("fixed-1-4", {"fixed_on_time_steps": [1, 4]}),
    ("fixed-last", {"fixed_on_time_steps": [-1]}),
    ("fixed-empty", {"fixed_on_time_steps": []}),
    ("always-off", {"is_always_off": True}),
    ("tie-edges", {"start_time": 2.0, "end_time": 6.0}),
]
OBJECTS_Q = ["src-dipole", "src-plane", "det"]
OBJECTS_T = ["src-dipole", "src-dipole-h", "src-plane", "src-gauss", "det", "det-periodic"]


def cases(tier, seed):
    out = []
    # (b) first: the scene cases are the slow ones
    objs = OBJECTS_Q if tier == "quick" else OBJECTS_T
    for oi, ob in enumerate(objs):
        for si, (name, _) in enumerate(SCHEDULES):
            conf = (si in (3, 7, 9)) if tier == "quick" else True
            out.append(dict(part="b", obj=ob, sched=name, T=8, conf=bool(conf and ob in ("det", "det-periodic", "src-dipole")), seed=seed))
    for di, dt in enumerate(_dts(seed)):
        for st, sap, et, eap in itertools.product(A_START, A_SAP, A_END, A_EAP):
            out.append(dict(part="a", dt=dt, start_time=st, start_after_periods=sap, end_time=et, end_after_periods=eap, seed=seed))
    return out


def bounds(tier, seed):
    return {
        "a": {
            "dt": _dts(seed),
            "start_time/dt": A_START,
            "start_after_periods": A_SAP,
            "end_time/dt": A_END,
            "end_after_periods": A_EAP,
            "on_for_time/dt": A_ONT,
            "on_for_periods": A_ONP,
            "period/dt": A_PERIOD,
            "interval": A_INTERVAL,
            "fixed_on_time_steps": A_FIXED,
            "is_always_off": [False, True],
            "T": TS,
            "records": len(_dts(seed)) * 3**6 * 2 * 3 * len(A_FIXED) * 2 * len(TS),
        },
        "b": {"schedules": [s[0] for s in SCHEDULES], "objects": OBJECTS_Q if tier == "quick" else OBJECTS_T, "T": 8, "every step index tabulated / replayed": True},
        "seed": seed,
    }


# ------------------------------------------------------------------------------------------------ part (a)
def _fixed(tag, T):
    return {"none": None, "empty": [], "zero": [0], "one-four": [1, 4], "last": [T - 1], "neg-last": [-1]}[tag]


def _run_a(case):
    from mc import guard

    guard.import_fdtdx()
    from fdtdx.core.switch import OnOffSwitch, is_on_at_time_step_from_switch
    from mc.oracles import detectors as O

    dt = case["dt"]

    def tm(x):
        return None if x is None else x * dt

    fails = {}
    evals = nontriv = 0
    outcomes = {}

    def fail(sig, detail):
        if sig not in fails:
            fails[sig] = dict(sig=sig, detail=detail)

    for ont, onp, per, iv, fx, off in itertools.product(A_ONT, A_ONP, A_PERIOD, A_INTERVAL, A_FIXED, (False, True)):
        base = dict(
            start_time=tm(case["start_time"]),
            start_after_periods=case["start_after_periods"],
            end_time=tm(case["end_time"]),
            end_after_periods=case["end_after_periods"],
            on_for_time=tm(ont),
            on_for_periods=onp,
            period=tm(per),
            interval=iv,
            is_always_off=off,
        )
        # is the window specification itself contradictory?
        try:
            O.window_of(base)
            window_invalid = False
        except O.Invalid:
            window_invalid = True
        for T in TS:
            p = dict(base, fixed_on_time_steps=_fixed(fx, T))
            evals += 1
            try:
                exp_on, amb = O.switch_oracle(p, T, dt)
                exp_raise = False
            except O.Invalid:
                exp_on, amb, exp_raise = None, None, True
            sw = OnOffSwitch(**p)
            try:
                got_on = sw.calculate_on_list(num_total_time_steps=T, time_step_duration=dt)
                got_idx = sw.calculate_time_step_to_on_arr_idx(num_total_time_steps=T, time_step_duration=dt)
                raised = None
            except Exception as e:  # documented: invalid specifications raise
                got_on = got_idx = None
                raised = type(e).__name__
            # a specification the rule never consults (window parameters under always-off / a fixed list, a fixed list
            # under always-off) may or may not be validated
            fx_list = p["fixed_on_time_steps"]
            fixed_invalid = fx_list is not None and any(not -T <= k < T for k in fx_list)
            unused_invalid = (window_invalid and (off or fx_list is not None)) or (fixed_invalid and off)
            cls = f"fixed={fx != 'none'},off={off},interval={iv}"
            desc = {k: v for k, v in p.items() if v is not None and v is not False}
            if exp_raise:
                nontriv += 1
                outcomes["invalid-raises"] = outcomes.get("invalid-raises", 0) + 1
                if raised is None:
                    fail(f"a:invalid-spec-accepted:{'fixed-out-of-range' if fixed_invalid else 'window'}", dict(params=desc, T=T, got=got_on))
                continue
            if raised is not None:
                if unused_invalid:
                    outcomes["unused-invalid-raises"] = outcomes.get("unused-invalid-raises", 0) + 1
                    continue
                fail(f"a:valid-spec-raises:{cls}", dict(params=desc, T=T, raised=raised))
                continue
            if any(exp_on) and not all(exp_on):
                nontriv += 1
            outcomes["mixed" if any(exp_on) and not all(exp_on) else ("all-on" if all(exp_on) and T > 0 else "all-off")] = (
                outcomes.get("mixed" if any(exp_on) and not all(exp_on) else ("all-on" if all(exp_on) and T > 0 else "all-off"), 0) + 1
            )
            if len(got_on) != T or any(not isinstance(v, bool) for v in got_on):
                fail("a:on-list-malformed", dict(params=desc, T=T, got=got_on))
                continue
            bad = [t for t in range(T) if got_on[t] != exp_on[t] and not amb[t]]
            if bad and off and p["fixed_on_time_steps"] is not None and not STRICT_ALWAYS_OFF:
                bad = []
            if bad:
                t = bad[0]
                if off:
                    kind = "always-off-overridden-by-fixed-steps" if p["fixed_on_time_steps"] is not None else "always-off-is-on"
                elif p["fixed_on_time_steps"] is not None:
                    kind = "fixed-list"
                else:
                    S, E = O.window_of(p)
                    x = t * O.Fraction(dt)
                    kind = "start-edge" if x == S else ("end-edge" if x == E else ("interval" if (t % iv != 0) != (not got_on[t]) and S <= x and (E == float("inf") or x <= E) else "window"))
                fail(f"a:on-list:{kind}", dict(params=desc, T=T, step=t, got=got_on, expected=exp_on))
                continue
            if got_idx != O.index_map(got_on):
                fail("a:index-map", dict(params=desc, T=T, on=got_on, got=got_idx, expected=O.index_map(got_on)))
            # the single-step entry points agree with the list (window part only)
            if p["fixed_on_time_steps"] is None and iv == 1:
                for t in range(T):
                    a1 = sw.is_on_at_time_step(time_step=t, time_step_duration=dt)
                    a2 = is_on_at_time_step_from_switch(t, dt, sw)
                    if a1 != got_on[t] or a2 != got_on[t]:
                        fail("a:is_on_at_time_step-disagrees-with-on-list", dict(params=desc, T=T, step=t))
                        break
    return dict(ok=not fails, failures=list(fails.values()), nontrivial=nontriv, evals=evals, states=evals, transitions=evals, traces=0, outcome=outcomes, detail={"records": evals})


# ------------------------------------------------------------------------------------------------ part (b)
def _scene_dt():
    from mc import guard

    fdtdx = guard.import_fdtdx()
    import jax.numpy as jnp

    return float(fdtdx.SimulationConfig(time=1e-15, grid=fdtdx.UniformGrid(spacing=50e-9), backend="cpu", dtype=jnp.float64, courant_factor=0.99).time_step_duration)


def _switch_kwargs(sched, dt):
    out = {}
    for k, v in sched.items():
        if k in ("start_time", "end_time", "on_for_time", "period"):
            out[k] = v * dt
        else:
            out[k] = v
    return out


SHAPE_B = (3, 3, 4)


def _source_spec(kind, sw):
    wave = {"wavelength": 4.1e-7}
    if kind == "src-dipole":
        return dict(kind="dipole", box=[[1, 2], [1, 2], [2, 3]], polarization=0, wave=wave, switch=sw, amp=1.3)
    if kind == "src-dipole-h":
        return dict(kind="dipole", box=[[1, 2], [2, 3], [1, 2]], polarization=2, source_type="magnetic", wave=wave, switch=sw)
    if kind == "src-plane":
        return dict(kind="plane", box=[[0, 3], [0, 3], [1, 2]], direction="+", fixed_E_polarization_vector=[1, 0, 0], wave=wave, switch=sw)
    if kind == "src-gauss":
        return dict(kind="gauss", box=[[0, 3], [0, 3], [2, 3]], direction="-", fixed_E_polarization_vector=[0, 1, 0], radius=1.2e-7, wave=wave, switch=sw)
    raise ValueError(kind)


def _run_b_source(case):
    from mc import guard, linsys, scenes

    guard.import_fdtdx()
    import jax
    import jax.numpy as jnp
    from mc.oracles import detectors as O

    dt = _scene_dt()
    sched = dict(SCHEDULES)[case["sched"]]
    sw = _switch_kwargs(sched, dt)
    T = case["T"]
    faces = scenes.faces_from_axes(["periodic", "periodic", ("none", "pec")])
    base = dict(shape=SHAPE_B, steps=T, faces=faces, grid="uniform", eps={"tier": "iso", "pat": "distinct", "lo": 1.0, "hi": 2.0}, seed=case["seed"])
    sc_free = scenes.build(base)
    sc = scenes.build(dict(base, sources=[_source_spec(case["obj"], sw or None)]))
    sc_on = scenes.build(dict(base, sources=[_source_spec(case["obj"], None)]))  # reference: default always-on switch
    if abs(sc.dt - dt) > 0:
        raise RuntimeError("scene dt differs from the dt the schedule was expressed in")
    exp_on, amb = O.switch_oracle(dict(sw), T, dt)
    src = sc.objects.sources[0]
    fails = []
    got_on = [bool(v) for v in np.asarray(src._is_on_at_time_step_arr)]
    if any(got_on[t] != exp_on[t] and not amb[t] for t in range(T)):
        fails.append(dict(sig=f"b:source-on-mask:{case['sched']}", detail=dict(got=got_on, expected=exp_on)))
    got_idx = [int(v) for v in np.asarray(src._time_step_to_on_idx)]
    if got_idx != O.index_map(got_on):
        fails.append(dict(sig="b:source-index-map", detail=dict(got=got_idx, on=got_on)))
    codec = linsys.Codec(sc.arrays)
    n = codec.n
    X = jnp.concatenate([jnp.zeros((1, n), dtype=codec.dtype), jnp.eye(n, dtype=codec.dtype)], axis=0)
    evals = 0
    active_nonzero = 0
    inactive = 0
    with jax.disable_jit():
        ref = np.asarray(jax.vmap(linsys.forward_fn(sc_free, codec, 0))(X))
        evals += n + 1
        b_ref = {}
        on_idx = O.index_map(exp_on)
        for t in range(T):
            if amb[t]:
                continue
            out = np.asarray(jax.vmap(linsys.forward_fn(sc, codec, t))(X))
            evals += n + 1
            b_t = out[0]
            if exp_on[t] and not any(amb[:t]):
                # the k-th active step injects what the always-on source injects at its step k (time-step -> on-index map)
                k = on_idx[t]
                if k not in b_ref:
                    b_ref[k] = np.asarray(linsys.forward_fn(sc_on, codec, k)(jnp.zeros(n, dtype=codec.dtype)))
                    evals += 1
                scale = max(1e-300, float(np.max(np.abs(b_ref[k]))))
                if float(np.max(np.abs(b_t - b_ref[k]))) > 1e-5 * scale:  # the on-index is interpolated in float32 inside fdtdx
                    fails.append(dict(sig=f"b:source-active-step-differs-from-on-index-reference:{case['obj']}", detail=dict(step=t, on_index=k, sched=case["sched"], max_diff=float(np.max(np.abs(b_t - b_ref[k]))), ref=scale)))
            if not exp_on[t]:
                inactive += 1
                if np.max(np.abs(b_t)) != 0.0:
                    fails.append(dict(sig=f"b:source-injects-at-inactive-step:{case['obj']}", detail=dict(step=t, max_b=float(np.max(np.abs(b_t))), sched=case["sched"])))
                elif not np.array_equal(out, ref):
                    fails.append(dict(sig=f"b:source-alters-step-at-inactive-step:{case['obj']}", detail=dict(step=t, max=float(np.max(np.abs(out - ref))))))
            else:
                if np.max(np.abs(b_t)) > 0:
                    active_nonzero += 1
    traces = 0
    if case.get("conf"):
        # conformance: run the whole schedule through the jitted driver from a dense state; wherever the schedule is
        # off the trajectory must follow the source-free table, i.e. s_{t+1} = M s_t  (M = ref table)
        from fdtdx.fdtd.fdtd import custom_fdtd_forward

        M = (ref[1:] - ref[0][None, :]).T
        s0 = linsys.dense_state(n, "distinct", case["seed"])
        k0 = next((t for t in range(T) if exp_on[t] or amb[t]), T)  # leading inactive prefix
        if k0 > 0:
            a0 = codec.unpack(sc.arrays, jnp.asarray(s0, dtype=codec.dtype))
            _, a1 = custom_fdtd_forward(a0, sc.objects, sc.config, jax.random.PRNGKey(0), reset_container=False, record_detectors=False, start_time=0, end_time=k0, show_progress=False)
            got = np.asarray(codec.pack(a1))
            exp = np.linalg.matrix_power(M, k0) @ s0
            d = float(np.max(np.abs(got - exp))) / float(np.max(np.abs(exp)))
            traces += 1
            if d > 1e-9:
                fails.append(dict(sig="conformance:inactive-prefix-vs-driver", detail=dict(defect=d, steps=k0)))
    mixed = any(exp_on) and not all(exp_on)
    return dict(
        ok=not fails,
        failures=fails,
        detail=dict(on=exp_on, active_nonzero=active_nonzero, inactive_steps=inactive),
        nontrivial=int(mixed and active_nonzero > 0),
        evals=evals,
        states=(n + 1) * T,
        transitions=evals,
        traces=traces,
        outcome=f"src:{'mixed' if mixed else ('all-on' if all(exp_on) else 'all-off')}",
    )


DET_MENU = [
    dict(name="f_exact", kind="field", box=[[0, 2], [1, 3], [0, 4]], exact_interpolation=True),
    dict(name="f_raw", kind="field", box=[[1, 3], [0, 2], [1, 3]], exact_interpolation=False, components=["Ey", "Hx", "Hz"]),
    dict(name="f_red", kind="field", box=[[1, 2], [1, 3], [1, 3]], exact_interpolation=True, reduce_volume=True),
    dict(name="p_raw", kind="phasor", box=[[0, 2], [1, 2], [1, 3]], exact_interpolation=False, wave_characters=[{"wavelength": 4.1e-7}, {"wavelength": 6.3e-7}]),
    dict(name="p_exact", kind="phasor", box=[[1, 3], [1, 3], [0, 2]], exact_interpolation=True, wave_characters=[{"wavelength": 5.0e-7}], components=["Ex", "Ez", "Hy"], scaling_mode="pulse"),
]


def _run_b_det(case):
    from mc import guard, linsys, scenes

    guard.import_fdtdx()
    import jax
    import jax.numpy as jnp
    from fdtdx.fdtd.forward import forward
    from mc.oracles import detectors as O

    dt = _scene_dt()
    sched = dict(SCHEDULES)[case["sched"]]
    sw = _switch_kwargs(sched, dt)
    T = case["T"]
    periodic = case["obj"] == "det-periodic"
    per_axis = ["periodic", "periodic", ("none", "pec")] if periodic else [("none", "none"), ("pmc", "none"), ("none", "pec")]
    faces = scenes.faces_from_axes(per_axis)
    halos = ["wrap", "wrap", "zero"] if periodic else ["zero", "zero", "zero"]
    exp_on, amb = O.switch_oracle(dict(sw), T, dt)
    try:
        dets = [dict(d, switch=(sw or None)) for d in DET_MENU]
        spec = dict(
            shape=SHAPE_B,
            steps=T,
            faces=faces,
            grid="uniform",
            seed=case["seed"],
            sources=[dict(kind="dipole", box=[[1, 2], [1, 2], [2, 3]], polarization=0, wave={"wavelength": 4.1e-7}), dict(kind="dipole", box=[[2, 3], [0, 1], [1, 2]], polarization=1, wave={"wavelength": 3.3e-7})],
            detectors=dets,
        )
        sc = scenes.build(spec)
        placed_raise = None
    except Exception as e:
        placed_raise = e
    fails = []
    if not any(exp_on) and placed_raise is not None:
        # a phasor detector that never records has no coherent gain: placement documents an exception for it
        spec["detectors"] = [d for d in spec["detectors"] if d["kind"] != "phasor"]
        sc = scenes.build(spec)
    elif placed_raise is not None:
        raise placed_raise
    widths = [np.full(SHAPE_B[a], 50e-9) for a in range(3)]
    by_name = {d.name: d for d in sc.objects.detectors}
    idx = O.index_map(exp_on)
    n_on = sum(exp_on)
    # sentinel-initialised detector arrays (so that "untouched" is observable) -- the same values in model and code
    states = {}
    model = {}
    for name, st in sc.arrays.detector_states.items():
        states[name] = {}
        model[name] = {}
        for k, v in st.items():
            sent = (0.37 + 0.01 * np.arange(v.size)).reshape(v.shape)
            if jnp.issubdtype(v.dtype, jnp.complexfloating):
                sent = sent * (1 - 0.5j)
            states[name][k] = jnp.asarray(sent, dtype=v.dtype)
            model[name][k] = np.array(sent, dtype=np.complex128 if jnp.issubdtype(v.dtype, jnp.complexfloating) else np.float64)
    for d in sc.objects.detectors:
        got_on = [bool(v) for v in np.asarray(d._is_on_at_time_step_arr)]
        if any(got_on[t] != exp_on[t] and not amb[t] for t in range(T)):
            fails.append(dict(sig=f"b:detector-on-mask:{case['sched']}", detail=dict(det=d.name, got=got_on, expected=exp_on)))
        for k, v in sc.arrays.detector_states[d.name].items():
            want = 1 if d.name.startswith("p_") else n_on
            if v.shape[0] != want:
                fails.append(dict(sig="b:detector-array-length", detail=dict(det=d.name, got=int(v.shape[0]), expected=want)))
    if fails or any(amb):
        return dict(ok=not fails, failures=fails, nontrivial=0, evals=1, states=0, transitions=0, traces=0, outcome="det:ambiguous-or-static-failure")
    arrays = sc.arrays.aset("detector_states", states)
    codec = linsys.Codec(arrays)
    s0 = linsys.dense_state(codec.n, "distinct", case["seed"]) * 1e-3
    arrays = codec.unpack(arrays, jnp.asarray(s0, dtype=codec.dtype))
    arrays0 = arrays
    key = jax.random.PRNGKey(0)
    evals = 0
    recorded_nonzero = 0
    specs = {d["name"]: d for d in DET_MENU}
    worst = 0.0
    with jax.disable_jit():
        for t in range(T):
            Hprev = np.asarray(arrays.fields.H)
            _, arrays = forward((jnp.asarray(t, dtype=jnp.int32), arrays), sc.config, sc.objects, key, True, False, True)
            evals += 1
            E, H = np.asarray(arrays.fields.E), np.asarray(arrays.fields.H)
            Ec, Hc = O.colocate(E, Hprev, H, halos, [1, 1, 1], widths, True)
            for name, d in by_name.items():
                sp = specs[name]
                box = sp["box"]
                comps = sp.get("components", list(O.COMPONENTS))
                rec = O.select(O.restrict(Ec, box), O.restrict(Hc, box), comps) if sp["exact_interpolation"] else O.select(O.restrict(E, box), O.restrict(H, box), comps)
                if sp.get("reduce_volume"):
                    rec = rec.mean(axis=(-3, -2, -1))  # uniform grid: equal volumes
                if exp_on[t]:
                    if sp["kind"] == "field":
                        model[name]["fields"][idx[t]] = rec
                    else:
                        om = 2 * np.pi * np.array([299792458.0 / w["wavelength"] for w in sp["wave_characters"]])
                        scale = 2.0 / n_on if sp.get("scaling_mode", "continuous") == "continuous" else 1.0
                        ph = np.exp(1j * om * (t * dt)).reshape((-1,) + (1,) * rec.ndim)
                        model[name]["phasor"][0] = model[name]["phasor"][0] + scale * ph * rec[None]
                    if np.max(np.abs(rec)) > 0:
                        recorded_nonzero += 1
                # compare the whole array after every step: recorded slots, earlier slots, untouched sentinel slots
                for k in model[name]:
                    got = np.asarray(arrays.detector_states[name][k])
                    exp = model[name][k]
                    if got.shape != exp.shape:
                        fails.append(dict(sig="b:detector-array-shape", detail=dict(det=name, got=list(got.shape), expected=list(exp.shape))))
                        continue
                    if exp.size == 0:
                        continue
                    sc_ = max(1e-300, float(np.max(np.abs(exp))))
                    dlt = np.abs(got - exp) / sc_
                    # untouched slots must be bit-identical to the sentinel
                    untouched = np.ones(got.shape[0], dtype=bool)
                    if sp["kind"] == "field":
                        for tt in range(t + 1):
                            if exp_on[tt]:
                                untouched[idx[tt]] = False
                        if untouched.any() and not np.array_equal(got[untouched], exp[untouched]):
                            slot = int(np.nonzero([not np.array_equal(got[i], exp[i]) for i in range(got.shape[0])] & untouched)[0][0])
                            fails.append(dict(sig=f"b:detector-touches-foreign-slot:{sp['kind']}", detail=dict(det=name, step=t, slot=slot, on=exp_on)))
                    elif not any(exp_on[: t + 1]) and not np.array_equal(got, exp):
                        fails.append(dict(sig="b:phasor-changes-at-inactive-step", detail=dict(det=name, step=t, on=exp_on)))
                    worst = max(worst, float(dlt.max()))
                    if dlt.max() > 1e-9:
                        bad_slot = int(np.unravel_index(np.argmax(dlt), dlt.shape)[0])
                        kind = "inactive-step-recorded" if not exp_on[t] else "wrong-slot-or-record"
                        fails.append(dict(sig=f"b:detector-array:{sp['kind']}:{kind}", detail=dict(det=name, step=t, slot=bad_slot, on=exp_on, rel=float(dlt.max()))))
            if fails:
                break
    traces = 0
    if case.get("conf") and not fails:
        from fdtdx.fdtd.fdtd import custom_fdtd_forward

        try:
            _, aT = custom_fdtd_forward(arrays0, sc.objects, sc.config, key, reset_container=False, record_detectors=True, start_time=0, end_time=T, show_progress=False)
        except Exception as e:
            empty = [n for n in model if any(v.shape[0] == 0 for v in model[n].values())]
            if empty and ("update() raised" in str(e) or isinstance(e, IndexError)):
                # a detector whose schedule has no active step owns zero-length record arrays; the jitted driver cannot trace its update
                return dict(ok=False, failures=[dict(sig="b:jit-driver-raises:detector-without-any-active-step", detail=dict(detectors=empty, error=str(e)[:200], sched=case["sched"]))], detail={}, nontrivial=0, evals=evals, states=evals, transitions=evals, traces=1)
            raise
        traces += 1
        for name in model:
            for k in model[name]:
                got = np.asarray(aT.detector_states[name][k])
                exp = model[name][k]
                if exp.size == 0:
                    continue
                d = float(np.max(np.abs(got - exp))) / max(1e-300, float(np.max(np.abs(exp))))
                if d > 1e-9:
                    fails.append(dict(sig="conformance:detector-arrays-vs-driver", detail=dict(det=name, defect=d)))
    mixed = any(exp_on) and not all(exp_on)
    return dict(
        ok=not fails,
        failures=fails[:6],
        detail=dict(on=exp_on, worst_rel=worst, recorded_nonzero=recorded_nonzero),
        nontrivial=int(mixed and recorded_nonzero > 0),
        evals=evals * len(by_name),
        states=(T + 1) * len(by_name),
        transitions=T * len(by_name),
        traces=traces,
        outcome=f"det:{'mixed' if mixed else ('all-on' if all(exp_on) else 'all-off')}",
    )


def run_case(case):
    if case["part"] == "a":
        return _run_a(case)
    if case["obj"].startswith("src"):
        return _run_b_source(case)
    return _run_b_det(case)
